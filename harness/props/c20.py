"""C20 — concurrent and re-entrant glom calls: deterministic scheduler, generators, runner."""
import copy
import itertools
import json
import os
import re
import sys
import threading

PROP = 'C20'
LEAN_MODULES = ['Glom.Props.C20']
FACT_FILES = ['C20Facts', 'c20']
READY = True
MANIFEST = dict(
    text="PARTIAL proof. Lean 4 theorems about a small-step interleaving model of the state glom calls "
         "share (Path._CACHE with its membership-test / overflow-test / store / final-lookup as separate "
         "steps, the registry's _type_cache likewise, _STAR_WARNED) and of the per-call scope frames: "
         "(c20_cache_inv) for every number of threads, every evaluation and EVERY schedule of micro-steps the "
         "invariant 'each cached path equals a fresh parse, each cached handler a fresh lookup' holds after "
         "every step although check-then-store is not atomic; (c20_noninterference) for every schedule every "
         "call that finishes has exactly the outcome it has when run alone, and run alone it finishes; "
         "the handler memo holds handlers AND remembered False (a raise_exc=False lookup by user code): the entry read "
         "last is re-checked, so a raising lookup raises whatever another call remembered (counter-example by decide "
         "for get_handler before /repo 8b51f6e); "
         "(c20_nested) under every schedule a call whose callable calls glom() itself ends with the outcome it has when "
         "the inner call is replaced by the constant the inner call evaluates to alone; "
         "(c20_scope_noninterference, c20_scope_private, c20_scope_model_checks) THE SECOND SENTENCE OF THE PROPERTY FOR "
         "THREADS: the scopes of all calls of all threads as maps on ONE heap (glom(): a root map under the shared "
         "default scope, also from inside a running call of the thread to any nesting depth; _glom: a child map per step "
         "and LAST_CHILD_SCOPE into the calling map; writes of target / S-bindings / MODE / accumulators at any depth of "
         "the chain; ChainMap lookups down to the default scope), threads taking turns operation by operation in ANY "
         "order (so every address depends on the schedule): whatever a call reads through its scope is what the call "
         "alone reads (a reference without heap and addresses), the maps of different threads are disjoint, the default "
         "scope is never written; (c20_repr_guard_threads) the recursion guard of bbrepr keyed by (id, thread): a render "
         "in one thread is what it is with an empty guard whatever other threads render -- and the counter-example "
         "WITHIN a thread (a __repr__ that re-enters glom on the object being rendered: known finding "
         "reentry_from_repr_during_render); "
         "(c20_reentry_frames) the per-call ERROR BOOKKEEPING (CHILD_ERRORS list objects, LAST_CHILD_SCOPE, "
         "CUR_ERROR, NO_PYFRAME) as heap state: a re-entrant call that is handed the scope of the running "
         "call (Spec(x).glom(t, scope=scope), glom(t, x, scope=scope)) and rebinds CHILD_ERRORS to a fresh "
         "list and drops NO_PYFRAME leaves every existing scope map and failed-branch list untouched, for "
         "any heap, any inner spec (children, Coalesce, tuple chains, further re-entries) -- and the "
         "counter-examples by decide when it does not (the caller's trace grows a branch; IndexError); "
         "(c20_reentry_trace_alone, c20_reentry_inner_irrelevant) the WHOLE call -- value, or error and the trace "
         "rendered from the bookkeeping, every line, branch and depth -- is exactly that of the same call in which no "
         "inner call is made, for any outer spec and any covered re-entries anywhere in it to any depth (simulation up "
         "to an injection of addresses; the handler's NO_PYFRAME walk and _unpack_stack terminate within the model's "
         "fuel because parents are older, children and failed branches younger than a scope); (c20_reentry_depth) n "
         "re-entries inside one another, for every n; "
         "(c20_err_render_reference, c20_err_history_independent, c20_err_render_idempotent, "
         "c20_err_shows_enclosing_call, c20_err_nested_depth, c20_err_model_checks) the ERROR OBJECT as a state machine "
         "(its __dict__: __wrapped, _scope, _tb_lines and the caches _finalized_str, _target_spec_trace; operations: "
         "__str__, copy.copy carrying the __dict__ / TypeMatchError.__copy__ / GlomError.wrap, the handler of glom() "
         "with err = copy | err = e | wrap, _set_wrapped, _finalize, which renders the exception being handled into "
         "_tb_lines): for any source whose _finalize resets every cache its __str__ reads, and any history of renders, "
         "copies and exits of glom() calls to any nesting depth, EVERY render returns the message of a cache-free "
         "reference (a function of the last finalization only); the message after any interleaving of renders equals "
         "the one computed by a single render at the end; the enclosing call's error shows the enclosing call's trace; "
         "counter-examples by decide for a cache that is read and not reset (seeded change C20-s8; glom before the "
         "reset) and for the forced hypothesis on errors finalized in place; "
         "(c20_argval_fresh, c20_arg_noninterference, c20_arg_as_alone) ONE spec object with a container literal in "
         "ARGUMENT position (S(acc=[]), Coalesce(default=[]), T.get(k, {}), Call args, Assign value, Or / Optional / "
         "Check / Switch defaults) used by several calls: _ArgValuator.mode modelled on an object heap (the literal "
         "nested, shared, containing itself; cache test, allocation and cache store before the items, in-place "
         "extend): for any heap, argument, fuel the value shares no container with the spec and every object of the "
         "spec is untouched; any number of calls that take the value of a flat literal, push into it and read it, "
         "under ANY schedule of single operations (threads, a call inside another, one after the other) read exactly "
         "what the by-value reference reads in which no other call occurs, i.e. what they read alone; counter-example "
         "by decide for the variant that hands an empty literal out as it is. Per-run "
         "facts obligation by `decide` (cache access shapes and _MAX_CACHE, the only writes to module/class "
         "state in any function of glom, the fresh dict literals of glom()/_glom, registry methods on the "
         "evaluation path write only _type_cache; Spec.glom and glom() reset, AFTER merging the scope they are "
         "handed, every bookkeeping key the exception handler of _glom writes or tests and the parent link, "
         "CHILD_ERRORS to a fresh list, Path to a copy; c20_err_facts_wf: the mutable attributes of a GlomError, what "
         "__str__ reads before it writes (path-sensitive dataflow over its AST), what _finalize assigns unconditionally, "
         "no __str__ override, the only copy override builds a fresh instance, the statements of glom()'s handler, wrap "
         "and _set_wrapped); model tied to the code by a deterministic scheduler that "
         "ENUMERATES all interleavings of 2-3 real glom calls at user-callable granularity, free-running "
         "threads under a 1e-6 switch interval, glom-inside-callable nestings to depth 3, and randomised "
         "re-entries with access to the running scope whose full rendered error trace is compared with the "
         "same call where the inner call is made in isolation (and, where the model can express the call, "
         "with the trace skeleton the Lean model of the bookkeeping renders) -- in all nested / re-entry cases every "
         "handler that sees an exception in flight (the except handler of the callable that made the inner call, a "
         "probe spec at any position of the outer spec, a later callable looking at errors that were kept) renders it "
         "0-2 times in one of six ways (str, %s, format_exception_only, format_exception, logging, repr), lets it go "
         "on as it is / as a copy / keeps it; the reference run has the same handlers, nobody renders, and the inner "
         "exception is handed over exactly as the isolated call raised it (never rendered); every message any handler "
         "read is compared with the message that call's error shows alone (checkErrHist), and the logged history of the "
         "error objects is replayed by the Lean state machine with the caches the current source has; "
         "and randomised shared-argument cases "
         "(literal heaps x 12 argument positions x push/yield programs x interleavings, re-entry, sequential reuse, "
         "free-running) whose reads and whose literal afterwards are compared with the calls alone AND with the Lean "
         "heap model run under the same schedule.",
    note="KNOWN FINDINGS reproduced by the generator and classified (not repaired in /repo): reentry_from_repr_during_render "
         "(bbrepr's guard is per thread, not per call), vars_mutable_default_persists (Vars defaults do not go through "
         "arg_val; a C07 violation); C20_SKIP_KNOWN=1 leaves these two case classes out. "
         "partial because atomicity of a single dict lookup/store under the GIL and thread-locality of "
         "sys.exc_info() are properties of CPython that are assumed; a theorem cannot exhibit a GIL-level "
         "race, and the enumeration switches threads only at user callables. Registration concurrent with "
         "running calls is outside the property (and is not thread-safe: observed RuntimeError 'OrderedDict "
         "mutated during iteration'; the model shows the get_handler/register KeyError window as a "
         "counter-example theorem). Trusted: Lean kernel + {propext, Classical.choice, Quot.sound}; extractor; "
         "harness scheduler/driver.",
    technique='Lean 4 invariant proof over all schedules (interleaving semantics, monotone shared state) + '
              'heap frame condition for nested calls + simulation up to an injection of addresses (the trace does not '
              'see inner calls) + refinement of a cached state machine by its cache-free reference (error object) + '
              'facts obligations by decide + enumerated-interleaving differential correspondence',
    ref='DESIGN.md §3 C20')
RULE = ('TEMPLATES (42) cover the spec language: paths, T, S / A, Fold, Group, Fill, Match, Coalesce, raising callables, and '
        '(audit G7) Iter pipelines run to the end / handed on LAZILY to a later step / first(), Ref recursion, Switch with and '
        'without default, Check, Regex, Or, And, Not, Invoke, Call with Spec arguments, Delete, Flatten, Sum, Merge, `*` and `**` '
        'paths, per-call Vars, a custom spec that asks the registry with raise_exc=False (its False is remembered in the memo all '
        'calls share) next to a call that iterates the same unregistered type (all interleavings), and the keyword arguments '
        'default= / skip_exc= (hit and miss) / glom_debug=True; pairs of templates under sampled (quick: 12 per pair) or all '
        'interleavings, and the same calls through ONE Glommer instance (its own registry and memo) scheduled and free-running. '
        'RE-ENTRY FROM A __repr__ (mode repr): the outer call fails, rendering its error runs the __repr__ of its target (a dict '
        'subclass) or of a spec object, which makes a glom call of its own -- on the very object whose repr is running, or on '
        'another object with the same content -- catches its error and renders it; 3 outer failures x 3 inner calls x 2 x 2; '
        'expected: the inner outcome = the call at top level, the outer message = the one with a __repr__ that makes no call '
        '(the same-object variants FAIL: known finding reentry_from_repr_during_render). '
        'SHARED Vars DEFAULT: argument position `vars` = S(v=Vars(acc=LIT)) (FAILS: known finding vars_mutable_default_persists). '
        'The driver refuses a case in which a field it reads is missing (null = does not apply to this mode), and its thread '
        'model replays every logged shared access with the result it had alone: an access that gives something else ends the '
        'MODEL call differently. '
        'calls are drawn from templates that make leakage visible: dotted string paths (cold path cache, '
        'texts shared between threads and private ones), S/A scope writes read back later, Fold and Group '
        'accumulators fed through yielding callables, Fill/Match modes around a yield, Coalesce over a '
        'failing branch, calls that end in PathAccessError / a raising callable (full trace text compared), '
        'and callables that call glom() themselves (depth <= 3, inner failures caught by an outer '
        'Coalesce); plus ONE spec object shared by all the calls (as module-level specs are) with yield '
        'points inside a list/dict argument being filled, inside an Assign missing= factory and inside '
        'the __repr__ of a Match key, run under enumerated schedules, free-running, and re-entrantly '
        '(the call re-enters glom with the same spec object at its j-th yield point). Yield points are callables inside the specs that hand control to a scheduler thread; for '
        '2-3 calls with <= 4 yield points each ALL interleavings of their segments are enumerated (a sample '
        'of call combinations in the quick tier, all in thorough), plus free-running repetitions under '
        'sys.setswitchinterval(1e-6). Each call is first run alone (its shared-state accesses are logged '
        'for the model), caches are emptied, then the calls run under the schedule; outcome = repr of the '
        'value or (exception class, str(exc) with traceback file/line lines removed). non-trivial = at least '
        'two calls of which one is suspended while another runs and then resumed, or a nesting, or free-running threads, '
        'or (shared argument) two or more calls using the same spec object in any order; '
        'RE-ENTRY WITH THE RUNNING SCOPE (mode reent, randomised and type-directed): a custom spec (glomit) or a '
        'plain callable given S makes an inner glom call handing it no scope / the user variables / dict(scope) / '
        'the running scope, through Spec(x).glom(t, scope=…) or glom(t, x, scope=…); the inner call returns, fails '
        'and is caught, or fails and propagates (its spec may read the user variable, may re-enter again); the '
        'custom spec then evaluates nothing / a spec that succeeds / one that fails / another re-entry as a child '
        'of the running scope; around it dict siblings, tuple-chain steps before and after, Coalesce alternatives '
        'and Spec wrappers that succeed or fail. Observed: the outer outcome with the FULL rendered message and '
        'trace (addresses masked, traceback source lines removed); expected: the same outer call in which every '
        'inner call is replaced by the outcome it has in isolation (made the same way from a top-level / trivial '
        'call with the same user variables and position); inner outcomes nested vs isolated are compared too; '
        'RENDERING IN FLIGHT (all nested / reent cases): every handler that holds an in-flight exception -- the except '
        'handler of the callable / custom spec that made the inner call (obs of the node), a probe spec wrapped around any '
        'sub-spec (sees errors of this call before they are finalized and errors of re-entrant calls on their way up), a '
        'later callable (late) and the end of the call for errors that were kept -- renders it 0 (25%), 1 or 2 times by '
        'str / %s / traceback.format_exception_only / format_exception / logging.Formatter.formatException / repr, and lets '
        'it go on as it is, as copy.copy of it, or keeps it; inner failures are PathAccessError, CoalesceError, a wrapped '
        'ValueError (copies carry the __dict__), TypeMatchError (fresh copy), a user GlomError whose constructor takes its '
        'args, and one whose constructor does not (glom() finalizes the object itself, again in every enclosing call); the '
        'reference run has the same handlers but nobody renders, and the inner exception is raised exactly as the isolated '
        'call raised it, never rendered; the outer error is rendered, kept errors and unread inner errors are rendered, the '
        'outer error is rendered again; expected: every message read of the error of call c = the message of c alone; '
        'SHARED ARGUMENT (mode shared, spec kind accum; randomised and type-directed): ONE spec object with a container '
        'literal in argument position -- the literal is a random object heap (root list / dict / set / tuple; each '
        'container empty (45%) or 1-3 items: constants, T leaves, nested containers to depth 2, a second reference to an '
        'existing list / dict / set, a reference to an enclosing list / dict), the position is one of S(acc=LIT), '
        'S(acc=Coalesce(default=LIT)), Coalesce(default=LIT), T.get(k, LIT), Call(f, args=(LIT,)), Call(f, kwargs={x: LIT}), '
        'S.k(LIT), Assign(p, LIT), Or(default=LIT), Optional(k, default=LIT), Check(default=LIT), Switch(default=LIT) -- '
        'whose value each call keeps in its scope, MUTATES (1-3 pushes of its own id / name into mutable containers of the '
        'value, by a T method on the scope value or a catalogue callable) and finally READS (token sequence of the value, '
        'sets sorted), with 1-2 yield points in between; used by 2-3 calls (distinct targets, or the same target twice) under '
        'the strictly alternating schedule, one call after the other, sampled interleavings, a re-entrant call with the '
        'same spec object from a yield point, free-running threads. "Alone" = the call as the only call, on a spec object '
        'of its own built the same way. Observed: what each call read, the literal inside the shared spec before and '
        'after (and repr of every shared spec before / after); expected: the reads alone, the literal unchanged; the Lean '
        'heap model of _ArgValuator.mode run under the same schedule must read the same, and for flat literals the '
        'by-value reference too; distinct = '
        'distinct (calls, schedule)')
TRUSTED = ["CPython: a single dict lookup / store is atomic under the GIL; sys.exc_info() and the Python call "
           "stack are per thread (assumed)",
           "the harness scheduler (threading.Semaphore handshakes; one runnable call at a time between yield points)"]
ASSUMPTIONS = ['READING (audit G1): a glom call made by user code that runs INSIDE the rendering of a glom error (a __repr__ of a target '
               'or spec object, called by the trace renderer) is a re-entrant call in the sense of the property: it must show '
               'the trace it shows alone. glom breaks this for the object whose repr is running (recorded, not repaired)',
               'READING (audit G2): one spec object used by several calls is shared state of glom\'s own making; a value a spec '
               'hands out without arg_val (Vars defaults) that persists between calls is a violation (recorded under C07)',
               'READING (audit G6): a lookup with raise_exc=False made by user code (a custom spec asking the registry) is a '
               'legitimate part of a history; what it remembers must not change a later call',
               'error objects: an error finalized IN PLACE (copy.copy cannot re-create its class) was not finalized as a copy '
               'before (user code does not raise a dict-carrying copy of an in-place class through another glom call); the '
               'message of an error that is not finalized is get_message() and is compared only by kind: a CoalesceError / '
               'CheckError of the running call keeps the live scope[Path] list, which later chain steps of the same call '
               'extend in place (reported as a side finding, no other call involved)',
               'no registration (glom.register / register_op) runs concurrently with glom calls',
               'PATH_STAR = True', 'user callables inside the specs do not share mutable state between calls',
               'what is in argument position and is not a list / dict / set / tuple / frozenset (a constant object, a Val) is '
               'handed out as it is, by design: only the five container types are rebuilt per call',
               'shared-argument model: taking the value of an argument is ONE step of a call (arg_val touches only its own '
               '_ArgValuator and the containers it is building; yield points INSIDE an argument being filled are the '
               'sh_args / sh_kw / sh_sset templates); set items are leaves, observed sorted',
               'interleavings are enumerated at the granularity of user-callable invocations',
               'a scope handed explicitly to a re-entrant call is DATA: it carries the caller\'s MODE / MIN_MODE and '
               'position (scope[Path], the "(at path …)" of messages) besides the user variables. Re-entry points are '
               'generated under AUTO mode only (a bare str/dict/list/tuple inner spec would mean something else under '
               'Fill/Match), and the isolated reference of an inner call starts with the same user variables and at '
               'the same position (glom(..., path=prefix))',
               'Spec(x).glom(t, scope=<running scope>) evaluates x through the glom entry found in that scope '
               '(_glom): it is not a glom() call of its own (no trace of its own, exceptions are not wrapped); its '
               'isolated reference is the same evaluation made from a trivial outer call']

TIMEOUT = 3.0
# the two case classes that reproduce RECORDED, unrepaired violations (KNOWN_FINDINGS.txt: classifiers
# reentry_from_repr_during_render, vars_mutable_default_persists) can be left out to see the rest alone
SKIP_KNOWN = bool(os.environ.get('C20_SKIP_KNOWN'))

# ----------------------------------------------------------------------------- value codec


def dec(j):
    if isinstance(j, dict):
        if 'd' in j:
            return {k: dec(v) for k, v in j['d']}
        if 'l' in j:
            return [dec(x) for x in j['l']]
        if 't' in j:
            return tuple(dec(x) for x in j['t'])
        raise ValueError(j)
    return j


_ADDR = re.compile(r'0x[0-9a-fA-F]+')


def norm_text(s):
    out = []
    skip_src = False
    for line in s.splitlines():
        if re.match(r'^\s*File ".*", line \d+', line):
            skip_src = True
            continue
        if skip_src and line.startswith('    '):
            skip_src = False
            continue
        skip_src = False
        if line.strip() and set(line) <= {' ', '^', '~'}:
            continue                              # caret line under a traceback source line
        out.append(_ADDR.sub('0x?', line))
    return '\n'.join(out)


def exc_name(e):
    for c in type(e).__mro__:
        if not c.__name__.startswith('GlomError.wrap'):
            return c.__name__
    return type(e).__name__


def brief(out):
    """class and message only (no target-spec trace): for re-entry through Spec.glom(scope=S), which by
    design evaluates inside the running scope and does not build a trace of its own"""
    if 'err' not in out:
        return out
    cls, text = out['err']
    last = text.splitlines()[-1] if text else ''
    return {'err': [cls, re.sub(r'^[\w.()]+: ', '', last)]}


def has_specglom(sj):
    if isinstance(sj, list):
        return bool(sj) and sj[0] == 'specglom' or any(has_specglom(x) for x in sj)
    if isinstance(sj, dict):
        return any(has_specglom(v) for v in sj.values())
    return False


def outcome_of(fn):
    try:
        r = fn()
    except Exception as e:
        return {'err': [exc_name(e), norm_text(str(e))]}, e
    return {'val': _ADDR.sub('0x?', repr(r))}, None


def raw_call(fn):
    """(value, None) / (None, exception): the exception is handed back untouched -- NOT rendered"""
    try:
        return fn(), None
    except Exception as e:
        return None, e


# ----------------------------------------------------------------------------- rendering an in-flight exception

# the ways user code renders an exception it sees; what it reads of the message
RENDERS = ['str', 'pct', 'fmtonly', 'fmt', 'log', 'repr']


def _after_class(s):
    """'pkg.Class: message' -> 'message'"""
    i = s.find(': ')
    return s[i + 2:] if i >= 0 else None


def _tail_message(s):
    """the message part of a formatted traceback: what follows the stack of its LAST block"""
    head = 'Traceback (most recent call last):\n'
    i = s.rfind(head)
    if i < 0:
        return None
    lines = s[i + len(head):].split('\n')
    k = 0
    while k < len(lines) and lines[k].startswith('  '):
        k += 1
    return _after_class('\n'.join(lines[k:]))


def render_with(e, how):
    """user code renders the exception `e`; -> the message it read (None: this way of rendering
    does not show the message as such)"""
    import logging
    import traceback
    if how == 'str':
        return str(e)
    if how == 'pct':
        return '%s' % (e,)
    if how == 'repr':
        repr(e)
        return None
    if how == 'fmtonly':
        return _after_class(''.join(traceback.format_exception_only(type(e), e)))
    if how == 'fmt':
        return _tail_message(''.join(traceback.format_exception(type(e), e, e.__traceback__)))
    if how == 'log':
        return _tail_message(logging.Formatter().formatException((type(e), e, e.__traceback__)))
    raise ValueError(how)


def user_error_classes():
    """GlomError subclasses as user code defines them: one whose constructor takes what `args` holds
    (copy.copy re-creates it), one whose constructor does not (copy.copy fails: glom() finalizes the
    exception object itself, again in every enclosing call)"""
    import glom
    if 'ok' not in _UCLS:
        class Rejected(glom.GlomError):
            def __init__(self, msg):
                super().__init__(msg)

        class Odd(glom.GlomError):
            def __init__(self, a, b):
                super().__init__('%s/%s' % (a, b))
        _UCLS['ok'], _UCLS['bad'] = Rejected, Odd
    return _UCLS


_UCLS = {}


class RaiseG:
    """a callable that raises a GlomError subclass defined by the user"""

    def __init__(self, kind):
        self.kind = kind

    def __call__(self, x):
        cls = user_error_classes()[self.kind]
        raise cls('rejected') if self.kind == 'ok' else cls('odd', 1)

    def __repr__(self):
        return 'RaiseG_%s' % self.kind


# ----------------------------------------------------------------------------- scheduler

class Sched:
    """one runnable call at a time: `go[tid]` lets thread tid run to its next yield point"""

    def __init__(self, n):
        self.go = [threading.Semaphore(0) for _ in range(n)]
        self.arrived = [threading.Semaphore(0) for _ in range(n)]
        self.finished = [False] * n
        self.free = False           # after the schedule: every call runs on freely
        self.deadlock = False

    def yield_point(self, tid):
        if self.free:
            return
        self.arrived[tid].release()
        if not self.go[tid].acquire(timeout=TIMEOUT):
            self.deadlock = True

    def drive(self, schedule):
        """a call that passes fewer yield points than when run alone (interference!) simply ends
        early; one that passes more runs on freely after the schedule"""
        for tid in schedule:
            if self.finished[tid]:
                continue
            self.go[tid].release()
            if not self.arrived[tid].acquire(timeout=TIMEOUT):
                self.deadlock = True
                break
        self.free = True
        for g in self.go:
            for _ in range(64):
                g.release()


class Ctx:
    """execution context of one call: how its yield points and nested calls behave"""

    def __init__(self, tid, sched=None, log=None, stubs=None):
        self.tid, self.sched, self.stubs = tid, sched, stubs
        self.logs = [log] if log is not None else None      # stack of event lists (alone run)
        self.inner = {}                                      # nested call id -> (outcome, exception) as observed
        self.paths = {}                                      # re-entry id -> scope[Path] of the running call there
        self.uvars = {}                                      # re-entry id -> the user's scope variables visible there
        # --- the history of the error objects, as user code and the harness see it
        self.reference = False       # the reference run: nobody renders an exception in flight
        self.hist = []               # ['render', e, text|None] | ['ucopy', src, dst, kind] | ['exit', lvl, e, out, kind, cls]
        self.objs = []               # the exception objects, by identity, in first-seen order (kept alive)
        self.nexit = 0               # glom() calls that ended with an error so far
        self.fin = {}                # object id -> the glom() call that finalized it last
        self.ref = []                # [lvl, index of the call among the compared calls]
        self.call_index = {}         # nested call id -> index of the call among the compared calls
        self.kept = []               # errors user code kept (seen again by a later callable, and at the end)
        self.pending = {}            # nested call id -> (exception, lvl) whose message has not been read in flight
        self.unread = set()          # nested calls that failed and whose message nobody could read as it was

    # ---- error objects
    def eid(self, e):
        for i, o in enumerate(self.objs):
            if o is e:
                return i
        self.objs.append(e)
        return len(self.objs) - 1

    def exited(self, e_out, nid=None):
        """a glom() call made by the harness ended by raising `e_out`: log what its handler did
        (copy / the same object / wrap; `_finalize`), recovered from the object itself"""
        import glom
        if not isinstance(e_out, glom.GlomError) or e_out.__dict__.get('_scope') is None:
            return None                                # not finalized: wrapping failed, or glom_debug
        e_in = e_out.__dict__.get('_GlomError__wrapped', e_out)
        self.nexit += 1
        kind = 'same' if e_in is e_out else 'copy' if isinstance(e_in, glom.GlomError) else 'wrap'
        a, b = self.eid(e_in), self.eid(e_out)
        self.hist.append(['exit', self.nexit, a, b, kind, type(e_in).__name__])
        self.fin[b] = self.nexit
        if nid in self.call_index:
            self.ref.append([self.nexit, self.call_index[nid]])
        return self.nexit

    def render(self, e, how):
        text = render_with(e, how)
        text = None if text is None else norm_text(text)
        self.hist.append(['render', self.eid(e), text])
        return text

    def observe(self, e, obs):
        """an observation point: user code holds the in-flight exception `e` (the `except` handler of
        a callable, a custom spec); what it does with it is `obs`: render it (any ways, any number of
        times), keep it for later.  -> the first message it read (None: none).  The reference run
        has the same handlers, but nobody renders."""
        first = None
        if obs and not self.reference:
            for how in obs.get('render', []):
                t = self.render(e, how)
                if first is None:
                    first = t
            if obs.get('prop') == 'keep':
                self.kept.append(e)
        return first

    def propagate(self, e, obs):
        """how the handler lets the exception go on: as it is, or as a copy of it"""
        if obs and obs.get('prop') == 'copy':
            try:
                c = copy.copy(e)
                if c.args != e.args or type(c) is not type(e):
                    c = None
            except Exception:
                c = None
            if c is not None:
                kind = 'carry' if set(c.__dict__) >= set(e.__dict__) else 'fresh'
                self.hist.append(['ucopy', self.eid(e), self.eid(c), kind])
                raise c
        raise e

    def render_kept(self):
        """a later callable (or the end of the call) looks at the errors that were kept"""
        if not self.reference:
            for e in self.kept:
                self.render(e, 'str')

    def inner_failed(self, nid, e, obs):
        """the inner call `nid`, made from a callable, raised `e`: the handler of the callable"""
        lvl = self.exited(e, nid)
        first = self.observe(e, obs)
        if first is not None:
            self.inner[nid] = ({'err': [exc_name(e), first]}, e, None)
        else:
            self.pending[nid] = (e, lvl)

    def settle(self):
        """the end of the outer call: user code renders what it kept; the harness reads the message of
        every inner error nobody read in flight (unless an enclosing call has finalized that very
        object again: then it IS the outer error now)"""
        self.render_kept()
        for nid, (e, lvl) in list(self.pending.items()):
            if self.reference:
                continue
            if self.fin.get(self.eid(e)) == lvl:      # (None == None: not finalized then, not finalized since)
                self.inner[nid] = ({'err': [exc_name(e), self.render(e, 'str')]}, e, None)
            else:
                self.unread.add(nid)
        self.pending = {}

    def yield_point(self, idx):
        if self.logs is not None:
            self.logs[-1].append(['user', 'y%d' % idx])
        elif self.sched is not None:
            self.sched.yield_point(self.tid)


_TL = threading.local()


class DynCtx:
    """context of a spec object SHARED by several calls: every yield point is handed to the Ctx of
    the calling thread; a yield point can also be the place where the running call re-enters glom
    with the same spec object (`_TL.nest`)"""
    stubs = None
    logs = None

    def yield_point(self, idx):
        nest = getattr(_TL, 'nest', None)
        if nest is not None:
            nest['count'] += 1
            if nest['count'] - 1 == nest['at']:
                import glom
                _TL.nest = None                      # the inner call does not nest again
                try:
                    nest['out'] = outcome_of(lambda: glom.glom(dec(nest['target']), nest['spec']))[0]
                finally:
                    _TL.nest = nest
        c = getattr(_TL, 'ctx', None)
        if c is not None:
            c.yield_point(idx)


class Fac:
    """a `missing=` factory that is a yield point"""

    def __init__(self, ctx, idx):
        self.ctx, self.idx = ctx, idx

    def __call__(self):
        self.ctx.yield_point(self.idx)
        return {}

    def __repr__(self):
        return 'Fac%d' % self.idx


class KeyR:
    """a Match key whose __repr__ is a yield point"""

    def __init__(self, ctx, idx, name):
        self.ctx, self.idx, self.name = ctx, idx, name

    def __hash__(self):
        return hash(self.name)

    def __eq__(self, other):
        return isinstance(other, KeyR) and other.name == self.name

    def __repr__(self):
        self.ctx.yield_point(self.idx)
        return 'Key(%r)' % self.name


FNS = {
    'fid': lambda t: 'f-' + t['id'],
    'id': lambda x: x,
    'inc': lambda x: x + 1,
    'neg': lambda x: -x,
    'len': len,
    'k': lambda row: row['k'],
}


class Y:
    def __init__(self, ctx, idx, fn='id'):
        self.ctx, self.idx, self.fn = ctx, idx, fn

    def __call__(self, x):
        self.ctx.yield_point(self.idx)
        return FNS[self.fn](x)

    def __repr__(self):
        return 'Y%d_%s' % (self.idx, self.fn)


class Op2:
    """binary op of a Fold, yielding on every step"""

    def __init__(self, ctx, idx):
        self.ctx, self.idx = ctx, idx

    def __call__(self, acc, x):
        self.ctx.yield_point(self.idx)
        return acc + x

    def __repr__(self):
        return 'Op%d' % self.idx


class Boom:
    def __call__(self, x):
        raise ValueError('boom %r' % (x,))

    def __repr__(self):
        return 'Boom'


def stub_outcome(ctx, nid):
    """the reference run: the inner call is not made; the outcome it has in isolation is a constant
    -- its value, or its exception exactly as the isolated call raised it (never rendered)"""
    out, pristine = ctx.stubs[nid]
    if 'err' in out:
        raise pristine()
    return ctx.stub_values[nid]


class Nested:
    """a callable that calls glom() itself; `call['obs']`: what its `except` handler does with the
    error of the inner call before the error goes on"""

    swallow = False         # (the isolated run: the error stays with the handler, no enclosing call touches it)

    def __init__(self, ctx, nid, call):
        self.ctx, self.nid, self.call = ctx, nid, call

    def make(self, x, scope):
        import glom
        target = dec(self.call['target']) if 'target' in self.call else x
        return glom.glom(target, build(self.call['spec'], self.ctx))

    def __call__(self, x, scope=None):
        ctx = self.ctx
        obs = self.call.get('obs')
        if ctx.stubs is not None:                 # the call "run alone": the inner outcome is a constant
            try:
                return stub_outcome(ctx, self.nid)
            except Exception as e:
                ctx.observe(e, obs)
                ctx.propagate(e, obs)
        if ctx.logs is not None:
            ctx.logs.append([])
        v, exc = raw_call(lambda: self.make(x, scope))
        if ctx.logs is not None:
            evs = ctx.logs.pop()
            # (the log of the alone run feeds the cache model: the message is not part of it)
            ctx.logs[-1].append(['nested', evs, {'val': _ADDR.sub('0x?', repr(v))} if exc is None
                                 else {'err': [exc_name(exc), '']}])
        if exc is None:
            ctx.inner[self.nid] = ({'val': _ADDR.sub('0x?', repr(v))}, None, v)
            return v
        ctx.inner_failed(self.nid, exc, obs)
        if self.swallow:
            return None
        ctx.propagate(exc, obs)

    def __repr__(self):
        return 'N%d' % self.nid


class NestedS(Nested):
    """a spec that evaluates its inner spec through `Spec(inner).glom(target, scope=S)` — the way
    `First` re-enters glom with the *running* scope passed in"""

    def make(self, x, scope):
        import glom
        return glom.Spec(build(self.call['spec'], self.ctx)).glom(dec(self.call['target']), scope=scope)

    def __repr__(self):
        return 'NS%d' % self.nid


# how a re-entrant call is handed a scope: none / the user's variables only / a dict copy of the running
# scope / the running scope itself, through Spec(inner).glom(t, scope=…) ('copy', 'run') or through
# glom(t, inner, scope=…) ('kwcopy', 'kwrun': glom() inherited the caller's CHILD_ERRORS list and
# NO_PYFRAME marker until /repo 6021378)
HOWS = ['none', 'user', 'copy', 'run', 'kwcopy', 'kwrun']


def user_vars(scope):
    """the variables the *user* put into the scope of the running call (glom(..., scope={...}))"""
    try:
        return {'uv': scope['uv']}
    except KeyError:
        return {}


class Reenter:
    """a re-entrant glom call made with access to the RUNNING scope.

    As a custom spec (`glomit(target, scope)`) or as a plain callable invoked through
    `Call(fn, args=(T, S))`: make the inner call (`how` says what scope it is handed: none / the
    user's variables / a dict copy of the running scope / the running scope itself, through
    `Spec(inner).glom(t, scope=…)`, or through `glom(t, inner, scope=…)`), catch its failure or let it
    propagate, and then (custom spec only) evaluate `after` the ordinary way, as a child of the
    running scope (`scope[glom](target, after, scope)`).

    `ctx.stubs`: the reference run ("the inner call is made in isolation"): the inner call is not
    made here; its outcome observed in isolation is returned / raised as a constant."""

    def __init__(self, ctx, nid, d):
        self.ctx, self.nid, self.d = ctx, nid, d
        self.call = d['inner']
        self.how, self.catch = d['how'], d.get('catch', True)
        self.inner_spec = build(self.call['spec'], ctx) if ctx.stubs is None else None
        self.after = build(d['after'], ctx) if d.get('after') is not None else None
        self.has_after = d.get('after') is not None

    def inner_call(self, scope):
        import glom
        ctx, how = self.ctx, self.how
        obs = self.d.get('obs')
        if ctx.stubs is not None:
            try:
                return stub_outcome(ctx, self.nid)
            except Exception as e:
                ctx.observe(e, obs)
                ctx.propagate(e, obs)
        target = dec(self.call['target'])
        spec = self.inner_spec
        if ctx.logs is not None:
            ctx.logs.append([])
        try:                                  # "where am I" of the running call: data a passed scope carries
            ctx.paths[self.nid] = list(scope[glom.Path])
        except (KeyError, TypeError):
            pass
        ctx.uvars[self.nid] = user_vars(scope)

        def run():
            if how == 'none':
                return glom.glom(target, spec)
            elif how == 'user':
                return glom.glom(target, spec, scope=user_vars(scope))
            elif how == 'copy':
                return glom.Spec(spec).glom(target, scope=dict(scope))
            elif how == 'run':
                return glom.Spec(spec).glom(target, scope=scope)
            elif how == 'kwrun':
                return glom.glom(target, spec, scope=scope)
            elif how == 'kwcopy':
                return glom.glom(target, spec, scope=dict(scope))
            raise ValueError(how)
        v, exc = raw_call(run)
        if ctx.logs is not None:
            evs = ctx.logs.pop()
            ctx.logs[-1].append(['nested', evs, {'val': _ADDR.sub('0x?', repr(v))} if exc is None
                                 else {'err': [exc_name(exc), '']}])
        if exc is None:
            ctx.inner[self.nid] = ({'val': _ADDR.sub('0x?', repr(v))}, None, v)
            return v
        ctx.inner_failed(self.nid, exc, obs)
        ctx.propagate(exc, obs)

    def _do(self, target, scope, as_spec):
        import glom
        try:
            r = self.inner_call(scope)
            if not (as_spec and self.has_after):
                return r
        except Exception:
            if not self.catch:
                raise
            if not (as_spec and self.has_after):
                return 'caught-%d' % self.nid
        return scope[glom.glom](target, self.after, scope)

    def __repr__(self):
        return 'RE%d' % self.nid


class ReenterSpec(Reenter):
    def glomit(self, target, scope):
        return self._do(target, scope, True)


class ReenterFn(Reenter):
    """(no `glomit`: Call would evaluate it as a spec)"""

    def __call__(self, target, scope):
        return self._do(target, scope, False)


class IterOrSelf:
    """a custom spec as extension authors write them: it asks the registry whether the target can be
    iterated -- `scope[TargetRegistry].get_handler('iterate', target, raise_exc=False)`, which
    answers False instead of raising -- and gives the items, or the target in a list"""

    def glomit(self, target, scope):
        import glom
        h = scope[glom.core.TargetRegistry].get_handler('iterate', target, raise_exc=False)
        return list(h(target)) if h else [target]

    def __repr__(self):
        return 'IterOrSelf'


class Probe:
    """a custom spec that evaluates `sub` the ordinary way, as a child of the running scope, inside a
    `try`: an observation point for whatever exception is in flight at this position of the spec --
    raised by a step of this very call (not finalized yet), or the error of a re-entrant call on its
    way up"""

    def __init__(self, ctx, pid, obs, sub):
        self.ctx, self.pid, self.obs, self.sub = ctx, pid, obs, sub

    def glomit(self, target, scope):
        import glom
        try:
            return scope[glom.glom](target, self.sub, scope)
        except Exception as e:
            self.ctx.observe(e, self.obs)
            raise

    def __repr__(self):
        return 'PR%d' % self.pid


class Late:
    """a callable that looks at the errors earlier handlers kept (errors a Coalesce has skipped
    since, errors of finished inner calls) and renders them"""

    def __init__(self, ctx, idx):
        self.ctx, self.idx = ctx, idx

    def __call__(self, x):
        self.ctx.render_kept()
        return x

    def __repr__(self):
        return 'Late%d' % self.idx


# ----------------------------------------------------------------------------- container literals in argument position

ARG_KINDS = {'list': list, 'dict': dict, 'set': set, 'tuple': tuple, 'frozenset': frozenset}
ARG_FUEL = 8            # = argFuel of the Lean driver (how deep a value is read; a cyclic one is cut there)
# where the literal stands: S(acc=LIT) / Coalesce(…, default=LIT) / T.get(k, LIT) / Call(f, args=(LIT,)) /
# Call(f, kwargs={'x': LIT}) / S.k(LIT) / Assign(p, LIT) / Or(…, default=LIT) / Optional(k, default=LIT) /
# Check(…, default=LIT) / Switch(…, default=LIT) / S(acc=Coalesce(…, default=LIT))
ARG_POS = ['sset', 'coalesce', 'tget', 'callarg', 'callkw', 'tcall', 'assign', 'ordefault', 'optdefault',
           'checkdefault', 'switchdefault', 'ssetnested', 'vars']
# 'vars': S(v=Vars(acc=LIT)) -- `Vars.glomit` builds ScopeVars(base, defaults) WITHOUT arg_val: the call receives
# the literal itself (audit finding G2; a C07 violation recorded as known finding vars_mutable_default_persists)


def leaf_obj(token):
    """a leaf of a literal: a T expression (evaluated per call) or a constant (its repr)"""
    import ast
    import glom
    if token.startswith('T['):
        return glom.T[ast.literal_eval(token[2:-1])]
    return ast.literal_eval(token)


def build_lit(heap, root):
    """the Python object graph of a literal given as an object heap [[kind, [item…]]…], item =
    ['leaf', token] | ['ref', addr]; dict items are k, v, k, v …; sharing and cycles (through
    lists / dicts) are kept"""
    memo = {}

    def val(item):
        return leaf_obj(item[1]) if item[0] == 'leaf' else obj(item[1])

    def obj(a):
        if a in memo:
            return memo[a]
        kind, items = heap[a]
        if kind == 'list':
            o = memo[a] = []
            o.extend(val(x) for x in items)
        elif kind == 'dict':
            o = memo[a] = {}
            for i in range(0, len(items), 2):
                k = val(items[i])
                o[k] = val(items[i + 1])
        elif kind == 'set':
            o = memo[a] = set()
            o.update(val(x) for x in items)
        else:
            o = ARG_KINDS[kind](val(x) for x in items)
            memo[a] = o
        return o
    return obj(root)


def py_tokens(v, fuel=ARG_FUEL):
    """a value as a call can observe it: `Arg.tokens` of the Lean model (sets sorted; `...` at the cut)"""
    t = type(v)
    if t in (list, dict, set, tuple, frozenset):
        if fuel == 0:
            return ['...']
        inner = []
        if t is dict:
            for k, x in v.items():
                inner += py_tokens(k, fuel - 1) + py_tokens(x, fuel - 1)
        elif t in (set, frozenset):
            inner = sorted(tok for x in v for tok in py_tokens(x, fuel - 1))
        else:
            for x in v:
                inner += py_tokens(x, fuel - 1)
        return [t.__name__ + '('] + inner + [')']
    return [repr(v)]


class Keep:
    """catalogue callable: hands back its argument"""

    def __call__(self, x=None):
        return x

    def __repr__(self):
        return 'Keep'


class Push:
    """catalogue callable: the call adds an item of its own to the container it was handed"""

    def __call__(self, acc, x):
        if type(acc) is list:
            acc.append(x)
        elif type(acc) is set:
            acc.add(x)
        else:
            acc.setdefault(x, 1)

    def __repr__(self):
        return 'Push'


class Snap:
    def __call__(self, acc):
        return py_tokens(acc)

    def __repr__(self):
        return 'Snap'


def build_accum(d, ctx):
    """(S(t=T), <the literal in argument position; its value bound to S.acc>, pushes of the call's own
    id / name into containers of that value (T method on the scope value, or a catalogue callable),
    yield points, and finally what the call reads of S.acc)"""
    import glom
    from glom import T, S, A, Coalesce, Call, Assign, Or, Match, Optional, Check, Switch, Val
    lit = build_lit(d['heap'], d['root'])
    if getattr(ctx, 'lits', None) is not None:
        ctx.lits.append(lit)
    pos = d['pos']
    if pos == 'sset':
        obtain = [S(acc=lit)]
    elif pos == 'ssetnested':
        obtain = [S(acc=Coalesce('nokey', default=lit))]
    elif pos == 'vars':
        obtain = [S(v=glom.Vars(acc=lit)), S(acc=S.v.acc)]
    elif pos == 'assign':
        obtain = [Assign('slot', lit), S(acc=T['slot']), S.t]
    else:
        first = {'coalesce': lambda: Coalesce('nokey.zz', default=lit),
                 'tget': lambda: T.get('nokey', lit),
                 'callarg': lambda: Call(Keep(), args=(lit,)),
                 'callkw': lambda: Call(Keep(), kwargs={'x': lit}),
                 'tcall': lambda: S.k(lit),
                 'ordefault': lambda: Or('nokey', default=lit),
                 'optdefault': lambda: Match({Optional('zz', default=lit): object, object: object}),
                 'checkdefault': lambda: Check(type=int, default=lit),
                 'switchdefault': lambda: Match(Switch([(int, 1)], default=lit))}[pos]()
        obtain = ([S(k=Val(Keep()))] if pos == 'tcall' else []) + [first] + \
                 ([T['zz']] if pos == 'optdefault' else []) + [A.acc, S.t]
    steps = [S(t=T)] + obtain
    for st in d['steps']:
        if st[0] == 'y':
            steps.append(Y(ctx, st[1]))
            continue
        _, pypath, _mpath, field, via, kind = st
        acc = S.acc
        for k in pypath:
            acc = acc[k]
        x = S.t[field]
        if via == 'tmethod':
            call = acc.append(x) if kind == 'list' else acc.add(x) if kind == 'set' else acc.setdefault(x, 1)
        else:
            call = Call(Push(), args=(acc, x))
        steps += [call, S.t]
    steps.append(Call(Snap(), args=(S.acc,)))
    return tuple(steps)


def accum_ops(d, target):
    """the call in the operations of the Lean model, and what the target makes of the T leaves"""
    t = dec(target)
    ops = [['bindraw' if d['pos'] == 'vars' else 'bind', d['root']]]
    for st in d['steps']:
        ops.append(['yield'] if st[0] == 'y' else ['push', st[2], repr(t[st[3]])])
    ops.append(['read'])
    return {'ev': [["T['%s']" % k, repr(v)] for k, v in t.items()], 'ops': ops}


def build(sj, ctx):
    import glom
    from glom import T, S, A, Coalesce, Fold, Fill, Match, Val
    from glom.grouping import Group
    k = sj[0]
    if k == 'path':
        return sj[1]
    if k == 'y':
        return Y(ctx, sj[1], sj[2] if len(sj) > 2 else 'id')
    if k == 'tuple':
        return tuple(build(x, ctx) for x in sj[1])
    if k == 'dict':
        return {key: build(v, ctx) for key, v in sj[1]}
    if k == 'list':
        return [build(sj[1], ctx)]
    if k == 'coalesce':
        kw = {}
        if len(sj) > 2:
            kw['default'] = sj[2]
        return Coalesce(*[build(x, ctx) for x in sj[1]], **kw)
    if k == 'fold':
        return Fold(build(sj[1], ctx), init=int, op=Op2(ctx, sj[2]))
    if k == 'group':
        return Group({build(sj[1], ctx): [build(sj[2], ctx)]})
    if k == 'sset':
        return S(**{sj[1]: build(sj[2], ctx)})
    if k == 'sget':
        return S[sj[1]]
    if k == 'ssetlist':                      # S(x=[...]): a list argument of a scope assignment
        return S(x=[build(x, ctx) for x in sj[1]])
    if k == 'aset':
        return getattr(A, sj[1])
    if k == 'fill':
        return Fill(build(sj[1], ctx))
    if k == 'match':
        return Match(dec(sj[1]) if not isinstance(sj[1], str) else {'int': int, 'str': str, 'dict': dict}[sj[1]])
    if k == 'matchd':
        return Match({key: {'int': int, 'str': str}[v] for key, v in sj[1]})
    if k == 'boom':
        return Boom()
    if k == 'raiseg':
        return RaiseG(sj[1])
    if k == 'iterorself':
        return IterOrSelf()
    if k == 'iterall':                       # a pipeline that is run to the end inside the spec
        return glom.Iter(build(sj[1], ctx)).filter(lambda x: x is not None).all()
    if k == 'iterlazy':                      # a LAZY iterator handed to the next step: the stages run while `list` pulls
        return (glom.Iter(build(sj[1], ctx)).chunked(2), list)
    if k == 'iterfirst':
        return glom.Iter(build(sj[1], ctx)).first()
    if k == 'ref':                           # recursion through a named reference: the chain under 'next'
        return glom.Ref('node', glom.Or((T['next'], build(sj[1], ctx), glom.Ref('node')), T['v']))
    if k == 'switch':
        return glom.Switch([(build(c, ctx), build(v, ctx)) for c, v in sj[1]], **({'default': sj[2]} if len(sj) > 2 else {}))
    if k == 'check':
        return glom.Check(build(sj[1], ctx), **{sj[2]: {'int': int, 'str': str}.get(sj[3], sj[3])})
    if k == 'regex':
        return Match(glom.Regex(sj[1]))
    if k == 'or':
        return glom.Or(*[build(x, ctx) for x in sj[1]])
    if k == 'and':
        return glom.And(*[build(x, ctx) for x in sj[1]])
    if k == 'not':
        return Match(glom.Not({'int': int, 'str': str}[sj[1]]))
    if k == 'invoke':
        return glom.Invoke(lambda a, b: [a, b]).specs(build(sj[1], ctx)).constants(sj[2])
    if k == 'call':
        return glom.Call(lambda a, b=None: (a, b), args=(glom.Spec(build(sj[1], ctx)),), kwargs={'b': glom.Spec(build(sj[2], ctx))})
    if k == 'delete':
        return glom.Delete(sj[1])
    if k == 'merge':
        return glom.Merge()
    if k == 'flatten':
        return glom.Flatten()
    if k == 'sum':
        return glom.Sum()
    if k == 'vars':                          # S(v=Vars()): per-call variables (no mutable default: see ARG_POS 'vars')
        return S(v=glom.Vars(**{sj[1]: build(sj[2], ctx)}))
    if k == 'svar':
        return getattr(S.v, sj[1])
    if k == 'probe':
        return Probe(ctx, sj[1], sj[2], build(sj[3], ctx))
    if k == 'late':
        return Late(ctx, sj[1])
    if k == 'val':
        return Val(dec(sj[1]))
    if k == 'raw':
        return sj[1]
    if k == 'spec':
        return glom.Spec(build(sj[1], ctx))
    if k == 'callargs':                      # a LIST used as an argument (filled by arg_val)
        return glom.Call(tuple, args=([build(x, ctx) for x in sj[1]],))
    if k == 'callkw':                        # a DICT used as an argument
        return glom.Call(dict, args=({key: build(v, ctx) for key, v in sj[1]},))
    if k == 'assign':
        return glom.Assign(sj[1], build(sj[2], ctx), missing=Fac(ctx, sj[3]))
    if k == 'matchkey':
        return Match({KeyR(ctx, sj[1], 'token'): str, 'id': int})
    if k == 'accum':
        return build_accum(sj[1], ctx)
    if k == 'T':
        t = T
        for kind, key in sj[1]:
            t = getattr(t, key) if kind == '.' else t[key]
        return t
    if k == 'nested':
        return Nested(ctx, sj[1], sj[2])
    if k == 'specglom':
        return glom.Call(NestedS(ctx, sj[1], sj[2]), args=(T,), kwargs={'scope': S})
    if k == 'reenter':
        if sj[2]['point'] == 'glomit':
            return ReenterSpec(ctx, sj[1], sj[2])
        return glom.Call(ReenterFn(ctx, sj[1], sj[2]), args=(T, S))
    raise ValueError(sj)


def nested_ids(sj, acc):
    if isinstance(sj, list):
        if sj and sj[0] in ('nested', 'specglom'):
            acc.append((sj[1], sj[2]))
            nested_ids(sj[2]['spec'], acc)
        elif sj and sj[0] == 'reenter':
            acc.append((sj[1], sj[2]['inner']))
            nested_ids(sj[2]['inner']['spec'], acc)
            if sj[2].get('after') is not None:
                nested_ids(sj[2]['after'], acc)
        else:
            for x in sj:
                nested_ids(x, acc)
    return acc


def nested_kinds(sj, acc):
    if isinstance(sj, list):
        if sj and sj[0] in ('nested', 'specglom'):
            acc.append((sj[1], sj[0]))
            nested_kinds(sj[2]['spec'], acc)
        elif sj and sj[0] == 'reenter':
            acc.append((sj[1], sj[2]))
            nested_kinds(sj[2]['inner']['spec'], acc)
            if sj[2].get('after') is not None:
                nested_kinds(sj[2]['after'], acc)
        else:
            for x in sj:
                nested_kinds(x, acc)
    return acc


# ----------------------------------------------------------------------------- instrumentation (alone run only)

class Logged:
    """logs Path.from_text and registry.get_handler calls into the active Ctx while a call runs alone"""

    def __init__(self, ctx):
        self.ctx = ctx

    def __enter__(self):
        import glom.core as core
        ctx = self.ctx
        self.core = core
        self.orig_ft = core.Path.__dict__['from_text']
        self.orig_gh = core.TargetRegistry.get_handler
        orig_ft = self.orig_ft.__func__
        orig_gh = self.orig_gh

        def from_text(cls, text):
            ctx.logs[-1].append(['parse', text])
            return orig_ft(cls, text)

        def get_handler(reg, op, obj, path=None, raise_exc=True):
            try:
                h = orig_gh(reg, op, obj, path=path, raise_exc=raise_exc)
            except core.UnregisteredTarget:
                ctx.logs[-1].append(['handler', type(obj).__name__, op, None, bool(raise_exc)])
                raise
            # (False: no handler, told to a caller that asked with raise_exc=False)
            ctx.logs[-1].append(['handler', type(obj).__name__, op, None if h is False else handler_name(h), bool(raise_exc)])
            return h
        core.Path.from_text = classmethod(from_text)
        core.TargetRegistry.get_handler = get_handler
        return self

    def __exit__(self, *a):
        self.core.Path.from_text = self.orig_ft
        self.core.TargetRegistry.get_handler = self.orig_gh


def handler_name(h):
    return getattr(h, '__qualname__', None) or getattr(h, '__name__', None) or repr(h)


# the registry whose handler memo the calls of the current run share: the module-level one, or that of
# the Glommer instance the calls of a case go through
_REG = [None]


def the_registry():
    import glom.core as core
    return _REG[0] if _REG[0] is not None else core._DEFAULT_SCOPE[core.TargetRegistry]


def entry_point(via_glommer):
    """the way the calls of a run are made: glom.glom, or the glom method of ONE Glommer instance (its
    own registry and handler memo) that all of them share"""
    import glom
    if via_glommer:
        g = glom.Glommer()
        _REG[0] = g.scope[glom.core.TargetRegistry]
        return g.glom
    _REG[0] = None
    return glom.glom


def clear_caches():
    import glom.core as core
    core.Path._CACHE[True].clear()
    the_registry()._type_cache = {}


def snapshot_caches():
    import glom.core as core
    pc = []
    for text, p in sorted(core.Path._CACHE[True].items()):
        segs = [core._T_STAR if s == '*' else core._T_STARSTAR if s == '**' else s for s in text.split('.')]
        pc.append([text, repr(p), repr(core.Path(*segs))])
    reg = the_registry()
    tc = []
    cached = dict(reg._type_cache)
    def tyname(t):
        return t.__name__ if isinstance(t, type) else 'non-type-key:%r' % (t,)
    for key, h in sorted(cached.items(), key=lambda kv: repr(kv[0])):
        if not (isinstance(key, tuple) and len(key) == 2 and isinstance(key[0], type)):
            tc.append([tyname(key[0]) if isinstance(key, tuple) and key else repr(key), repr(key), handler_name(h),
                       'unexpected cache key'])
            continue
        ty, op = key
        try:
            sample = _instance_of(ty)
        except Exception:
            continue                                   # no instance to look up with: entry not compared
        saved = reg._type_cache
        reg._type_cache = {}
        try:
            fresh = reg.get_handler(op, sample, raise_exc=False)
        finally:
            reg._type_cache = saved
        tc.append([ty.__name__, op, handler_name(h), handler_name(fresh)])
    return pc, tc


_SAMPLES = {}


def _instance_of(ty):
    """an instance of `ty` for `_get_closest_type` (which only looks at the type)"""
    if ty in _SAMPLES:
        return _SAMPLES[ty]
    try:
        return ty()
    except Exception:
        return ty.__new__(ty)


def remember_instance(obj):
    _SAMPLES.setdefault(type(obj), obj)


# ----------------------------------------------------------------------------- running cases

SKIP_EXC = {'KeyError': KeyError, 'ValueError': ValueError, 'GlomError': None, 'LookupError': LookupError}


def call_kw(call):
    """keyword arguments of the glom() call of a case: the user's scope variables, default= / skip_exc= /
    glom_debug="""
    import glom
    kw = {'scope': dict(call['scope'])} if call.get('scope') else {}
    for k, v in (call.get('kw') or {}).items():
        kw[k] = (SKIP_EXC[v] or glom.GlomError) if k == 'skip_exc' else v
    return kw


def run_alone(call, tid):
    """the call run alone, logging its shared-state accesses; also each nested call run alone at top level"""
    import glom
    log = []
    ctx = Ctx(tid, log=log)
    target = dec(call['target'])
    _walk_remember(target)
    entry = entry_point(call.get('via') == 'glommer')
    clear_caches()
    with Logged(ctx):
        spec = build(call['spec'], ctx)          # (Delete / Assign parse their path when the spec is built)
        out, exc = outcome_of(lambda: entry(target, spec, **call_kw(call)))
    _REG[0] = None
    return log, out, ctx


def _walk_remember(x):
    remember_instance(x)
    if isinstance(x, dict):
        for v in x.values():
            _walk_remember(v)
    elif isinstance(x, (list, tuple)):
        for v in x:
            _walk_remember(v)


def shared_alone(spec, target_json, tid):
    import glom
    log = []
    ctx = Ctx(tid, log=log)
    _TL.ctx = ctx
    _TL.nest = None
    target = dec(target_json)
    _walk_remember(target)
    clear_caches()
    try:
        with Logged(ctx):
            out, _ = outcome_of(lambda: glom.glom(target, spec))
    finally:
        _TL.ctx = None
    return log, out


def run_shared(case):
    """several calls evaluate ONE spec object (as module-level specs are used): concurrently under a
    schedule, free-running, or re-entrantly from one of its own yield points"""
    import glom
    out = dict(case)
    targets = case['targets']
    n = len(targets)
    payload = []
    for tid, tj in enumerate(targets):
        # "alone": the only call there is -- on a spec object of its own, built the same way
        log, o = shared_alone(build(case['spec'], DynCtx()), tj, tid)
        payload.append({'events': log, 'alone': o})
    dctx = DynCtx()
    dctx.lits = []
    spec = build(case['spec'], dctx)
    spec_before = _ADDR.sub('0x?', repr(spec))
    lits_before = [py_tokens(x) for x in dctx.lits]
    clear_caches()
    deadlock = False
    if 'nest_at' in case:
        _TL.ctx = Ctx(0)
        nest = {'at': case['nest_at'], 'count': 0, 'target': targets[1], 'spec': spec, 'out': None}
        _TL.nest = nest
        try:
            o_outer = outcome_of(lambda: glom.glom(dec(targets[0]), spec))[0]
        finally:
            _TL.nest = None
            _TL.ctx = None
        inner = nest['out'] if nest['out'] is not None else payload[1]['alone']   # not reached: nothing to compare
        results = [o_outer, inner]
    elif case.get('schedule') is not None:
        sched = Sched(n)
        results = [None] * n

        def body(tid):
            _TL.ctx = Ctx(tid, sched=sched)
            _TL.nest = None
            target = dec(targets[tid])
            sched.yield_point(tid)
            results[tid] = outcome_of(lambda: glom.glom(target, spec))[0]
            sched.finished[tid] = True
            sched.arrived[tid].release()
        ths = [threading.Thread(target=body, args=(i,), daemon=True) for i in range(n)]
        for t in ths:
            t.start()
        for i in range(n):
            if not sched.arrived[i].acquire(timeout=TIMEOUT):
                sched.deadlock = True
        sched.drive(case['schedule'])
        for t in ths:
            t.join(timeout=TIMEOUT)
            if t.is_alive():
                sched.deadlock = True
        deadlock = sched.deadlock
    else:
        reps = case.get('reps', 20)
        old = sys.getswitchinterval()
        barrier = threading.Barrier(n)
        alone = [t['alone'] for t in payload]
        results = [None] * n

        def body(tid):
            _TL.ctx = None
            _TL.nest = None
            try:
                barrier.wait(timeout=TIMEOUT)
            except threading.BrokenBarrierError:
                pass
            res = alone[tid]
            for _ in range(reps):
                o = outcome_of(lambda: glom.glom(dec(targets[tid]), spec))[0]
                if o != alone[tid]:
                    res = o
                    break
            results[tid] = res
        try:
            sys.setswitchinterval(1e-6)
            ths = [threading.Thread(target=body, args=(i,), daemon=True) for i in range(n)]
            for t in ths:
                t.start()
            for t in ths:
                t.join(timeout=4 * TIMEOUT)
                if t.is_alive():
                    deadlock = True
        finally:
            sys.setswitchinterval(old)
    pc, tc = snapshot_caches()
    out['threads'] = payload
    outs = [r if r is not None else {'err': ['NoResult', 'the call did not finish']} for r in results]
    out['impl'] = {'outs': outs, 'pcache': pc, 'tcache': tc, 'deadlock': deadlock,
                   'spec_same': _ADDR.sub('0x?', repr(spec)) == spec_before}
    if case['spec'][0] == 'accum':
        # the same calls for the Lean model of `_ArgValuator.mode` on an object heap
        d = case['spec'][1]
        ths = [dict(accum_ops(d, tj), alone=read_of(payload[i]['alone']) or ['<no value>'])
               for i, tj in enumerate(targets)]
        if 'nest_at' in case:       # thread 0 up to its j-th yield point, thread 1 entirely, the rest of thread 0
            msched = [0] * (case['nest_at'] + 1) + [1] * 16 + [0] * 16
        else:
            msched = case.get('schedule')
        out['argsys'] = {'heap': d['heap'], 'root': d['root'], 'threads': ths, 'schedule': msched}
        out['impl']['reads'] = [read_of(o) for o in outs]
        out['impl']['lits'] = [lits_before[0], py_tokens(dctx.lits[0])]
    return out


def read_of(o):
    """the token list a call returned (None: it failed)"""
    import ast
    if 'val' not in o:
        return None
    try:
        v = ast.literal_eval(o['val'])
    except (ValueError, SyntaxError):
        return None
    return v if isinstance(v, list) and all(isinstance(x, str) for x in v) else None



def run_impl(case):
    """the case with the implementation's observation.  Every field the driver reads is there: one
    that does not apply to the mode of the case is None (the driver refuses a missing field)"""
    out = _run_impl(case)
    for k in ('schedule', 'argsys', 'errhist', 'rspec'):
        out.setdefault(k, None)
    for k in ('spec_same', 'skeleton'):
        out['impl'].setdefault(k, None)
    return out


def _run_impl(case):
    import glom
    if case['mode'] == 'shared':
        return run_shared(case)
    if case['mode'] == 'repr':
        return run_repr(case, dict(case))
    calls = case['calls']
    n = len(calls)
    out = dict(case)
    threads_payload = []
    alone_ctxs = []
    for tid, call in enumerate(calls):
        log, o, ctx = run_alone(call, tid)
        threads_payload.append({'events': log, 'alone': o})
        alone_ctxs.append(ctx)
    mode = case['mode']
    if mode == 'nested':
        return run_nested(case, out, threads_payload, alone_ctxs)
    if mode == 'reent':
        return run_reent(case, out, threads_payload, alone_ctxs)
    entry = entry_point(any(c.get('via') == 'glommer' for c in calls))
    clear_caches()
    results = [None] * n
    if mode == 'sched':
        for tid in range(n):
            ny = count_user_events(threads_payload[tid]['events'])
            if case['schedule'].count(tid) != ny + 1:
                raise ValueError('schedule gives call %d %d segments, it has %d yield points'
                                 % (tid, case['schedule'].count(tid), ny))
        sched = Sched(n)

        def body(tid):
            ctx = Ctx(tid, sched=sched)
            target = dec(calls[tid]['target'])
            spec = build(calls[tid]['spec'], ctx)
            sched.yield_point(tid)                      # wait for the first segment
            results[tid] = outcome_of(lambda: entry(target, spec, **call_kw(calls[tid])))[0]
            sched.finished[tid] = True
            sched.arrived[tid].release()
        ths = [threading.Thread(target=body, args=(i,), daemon=True) for i in range(n)]
        for t in ths:
            t.start()
        for i in range(n):                              # every thread reaches its start point
            if not sched.arrived[i].acquire(timeout=TIMEOUT):
                sched.deadlock = True
        if not sched.deadlock:
            sched.drive(case['schedule'])
        for t in ths:
            t.join(timeout=TIMEOUT if not sched.deadlock else 0.2)
            if t.is_alive():
                sched.deadlock = True
        deadlock = sched.deadlock
        if deadlock:                                    # let stuck threads run out
            for i in range(n):
                for _ in range(16):
                    sched.go[i].release()
    else:                                               # free-running under a minimal switch interval
        reps = case.get('reps', 20)
        old = sys.getswitchinterval()
        barrier = threading.Barrier(n)
        alone = [t['alone'] for t in threads_payload]

        def body(tid):
            ctx = Ctx(tid)
            try:
                barrier.wait(timeout=TIMEOUT)
            except threading.BrokenBarrierError:
                pass
            res = alone[tid]
            for _ in range(reps):
                target = dec(calls[tid]['target'])       # (a Delete / Assign in the spec changes the target)
                spec = build(calls[tid]['spec'], ctx)
                o = outcome_of(lambda: entry(target, spec, **call_kw(calls[tid])))[0]
                if o != alone[tid]:
                    res = o
                    break
            results[tid] = res
        deadlock = False
        try:
            sys.setswitchinterval(1e-6)
            ths = [threading.Thread(target=body, args=(i,), daemon=True) for i in range(n)]
            for t in ths:
                t.start()
            for t in ths:
                t.join(timeout=4 * TIMEOUT)
                if t.is_alive():
                    deadlock = True
        finally:
            sys.setswitchinterval(old)
    pc, tc = snapshot_caches()
    _REG[0] = None
    out['threads'] = threads_payload
    out['impl'] = {'outs': [r if r is not None else {'err': ['NoResult', 'the call did not finish']} for r in results],
                   'pcache': pc, 'tcache': tc, 'deadlock': deadlock}
    return out


# ----------------------------------------------------------------------------- re-entry from a __repr__ while a trace is rendered

class ReprHook:
    """what the `__repr__` of an object does while it runs: a glom call of its own (on the very object
    whose repr is running, or on another object with the same content), whose error it catches and
    renders -- as a logging `__repr__`, a lazy proxy, an ORM object does"""

    def __init__(self, ctx, d):
        self.ctx, self.d, self.busy, self.seen = ctx, d, False, None

    def __call__(self, obj):
        import glom
        if self.busy or self.seen is not None:
            return
        self.busy = True
        try:
            d = self.d
            if d['where'] == 'target':
                target = obj if d['on'] == 'self' else ReprT(dict(obj), None)
                spec = build(d['inner'], self.ctx)
            else:
                target = dec(d['data'])
                spec = (d['inner_path'], obj if d['on'] == 'self' else ReprFn(None))
            v, exc = raw_call(lambda: glom.glom(target, spec))
            self.seen = outcome_from(v, exc)
        finally:
            self.busy = False


class ReprT(dict):
    """a target (a dict) with a `__repr__` of its own"""

    def __init__(self, data, hook):
        dict.__init__(self, data)
        self.hook = hook

    def __repr__(self):
        if self.hook is not None:
            self.hook(self)
        return 'Tgt(%d)' % len(self)


class ReprFn:
    """a spec (a callable that rejects its target) with a `__repr__` of its own"""

    def __init__(self, hook):
        self.hook = hook

    def __call__(self, x):
        raise ValueError('rejected %r' % (x,))

    def __repr__(self):
        if self.hook is not None:
            self.hook(self)
        return 'Fn()'


def run_repr(case, out):
    """the outer call fails; rendering its error runs the `__repr__` of its target (or of a spec object),
    which makes a glom call of its own.  Observed: the outer message, and the outcome of the inner
    call as the `__repr__` saw it; expected: the outer call with a `__repr__` that makes no call, and
    the inner call made at top level."""
    import glom
    d = case['repr']
    outer = case['calls'][0]
    data = dec(outer['target'])

    def outer_call(hook, ctx):
        if d['where'] == 'target':
            return ReprT(data, hook), build(outer['spec'], ctx)
        return data, (d['outer_path'], ReprFn(hook))

    def inner_alone(ctx):
        if d['where'] == 'target':
            return ReprT(data, None), build(d['inner'], ctx)
        return dec(d['data']), (d['inner_path'], ReprFn(None))
    payload = []
    for mk in (lambda c: outer_call(None, c), inner_alone):
        log = []
        c = Ctx(0, log=log)
        t, sp = mk(c)
        clear_caches()
        with Logged(c):
            o = outcome_of(lambda: glom.glom(t, sp))[0]
        payload.append({'events': log, 'alone': o})
    clear_caches()
    ctx = Ctx(0)
    hook = ReprHook(ctx, d)
    t, sp = outer_call(hook, ctx)
    o_real = outcome_of(lambda: glom.glom(t, sp))[0]
    pc, tc = snapshot_caches()
    inner = hook.seen
    if inner is None:           # the repr was not run (the outer call did not fail): nothing to compare
        inner = payload[1]['alone']
        payload[1] = dict(payload[1], events=[])
    out['threads'] = payload
    out['impl'] = {'outs': [o_real, inner], 'pcache': pc, 'tcache': tc, 'deadlock': False}
    return out


def gen_repr(rng, tier):
    """every combination of: whose `__repr__` re-enters (the target's / a spec object's), on what (the
    object whose repr is running / another object with the same content), how the outer call fails,
    what the inner call does (fails in two ways, succeeds)"""
    data = D(a=D(b=1), p=D(q=3))
    for on in ('self', 'other'):
        for outer in (['path', 'zzz'], ['tuple', [['path', 'a'], ['path', 'nope']]], ['coalesce', [['path', 'x'], ['path', 'a.y']]]):
            for inner in (['path', 'nope'], ['tuple', [['path', 'p'], ['path', 'zz']]], ['path', 'a.b']):
                yield {'mode': 'repr', 'names': ['repr_target_' + on], 'calls': [{'target': data, 'spec': outer}],
                       'repr': {'where': 'target', 'on': on, 'inner': inner}}
        for outer_path in ('a', 'p.q'):
            for inner_path in ('a.b', 'p'):
                yield {'mode': 'repr', 'names': ['repr_spec_' + on], 'calls': [{'target': data, 'spec': ['path', outer_path]}],
                       'repr': {'where': 'spec', 'on': on, 'outer_path': outer_path, 'inner_path': inner_path, 'data': data}}


def strip_obs(sj):
    """the spec with nobody looking at exceptions: handlers keep their shape (try / re-raise), the
    `obs` of every nested call, re-entry and probe is dropped"""
    if isinstance(sj, list):
        return [strip_obs(x) for x in sj]
    if isinstance(sj, dict):
        return {k: strip_obs(v) for k, v in sj.items() if k != 'obs'}
    return sj


def isolated_result(c2, nid):
    """(value, exception) of the inner call `nid` as the context `c2` saw it; the exception untouched"""
    if nid in c2.pending:
        return None, c2.pending[nid][0]
    if nid not in c2.inner:
        raise RuntimeError('isolated inner call %d was not made' % nid)
    _, exc, val = c2.inner[nid]
    return val, exc


def isolated_nested(nid, call, kind):
    """the inner call of a nesting made in isolation: at top level, or -- re-entry through
    Spec(inner).glom(target, scope=S) evaluates inside the scope it is given and is not a glom() call
    of its own (no trace of its own, exceptions are not wrapped) -- from a trivial outer call.
    -> (value, exception); the exception is NOT rendered"""
    import glom
    c2 = Ctx(0)
    call = {k: v for k, v in call.items() if k != 'obs'}
    if kind == 'specglom':
        ns = NestedS(c2, nid, call)
        ns.swallow = True
        raw_call(lambda: glom.glom(None, glom.Call(ns, args=(glom.T,), kwargs={'scope': glom.S})))
    else:
        n = Nested(c2, nid, call)
        raw_call(lambda: n(None))
    return isolated_result(c2, nid)


def outcome_from(v, exc):
    if exc is not None:
        return {'err': [exc_name(exc), norm_text(str(exc))]}
    return {'val': _ADDR.sub('0x?', repr(v))}


def observed_call(ctx, fn):
    """the outer call as it is, its error history logged: -> outcome.  The error is rendered, then
    user code and the harness look at what was kept / not read yet (`settle`), then the error is
    rendered again"""
    v, exc = raw_call(fn)
    if exc is None:
        ctx.settle()
        return {'val': _ADDR.sub('0x?', repr(v))}
    ctx.exited(exc, 'outer')
    text = ctx.render(exc, 'str')
    ctx.settle()
    ctx.render(exc, RENDERS[len(ctx.hist) % 4])         # str / pct / fmtonly / fmt
    return {'err': [exc_name(exc), text]}


def run_nested(case, out, threads_payload, alone_ctxs):
    """one outer call with glom-inside-callable nestings.  calls[0] is the outer call; the inner
    calls are observed (a) nested, as they ran inside the outer call, and (b) alone at top level;
    the outer call is compared with itself where every inner call is replaced by its alone outcome
    and nobody renders an exception in flight."""
    import glom
    outer = case['calls'][0]
    inner = nested_ids(outer['spec'], [])
    payload = [threads_payload[0]]
    outs = []
    # (b) each inner call alone at top level
    alone_inner = {}
    stub_values = {}
    call_index = {'outer': 0}
    kinds = dict(nested_kinds(outer['spec'], []))
    for nid, call in inner:
        if 'target' not in call:
            continue
        log, _, _ = run_alone(strip_obs(call), 0)
        val, exc = isolated_nested(nid, call, kinds.get(nid))
        o2 = outcome_from(val, exc)
        alone_inner[nid] = (o2, lambda nid=nid, call=call: isolated_nested(nid, call, kinds.get(nid))[1])
        stub_values[nid] = val
        call_index[nid] = len(payload)
        payload.append({'events': log, 'alone': o2})
    # (a) the outer call with real nested calls (not logged this time: fresh caches)
    clear_caches()
    ctx = Ctx(0)
    ctx.call_index = call_index
    o_real = observed_call(ctx, lambda: glom.glom(dec(outer['target']), build(outer['spec'], ctx)))
    pc, tc = snapshot_caches()
    # the outer call "alone": inner calls replaced by constants, nobody renders in flight
    sctx = Ctx(0, stubs=alone_inner)
    sctx.stub_values = stub_values
    sctx.reference = True
    o_stub = outcome_of(lambda: glom.glom(dec(outer['target']), build(outer['spec'], sctx)))[0]
    payload[0] = dict(payload[0], alone=o_stub)
    outs.append(o_real)
    for nid, call in inner:
        if 'target' not in call:
            continue
        seen = ctx.inner.get(nid)
        if seen is None and nid in ctx.unread:      # it failed, nobody read its message as it was: not compared
            outs.append(payload[len(outs)]['alone'])
            continue
        outs.append(seen[0] if seen is not None else {'err': ['NotReached', 'the nested call did not run']})
        if seen is None:            # not reached in the real run either way: compare with itself
            payload[len(outs) - 1] = dict(payload[len(outs) - 1], alone=outs[-1])
    out['threads'] = payload
    out['impl'] = {'outs': outs, 'pcache': pc, 'tcache': tc, 'deadlock': False}
    out['errhist'] = {'ops': ctx.hist, 'ref': ctx.ref}
    return out


def isolated_inner(nid, d, kw, prefix):
    """the inner call of a re-entry made in isolation, the way `how` makes it, and handed the same
    data: as a top-level glom() call with the user's variables (none / user / kw*), or --
    Spec(inner).glom(t, scope=<scope>) evaluates inside the scope it is given and is not a glom()
    call of its own -- from a trivial outer call that has nothing but the user's variables in its
    scope (copy / run).  When the running scope is handed over it carries the caller's position
    (`scope[Path]`, the "(at path …)" of error messages), like it carries the caller's mode: the
    isolated call starts at the same position (`path=prefix`).
    -> (value, exception); the exception is NOT rendered"""
    import glom
    c2 = Ctx(0)
    how = d['how']
    d = {k: v for k, v in d.items() if k != 'obs'}
    if how in ('copy', 'run'):
        # (the handler keeps the error: it must not go through the trivial outer call, whose handler
        # would finalize -- for a class that cannot be re-created: the very object -- with ITS scope)
        r = ReenterFn(c2, nid, dict(d, after=None, catch=True))
        raw_call(lambda: glom.glom(None, glom.Call(r, args=(glom.T, glom.S)), path=list(prefix), **kw))
    elif how in ('kwcopy', 'kwrun'):
        r = ReenterFn(c2, nid, dict(d, after=None, catch=False, how='kwcopy'))
        sc = dict(kw.get('scope', {}))
        sc[glom.Path] = list(prefix)
        raw_call(lambda: r(None, sc))
    else:
        r = ReenterFn(c2, nid, dict(d, after=None, catch=False))
        raw_call(lambda: r(None, kw.get('scope', {})))
    return isolated_result(c2, nid)


class NotExpressible(Exception):
    pass


class RSpecOf:
    """the outer call of a re-entry case in the spec language of the Lean model of the error
    bookkeeping (Glom/Model/C20Reentry.lean): leaves with their outcome (evaluated here, on the real
    glom, against the target they meet), specs with a scope of their own (dict / tuple / Spec /
    Coalesce) over `both` / `andThen` / `orElse`, and re-entries made from a custom spec that
    catches the inner failure and then evaluates `after`.  Everything else: NotExpressible."""

    LEAVES = ('path', 'T', 'val', 'y', 'boom', 'sget', 'late', 'raiseg')

    def __init__(self):
        self.labels = ['<none>']        # label id -> repr of the spec
        self.errs = {}                  # error id -> class name
        self.nerr = 0

    def label(self, obj):
        import glom.core as core
        self.labels.append(core.bbrepr(obj).replace("\\'", "'"))
        return len(self.labels) - 1

    def conv(self, sj, target, kw, live, coalesced=False):
        """-> (rspec json, ok?, value); `live`: the spec is reached at all (otherwise its leaves
        are never evaluated and their outcome does not matter); `coalesced`: below a Coalesce, which
        skips GlomErrors only -- the model's alternatives skip every failure, so no other exceptions"""
        import glom
        k = sj[0]
        if k == 'boom' and coalesced:
            raise NotExpressible('an exception a Coalesce does not skip')
        obj = build(sj, Ctx(0))
        if k in self.LEAVES:
            lab = self.label(obj)
            if not live:
                return ['leaf', lab, ['ok']], True, None
            try:
                v = glom.glom(target, obj, **kw)
            except Exception as e:
                self.nerr += 1
                self.errs[self.nerr] = exc_name(e)
                return ['leaf', lab, ['err', self.nerr]], False, None
            return ['leaf', lab, ['ok']], True, v
        if k == 'spec':
            lab = self.label(obj)
            c, ok, v = self.conv(sj[1], target, kw, live, coalesced)
            return ['sub', lab, c], ok, v
        if k == 'probe':                      # a custom spec that evaluates its child in a scope of its own
            lab = self.label(obj)
            c, ok, v = self.conv(sj[3], target, kw, live, coalesced)
            return ['sub', lab, c], ok, v
        if k == 'dict':
            lab = self.label(obj)
            parts, ok_all = [], True
            for key, sub in sj[1]:
                c, ok, _ = self.conv(sub, target, kw, live and ok_all, coalesced)
                parts.append(c)
                ok_all = ok_all and ok
            body = parts[-1]
            for c in reversed(parts[:-1]):
                body = ['both', c, body]
            return ['sub', lab, body], ok_all, {}
        if k == 'tuple':
            lab = self.label(obj)
            parts, ok_all, cur = [], True, target
            for sub in sj[1]:
                c, ok, v = self.conv(sub, cur, kw, live and ok_all, coalesced)
                parts.append(c)
                ok_all = ok_all and ok
                cur = v
            body = parts[-1]
            for c in reversed(parts[:-1]):
                body = ['andThen', c, body]
            return ['sub', lab, body], ok_all, cur
        if k == 'coalesce':
            lab = self.label(obj)
            parts, done, val = [], False, None
            for sub in sj[1]:
                c, ok, v = self.conv(sub, target, kw, live and not done, True)
                parts.append(c)
                if ok and not done:
                    done, val = True, v
            if len(sj) > 2:
                parts.append(['pure'])
                if not done:
                    done, val = True, sj[2]
            body = parts[-1]
            for c in reversed(parts[:-1]):
                body = ['orElse', c, body]
            return ['coal', lab, body], done, val
        if k == 'reenter':
            d = sj[2]
            if d['point'] != 'glomit' or d.get('after') is None:
                raise NotExpressible('re-entry from a callable / without an evaluation afterwards')
            lab = self.label(obj)
            how = d['how']
            ikw = {} if how == 'none' else kw
            ic, iok, _ = self.conv(d['inner']['spec'], dec(d['inner']['target']), ikw, live, False)
            if not iok and not d.get('catch', True):
                raise NotExpressible('the failure of the inner call propagates')
            ac, ok, v = self.conv(d['after'], target, kw, live, coalesced)
            return ['reent', lab, {'none': 'isolated', 'user': 'isolated', 'copy': 'spec', 'run': 'spec',
                                   'kwcopy': 'kw', 'kwrun': 'kw'}[how], ic, ac], ok, v
        raise NotExpressible(k)


_TRACE_LINE = re.compile(r'^ (\|*)([-+|\\X]) (.*)$')


def trace_skeleton(text):
    """the rendered trace as [depth, kind, text] lines: kind S (a spec), + (a spec with branches),
    X (the error a branch ended with; text = its class); Target lines are left out"""
    lines = text.splitlines()
    try:
        i = lines.index(' Target-spec trace (most recent last):')
    except ValueError:
        return None
    out = []
    for line in lines[i + 1:]:
        m = _TRACE_LINE.match(line)
        if not m:
            break
        bars, mark, rest = m.groups()
        depth = len(bars)              # the mark stands in the column of the line's own level
        if rest.startswith('Target: '):
            continue
        if rest.startswith('Spec: '):  # (`+` of a branching spec is overwritten by `\\` on the first line of a branch)
            out.append([depth, 'S', rest[len('Spec: '):]])
        else:
            cls = rest.split(':', 1)[0].split('.')[-1]
            out.append([depth, 'X', cls])
    return out


def run_reent(case, out, threads_payload, alone_ctxs):
    """one outer call whose spec makes re-entrant calls with access to the running scope.
    Observed: the outer call as it is (outcome = value, or class + full rendered message / trace),
    with every handler on the way rendering / keeping the exception it sees the way the case says;
    expected: the same outer call in which every inner call is made in isolation -- its isolated
    outcome is a constant, its exception exactly as the isolated call raised it -- and nobody renders
    an exception in flight.  The inner calls are compared too (as they ran nested / in isolation),
    and so is every message any handler read on the way (the error history)."""
    import glom
    outer = case['calls'][0]
    kw = call_kw(outer)
    inner = nested_ids(outer['spec'], [])
    kinds = dict(nested_kinds(outer['spec'], []))
    payload = [threads_payload[0]]
    # the outer call as it is
    clear_caches()
    ctx = Ctx(0)
    ctx.call_index = dict({nid: i + 1 for i, (nid, _) in enumerate(inner)}, outer=0)
    o_real = observed_call(ctx, lambda: glom.glom(dec(outer['target']), build(outer['spec'], ctx), **kw))
    pc, tc = snapshot_caches()
    # every inner call in isolation
    alone_inner, stub_values = {}, {}
    for nid, call in inner:
        log, _, _ = run_alone(dict(strip_obs(call), scope=ctx.uvars.get(nid) if kinds[nid]['how'] != 'none' else None), 0)
        ikw = {'scope': ctx.uvars[nid]} if ctx.uvars.get(nid) else {}
        prefix = ctx.paths.get(nid, [])
        if nid in ctx.uvars:
            val, exc = isolated_inner(nid, kinds[nid], ikw, prefix)
            o2 = outcome_from(val, exc)
            alone_inner[nid] = (o2, lambda nid=nid, ikw=ikw, prefix=prefix: isolated_inner(nid, kinds[nid], ikw, prefix)[1])
            stub_values[nid] = val
        else:                       # not reached: nothing to isolate
            o2 = {'err': ['NotReached', 'the nested call did not run']}
        payload.append({'events': log, 'alone': o2})
    # the outer call with the isolated outcomes as constants
    sctx = Ctx(0, stubs=alone_inner)
    sctx.stub_values = stub_values
    sctx.reference = True
    o_stub = outcome_of(lambda: glom.glom(dec(outer['target']), build(outer['spec'], sctx), **kw))[0]
    payload[0] = dict(payload[0], alone=o_stub)
    outs = [o_real]
    for i, (nid, call) in enumerate(inner):
        seen = ctx.inner.get(nid)
        if seen is None and nid in ctx.unread:      # it failed, nobody read its message as it was: not compared
            outs.append(payload[i + 1]['alone'])
        elif seen is None:          # not reached: nothing to compare
            outs.append({'err': ['NotReached', 'the nested call did not run']})
            payload[i + 1] = {'events': [], 'alone': outs[-1]}
        else:
            outs.append(seen[0])
    out['threads'] = payload
    out['impl'] = {'outs': outs, 'pcache': pc, 'tcache': tc, 'deadlock': False}
    out['errhist'] = {'ops': ctx.hist, 'ref': ctx.ref}
    # the same call in the Lean model of the error bookkeeping, when its spec language has it
    try:
        conv = RSpecOf()
        rs, ok, _ = conv.conv(strip_obs(outer['spec']), dec(outer['target']), kw, True)
        out['rspec'] = {'spec': rs, 'labels': conv.labels, 'errs': [[k, v] for k, v in sorted(conv.errs.items())]}
        if 'err' in o_real:
            out['impl']['skeleton'] = trace_skeleton(o_real['err'][1])
    except NotExpressible:
        pass
    return out


# ----------------------------------------------------------------------------- generators

def D(**kw):
    return {'d': [[k, v] for k, v in kw.items()]}


def templates(u):
    """call templates; `u` makes the dotted path texts of this call private (cold cache entries).
    each: (name, call, number of yield points)"""
    ku = 'k%s' % u
    tgt = D(a=D(b=D(c=1, d=2), e=5), vals={'l': [1, 2, 3]}, rows={'l': [D(k='x', v=1), D(k='y', v=2)]}, **{ku: D(z=7)})
    out = []
    out.append(('path1', {'target': tgt, 'spec': ['tuple', [['path', 'a.b'], ['y', 0], ['path', 'c']]]}, 1))
    out.append(('path2', {'target': tgt, 'spec': ['tuple', [['path', ku + '.z'], ['y', 0, 'inc'], ['y', 1, 'neg']]]}, 2))
    out.append(('shared3', {'target': tgt, 'spec': ['tuple', [['y', 0], ['path', 'a.b.c'], ['y', 1], ['val', tgt], ['path', 'a.e'], ['y', 2]]]}, 3))
    out.append(('scope2', {'target': tgt, 'spec': ['tuple', [['sset', 'x', ['path', 'a.e']], ['y', 0],
                                                            ['dict', [['r', ['sget', 'x']], ['q', ['tuple', [['path', 'a.b.d'], ['y', 1, 'inc']]]]]]]]}, 2))
    out.append(('assign1', {'target': tgt, 'spec': ['tuple', [['path', 'a.b'], ['aset', 'v'], ['path', 'c'], ['y', 0], ['sget', 'v']]]}, 1))
    out.append(('fold3', {'target': tgt, 'spec': ['tuple', [['path', 'vals'], ['fold', ['T', []], 0]]]}, 3))
    out.append(('group2', {'target': tgt, 'spec': ['tuple', [['path', 'rows'], ['group', ['y', 0, 'k'], ['T', [['[', 'v']]]]]]}, 2))
    out.append(('fill1', {'target': tgt, 'spec': ['fill', ['dict', [['m', ['T', [['[', 'a'], ['[', 'e']]]], ['n', ['y', 0]], ['lit', ['raw', 'x']]]]]}, 1))
    out.append(('match1', {'target': tgt, 'spec': ['tuple', [['path', 'a.b'], ['y', 0], ['matchd', [['c', 'int'], ['d', 'int']]]]]}, 1))
    out.append(('coalesce1', {'target': tgt, 'spec': ['coalesce', [['path', 'a.zz.q'], ['tuple', [['y', 0], ['path', ku + '.z']]]], 0]}, 1))
    out.append(('fail_path2', {'target': tgt, 'spec': ['tuple', [['y', 0], ['path', 'a.b'], ['y', 1], ['path', 'zz.' + ku]]]}, 2))
    out.append(('fail_boom1', {'target': tgt, 'spec': ['tuple', [['path', 'a.e'], ['y', 0], ['boom']]]}, 1))
    out.append(('fail_match1', {'target': tgt, 'spec': ['tuple', [['path', 'a.b'], ['y', 0], ['matchd', [['c', 'str']]]]]}, 1))
    out.append(('quad4', {'target': tgt, 'spec': ['tuple', [['y', 0], ['path', 'a'], ['y', 1], ['path', 'b'], ['y', 2], ['path', 'c'], ['y', 3, 'inc']]]}, 4))
    # the registry asked with raise_exc=False (a custom spec of the user): the answer False is remembered in the
    # handler memo all calls share; a call that iterates a target of the same type must still end in UnregisteredTarget
    out.append(('ask_iter2', {'target': tgt, 'spec': ['tuple', [['y', 0], ['path', 'a.e'], ['iterorself'], ['y', 1]]]}, 2))
    out.append(('fail_iter2', {'target': tgt, 'spec': ['tuple', [['y', 0], ['path', 'a.b.c'], ['y', 1], ['list', ['T', []]]]]}, 2))
    out.append(('ask_iter_list1', {'target': tgt, 'spec': ['tuple', [['path', 'vals'], ['iterorself'], ['y', 0], ['list', ['y', 1, 'inc']]]]}, 4))
    # the rest of the spec language (audit finding G7): streaming (eager, lazy: the stages run while a later step pulls),
    # Ref recursion, Switch / Check / Regex / Or / And / Not, Invoke / Call, Delete, Merge / Flatten / Sum, wildcard paths,
    # per-call Vars, and the keyword arguments default= / skip_exc= / glom_debug=
    chain = D(v=1, next=D(v=2, next=D(v=3)))
    tg2 = D(a=D(b=D(c=1, d=2), e=5), lists={'l': [{'l': [1, 2]}, {'l': [3]}]}, dicts={'l': [D(p=1), D(q=2)]},
            rows={'l': [D(k='x', v=1), D(k='y', v=2)]}, word='abc', chain=chain, **{ku: D(z=7)})
    out.append(('iter_all2', {'target': tg2, 'spec': ['tuple', [['path', 'rows'], ['iterall', ['tuple', [['T', [['[', 'v']]], ['y', 0, 'inc']]]]]]}, 2))
    out.append(('iter_lazy2', {'target': tg2, 'spec': ['tuple', [['path', 'rows'], ['iterlazy', ['y', 0, 'k']]]]}, 2))
    out.append(('iter_first1', {'target': tg2, 'spec': ['tuple', [['path', 'rows'], ['iterfirst', ['y', 0, 'k']]]]}, 1))
    out.append(('ref3', {'target': tg2, 'spec': ['tuple', [['path', 'chain'], ['ref', ['y', 0]]]]}, 2))
    out.append(('switch1', {'target': tg2, 'spec': ['switch', [[['path', 'a.zz'], ['val', 'first']], [['path', 'a.e'], ['tuple', [['y', 0], ['path', ku + '.z']]]]]]}, 1))
    out.append(('switch_dflt1', {'target': tg2, 'spec': ['tuple', [['y', 0], ['switch', [[['path', 'a.zz'], ['val', 1]], [['path', 'zq.' + ku], ['val', 2]]], 'dflt']]]}, 1))
    out.append(('check1', {'target': tg2, 'spec': ['tuple', [['path', 'a'], ['y', 0], ['check', ['path', 'e'], 'type', 'int'], ['path', 'b.c']]]}, 1))
    out.append(('fail_check1', {'target': tg2, 'spec': ['tuple', [['path', 'a'], ['y', 0], ['check', ['path', 'e'], 'type', 'str']]]}, 1))
    out.append(('regex1', {'target': tg2, 'spec': ['tuple', [['path', 'word'], ['y', 0], ['regex', '[a-z]+']]]}, 1))
    out.append(('fail_regex1', {'target': tg2, 'spec': ['tuple', [['path', 'word'], ['y', 0], ['regex', '[0-9]+']]]}, 1))
    out.append(('or_and2', {'target': tg2, 'spec': ['or', [['path', 'a.zz.' + ku], ['and', [['path', 'a'], ['y', 0], ['tuple', [['path', 'a.e'], ['y', 1, 'inc']]]]]]]}, 2))
    out.append(('not1', {'target': tg2, 'spec': ['tuple', [['path', 'a.e'], ['y', 0], ['not', 'str']]]}, 1))
    out.append(('invoke2', {'target': tg2, 'spec': ['tuple', [['y', 0], ['invoke', ['tuple', [['path', 'a.b.c'], ['y', 1, 'inc']]], 'const']]]}, 2))
    out.append(('call2', {'target': tg2, 'spec': ['call', ['tuple', [['path', 'a.e'], ['y', 0]]], ['tuple', [['y', 1], ['path', ku + '.z']]]]}, 2))
    out.append(('delete1', {'target': tg2, 'spec': ['tuple', [['delete', 'a.b.d'], ['y', 0], ['path', 'a.b']]]}, 1))
    out.append(('fail_delete1', {'target': tg2, 'spec': ['tuple', [['y', 0], ['delete', 'a.b.zz' + ku]]]}, 1))
    out.append(('flatten_sum2', {'target': tg2, 'spec': ['tuple', [['path', 'lists'], ['y', 0], ['flatten'], ['y', 1], ['sum']]]}, 2))
    out.append(('merge1', {'target': tg2, 'spec': ['tuple', [['path', 'dicts'], ['y', 0], ['merge']]]}, 1))
    out.append(('star2', {'target': tg2, 'spec': ['tuple', [['y', 0], ['path', 'rows.*.v'], ['y', 1], ['path', '*']]]}, 2))
    out.append(('starstar1', {'target': tg2, 'spec': ['tuple', [['path', 'a.**.' + 'c'], ['y', 0]]]}, 1))
    out.append(('vars2', {'target': tg2, 'spec': ['tuple', [['vars', 'n', ['raw', 5]], ['y', 0], ['dict', [['n', ['svar', 'n']], ['q', ['tuple', [['path', 'a.e'], ['y', 1]]]]]]]]}, 2))
    out.append(('kw_default1', {'target': tg2, 'spec': ['tuple', [['y', 0], ['path', 'a.zz.' + ku]]], 'kw': {'default': 'dflt'}}, 1))
    out.append(('kw_skip1', {'target': tg2, 'spec': ['tuple', [['path', 'a'], ['y', 0], ['T', [['[', 'zz']]]]], 'kw': {'default': None, 'skip_exc': 'KeyError'}}, 1))
    out.append(('kw_skip_miss1', {'target': tg2, 'spec': ['tuple', [['path', 'a.e'], ['y', 0], ['boom']]], 'kw': {'default': 0, 'skip_exc': 'KeyError'}}, 1))
    out.append(('kw_debug1', {'target': tg2, 'spec': ['tuple', [['path', 'a'], ['y', 0], ['path', 'nope.' + ku]]], 'kw': {'glom_debug': True}}, 1))
    return out


def nested_templates(u):
    ku = 'k%s' % u
    tgt = D(a=D(b=D(c=1, d=2), e=5), **{ku: D(z=7)})
    inner_ok = {'target': D(p=D(q=3)), 'spec': ['tuple', [['sset', 'x', ['path', 'p.q']], ['path', 'p.q'], ['y', 7, 'inc']]]}
    inner_fail = {'target': D(p=D(q=3)), 'spec': ['tuple', [['path', 'p'], ['path', 'nope.' + ku]]]}
    inner_boom = {'target': D(p=4), 'spec': ['tuple', [['path', 'p'], ['boom']]]}
    inner2 = {'target': D(w=D(p=D(q=9))), 'spec': ['tuple', [['path', 'w'], ['nested', 2, inner_ok], ['y', 8, 'neg']]]}
    inner3 = {'target': D(w=1), 'spec': ['coalesce', [['tuple', [['path', 'w'], ['nested', 3, {'target': D(z=1), 'spec': ['tuple', [['path', 'z'], ['nested', 4, inner_fail]]]}]]]], 'caught']}
    out = []
    # depth 1: the outer scope / mode must be what it was after the inner call
    out.append(('n1_scope', {'target': tgt, 'spec': ['tuple', [['sset', 'x', ['path', 'a.e']], ['nested', 1, inner_ok], ['dict', [['inner', ['T', []]], ['x', ['sget', 'x']]]]]]}))
    out.append(('n1_fill', {'target': tgt, 'spec': ['fill', ['dict', [['r', ['nested', 1, inner_ok]], ['lit', ['raw', 'keep']], ['m', ['T', [['[', 'a'], ['[', 'e']]]]]]]}))
    out.append(('n1_caught', {'target': tgt, 'spec': ['coalesce', [['tuple', [['path', 'a'], ['nested', 1, inner_fail]]], ['tuple', [['path', 'a.b.c'], ['y', 0, 'inc']]]]]}))
    out.append(('n1_uncaught', {'target': tgt, 'spec': ['tuple', [['path', 'a'], ['nested', 1, inner_fail]]]}))
    out.append(('n1_boom_caught', {'target': tgt, 'spec': ['coalesce', [['nested', 1, inner_boom], ['path', 'a.e']], 'dflt']}))
    out.append(('n1_group', {'target': D(rows={'l': [D(k='x', v=1), D(k='y', v=2)]}), 'spec': ['tuple', [['path', 'rows'], ['group', ['T', [['[', 'k']]], ['nested', 1, inner_ok]]]]}))
    # re-entry through Spec(inner).glom(target, scope=S) from a step of a chain (what First does)
    out.append(('ns_uncaught', {'target': tgt, 'spec': ['tuple', [['path', 'a'], ['specglom', 1, inner_fail]]]}))
    out.append(('ns_caught', {'target': tgt, 'spec': ['coalesce', [['tuple', [['path', 'a'], ['specglom', 1, inner_boom]]], ['path', 'a.e']]]}))
    out.append(('ns_ok', {'target': tgt, 'spec': ['tuple', [['sset', 'x', ['val', 'outer']], ['path', 'a'], ['specglom', 1, inner_ok], ['dict', [['v', ['T', []]], ['x', ['sget', 'x']]]]]]}))
    # depth 2 and 3
    out.append(('n2', {'target': tgt, 'spec': ['tuple', [['sset', 'x', ['val', 'outer']], ['nested', 1, inner2], ['dict', [['v', ['T', []]], ['x', ['sget', 'x']]]]]]}))
    out.append(('n3_caught', {'target': tgt, 'spec': ['tuple', [['sset', 'x', ['val', 'outer']], ['nested', 1, inner3], ['dict', [['v', ['T', []]], ['x', ['sget', 'x']]]]]]}))
    out.append(('n3_uncaught', {'target': tgt, 'spec': ['tuple', [['path', 'a'], ['nested', 1, {'target': D(z=1), 'spec': ['tuple', [['path', 'z'], ['nested', 2, {'target': D(yy=2), 'spec': ['tuple', [['path', 'yy'], ['nested', 3, inner_fail]]]}]]]}]]]}))
    # the three ways the handler of glom() gets hold of the error of an inner call: a copy that carries
    # the __dict__ (above), a fresh instance (TypeMatchError.__copy__), the error object itself (a
    # user-defined GlomError whose constructor does not take `args`); errors kept and looked at later
    inner_tm = {'target': D(p=D(q=3)), 'spec': ['tuple', [['path', 'p'], ['matchd', [['q', 'str']]]]]}
    inner_odd = {'target': D(p=4), 'spec': ['tuple', [['path', 'p'], ['raiseg', 'bad']]]}
    inner_rej = {'target': D(p=4), 'spec': ['tuple', [['path', 'p'], ['raiseg', 'ok']]]}
    out.append(('n1_tm_uncaught', {'target': tgt, 'spec': ['tuple', [['path', 'a'], ['nested', 1, inner_tm]]]}))
    out.append(('n1_odd_uncaught', {'target': tgt, 'spec': ['tuple', [['path', 'a'], ['nested', 1, inner_odd]]]}))
    out.append(('n1_rej_uncaught', {'target': tgt, 'spec': ['dict', [['k', ['path', 'a.e']], ['v', ['nested', 1, inner_rej]]]]}))
    out.append(('n3_odd_uncaught', {'target': tgt, 'spec': ['tuple', [['path', 'a'], ['nested', 1, {'target': D(z=1), 'spec': ['tuple', [['path', 'z'], ['nested', 2, {'target': D(yy=2), 'spec': ['tuple', [['path', 'yy'], ['nested', 3, inner_odd]]]}]]]}]]]}))
    out.append(('n2_tm_uncaught', {'target': tgt, 'spec': ['tuple', [['path', 'a'], ['nested', 1, {'target': D(z=1), 'spec': ['tuple', [['path', 'z'], ['nested', 2, inner_tm]]]}]]]}))
    out.append(('n1_kept_late', {'target': tgt, 'spec': ['tuple', [['coalesce', [['tuple', [['path', 'a'], ['nested', 1, inner_fail]]], ['path', 'a.b']]],
                                                                   ['late', 0], ['path', 'zz.' + ku]]]}))
    out.append(('n1_kept_late_ok', {'target': tgt, 'spec': ['tuple', [['coalesce', [['tuple', [['path', 'a'], ['nested', 1, inner_rej]]], ['path', 'a.b']]],
                                                                      ['late', 0], ['path', 'c']]]}))
    return out


def with_obs(rng, sj, counter):
    """the spec with a handler behaviour (render 0-2 ways; go on as it is / as a copy / keep) on every
    nested call, and an observation point (probe) around some of its chains and Coalesces"""
    if not isinstance(sj, list) or not sj:
        return sj
    g = ReentGen(rng, 0)
    if sj[0] in ('nested', 'specglom'):
        call = dict(sj[2], spec=with_obs(rng, sj[2]['spec'], counter), obs=g.obs())
        return [sj[0], sj[1], call]
    out = [with_obs(rng, x, counter) if isinstance(x, list) else x for x in sj]
    if sj[0] in ('tuple', 'coalesce') and nested_ids(sj, []) and rng.random() < 0.25:
        counter[0] += 1
        return ['probe', 100 + counter[0], g.obs(), out]
    return out


def shared_templates():
    """(name, spec, targets): ONE spec object evaluated by all the calls"""
    TA, TB, TC = D(id='A', name='alpha'), D(id='B', name='beta'), D(id='C', name='gamma')
    tid_ = ['T', [['[', 'id']]]
    tname = ['T', [['[', 'name']]]
    out = []
    # a list / a dict used as an argument, with user code in the middle of it
    out.append(('sh_args', ['callargs', [tid_, ['spec', ['y', 0, 'fid']], tname]], [TA, TB, TC]))
    out.append(('sh_args2', ['tuple', [['callargs', [['spec', ['y', 0, 'fid']], tid_, ['spec', ['y', 1, 'fid']]]], ['y', 2]]], [TA, TB]))
    out.append(('sh_kw', ['callkw', [['i', tid_], ['f', ['spec', ['y', 0, 'fid']]], ['n', tname]]], [TA, TB, TC]))
    out.append(('sh_sset', ['tuple', [['sset', 'x', ['raw', None]], ['ssetlist', [tid_, ['spec', ['y', 0, 'fid']]]], ['sget', 'x']]], [TA, TB]))
    # Assign(..., missing=factory): the factory is user code
    out.append(('sh_assign', ['assign', 'meta.info.owner', ['T', [['[', 'user']]], 0],
                [D(user='alice'), D(user='bob'), D(user='carol')]))
    out.append(('sh_assign1', ['assign', 'meta.owner', ['T', [['[', 'user']]], 0], [D(user='alice'), D(user='bob')]))
    # user code in __repr__: error messages and traces render shared spec objects
    out.append(('sh_match', ['matchkey', 0], [D(id=1), D(id=2)]))
    out.append(('sh_match3', ['tuple', [['y', 1], ['matchkey', 0]]], [D(id=1), D(id=2), D(id=3)]))
    return out


def shared_yields(spec_json, target_json):
    spec = build(spec_json, DynCtx())
    return count_user_events(shared_alone(spec, target_json, 0)[0])


def gen_shared(rng, tier):
    quick = tier == 'quick'
    for name, spec, targets in shared_templates():
        ys = [shared_yields(spec, t) for t in targets]
        # two calls: all interleavings (sampled when there are many)
        scheds = list(interleavings([ys[0] + 1, ys[1] + 1])) if (ys[0] + ys[1]) <= 12 else None
        if scheds is None:
            scheds = [rand_interleaving(rng, [ys[0] + 1, ys[1] + 1]) for _ in range(600)]
        cap = 40 if quick else 700
        if len(scheds) > cap:
            scheds = rng.sample(scheds, cap)
        for sc in scheds:
            yield {'mode': 'shared', 'names': [name], 'spec': spec, 'targets': targets[:2], 'schedule': sc}
        # three calls
        if len(targets) >= 3 and sum(ys[:3]) <= (4 if quick else 7):
            scheds = list(interleavings([y + 1 for y in ys[:3]]))
            cap = 30 if quick else 600
            if len(scheds) > cap:
                scheds = rng.sample(scheds, cap)
            for sc in scheds:
                yield {'mode': 'shared', 'names': [name], 'spec': spec, 'targets': targets[:3], 'schedule': sc}
        # re-entrant: the call re-enters glom with the same spec object at its j-th yield point
        # (not from inside a __repr__ that is being rendered: reprlib's recursion guard answers '...'
        # for an object whose repr is already running in the same thread, by design)
        nest_js = [] if name == 'sh_match' else [0] if name == 'sh_match3' else range(ys[0])
        for j in nest_js:
            yield {'mode': 'shared', 'names': [name], 'spec': spec, 'targets': [targets[0], targets[1]], 'nest_at': j}
        # free-running
        for _ in range(1 if quick else 4):
            yield {'mode': 'shared', 'names': [name], 'spec': spec, 'targets': targets, 'reps': 15 if quick else 60}


class AccGen:
    """randomised, type-directed generator of specs with a CONTAINER LITERAL IN ARGUMENT POSITION whose
    value the call keeps, mutates and reads.  Choices: the literal as an object heap -- root kind
    (list / dict / set / tuple), per container empty or 1-3 items, items constants / T leaves /
    nested containers to depth 2 / a second reference to a list, dict or set that already exists
    (sharing; a reference to an enclosing list or dict: the literal contains itself); the argument
    position (ARG_POS); the call's program: 1-3 pushes of its own id / name into mutable containers
    of the value it received (reached by index / key; T method on the scope value or a catalogue
    callable), 1-2 yield points between them, the final read."""

    CONSTS = ["'c0'", "'c1'", '7', 'None', "'x'"]
    TLEAVES = ["T['id']", "T['name']"]

    def __init__(self, rng):
        self.rng = rng

    def literal(self, empty_root=None):
        """`empty_root`: a kind -- the literal is the empty container of that kind"""
        r = self.rng
        heap = []
        if empty_root is not None:
            return [[empty_root, []]], 0

        def leaf(allow_t=True):
            return ['leaf', r.choice(self.TLEAVES if allow_t and r.random() < 0.35 else self.CONSTS)]

        def share(open_):
            """an existing list / dict (also an enclosing one: a cycle), or a completed set"""
            cands = [a for a, (k, _) in enumerate(heap) if k in ('list', 'dict') or (k == 'set' and a not in open_)]
            return ['ref', r.choice(cands)] if cands else None

        def container(kind, depth, open_, must_mut=False):
            a = len(heap)
            heap.append([kind, []])
            open_ = open_ | {a}
            n = 0 if (r.random() < 0.45 and not must_mut) else r.randint(1, 3)
            items = []
            if kind in ('set', 'frozenset'):
                toks = r.sample(self.CONSTS + self.TLEAVES[:1], min(n, 3))
                items = [['leaf', t] for t in toks]
            else:
                for i in range(n):
                    x = r.random()
                    if must_mut and i == 0:
                        v = ['ref', container(r.choice(['list', 'dict', 'set']), depth + 1, open_)]
                    elif x < 0.15:
                        v = share(open_) or leaf()
                    elif x < 0.5 and depth < 2:
                        v = ['ref', container(r.choice(['list', 'list', 'dict', 'set', 'tuple', 'frozenset']),
                                              depth + 1, open_)]
                    else:
                        v = leaf()
                    if kind == 'dict':
                        items += [['leaf', "'k%d'" % i], v]
                    else:
                        items.append(v)
            heap[a][1] = items
            return a
        kind = r.choice(['list', 'list', 'list', 'dict', 'dict', 'set', 'tuple'])
        root = container(kind, 0, frozenset(), must_mut=(kind == 'tuple'))
        return heap, root

    @staticmethod
    def mutables(heap, root):
        """(python path, model path, kind) of every list / dict / set reachable from the root"""
        out, seen = [], set()

        def walk(a, pp, mp):
            if a in seen or len(pp) > 3:
                return
            seen.add(a)
            kind, items = heap[a]
            if kind in ('list', 'dict', 'set'):
                out.append((pp, mp, kind))
            if kind in ('list', 'tuple'):
                for i, it in enumerate(items):
                    if it[0] == 'ref':
                        walk(it[1], pp + [i], mp + [i])
            elif kind == 'dict':
                for j in range(0, len(items), 2):
                    if items[j + 1][0] == 'ref':
                        import ast
                        walk(items[j + 1][1], pp + [ast.literal_eval(items[j][1])], mp + [j + 1])
        walk(root, [], [])
        return out

    def case(self, pos=None, empty_root=None):
        r = self.rng
        heap, root = self.literal(empty_root)
        muts = self.mutables(heap, root)
        steps = []
        for _ in range(r.randint(1, 3)):
            pp, mp, kind = r.choice(muts)
            steps.append(['push', pp, mp, r.choice(['id', 'id', 'name']), r.choice(['tmethod', 'callable']), kind])
        ny = r.randint(1, 2)
        for i in range(ny):
            steps.insert(r.randint(1, len(steps)), ['y', None])
        k = 0
        for st in steps:
            if st[0] == 'y':
                st[1] = k
                k += 1
        pos = pos or r.choice(ARG_POS)
        return 'acc_' + pos, ['accum', {'heap': heap, 'root': root, 'pos': pos, 'steps': steps}], ny


def gen_accum(rng, tier):
    """ONE spec object with a container literal in argument position, used by several calls: threads
    interleaved at the yield points (sampled interleavings, among them the strictly alternating one
    and `one call after the other`), a re-entrant call with the same spec object from a yield point,
    free-running threads; the same target twice as well"""
    quick = tier == 'quick'
    TA, TB, TC = D(id='A', name='alpha'), D(id='B', name='beta'), D(id='C', name='gamma')
    g = AccGen(rng)
    poss = [p for p in ARG_POS if not (SKIP_KNOWN and p == 'vars')]
    for rep in range(78 if quick else 1300):
        # every position meets the empty list, the empty dict and the empty set; then random literals
        rnd = rep // len(poss)
        name, spec, ny = g.case(pos=poss[rep % len(poss)], empty_root=['list', 'dict', 'set'][rnd] if rnd < 3 else None)
        targets = [TA, TB] if rng.random() < 0.8 else [TA, TA]
        alt = [i % 2 for i in range(2 * (ny + 1))]
        scheds = [alt, sorted(alt)]
        allsc = list(interleavings([ny + 1, ny + 1]))
        scheds += rng.sample(allsc, 2 if quick else min(len(allsc), 8))
        seen = []
        for sc in scheds:
            if sc not in seen:
                seen.append(sc)
                yield {'mode': 'shared', 'names': [name], 'spec': spec, 'targets': targets, 'schedule': sc}
        if not quick or rep % 3 == 0:
            sc = rand_interleaving(rng, [ny + 1] * 3)
            yield {'mode': 'shared', 'names': [name], 'spec': spec, 'targets': [TA, TB, TC], 'schedule': sc}
        for j in ([rng.randrange(ny)] if quick else range(ny)):
            yield {'mode': 'shared', 'names': [name], 'spec': spec, 'targets': targets, 'nest_at': j}
        if not quick or rep % 6 == 0:
            yield {'mode': 'shared', 'names': [name], 'spec': spec, 'targets': [TA, TB, TC], 'reps': 8 if quick else 40}


class ReentGen:
    """randomised, type-directed generator of outer calls that re-enter glom with access to the
    running scope.  Choices: the re-entry point (custom glomit spec / plain callable given S), the
    way the scope is handed over (HOWS), the inner outcome (value / failure that is caught /
    failure that propagates; the inner spec may read the user's scope variable, may re-enter
    itself), what the re-entering spec evaluates afterwards as a child of the running scope
    (nothing / a spec that succeeds / one that fails / another re-entry), and what surrounds it
    (dict value with a sibling, tuple chain with later steps, Coalesce alternative, Spec wrapper;
    siblings, later steps and alternatives succeed or fail)."""

    def __init__(self, rng, u):
        self.rng, self.u, self.nid = rng, u, 0
        self.ku = 'k%s' % u
        self.target = D(a=D(b=D(c=1, d=2), e=5), o=D(), **{self.ku: D(z=7)})
        self.inner_target = D(p=D(q=3), io=1, **{'i' + self.ku: D(z=8)})

    def obs(self):
        """what a handler does with the exception it sees: render it (0-2 ways), and let it go on as
        it is / as a copy / keep it for a later look"""
        r = self.rng
        x = r.random()
        renders = [] if x < 0.25 else [r.choice(RENDERS)] if x < 0.75 else [r.choice(RENDERS), r.choice(RENDERS)]
        return {'render': renders, 'prop': r.choice(['raise'] * 5 + ['copy', 'keep', 'keep'])}

    def ok_spec(self):
        r = self.rng
        return r.choice([['path', 'a.b.c'], ['path', self.ku + '.z'], ['T', [['[', 'a'], ['[', 'e']]],
                         ['tuple', [['path', 'a.b'], ['y', 0], ['path', 'd']]], ['val', 'lit'],
                         ['coalesce', [['path', 'a.zz'], ['path', 'a.e']]]])

    def fail_spec(self):
        r = self.rng
        return r.choice([['path', 'o.om' + str(self.u)], ['path', 'a.nope'], ['T', [['[', 'o'], ['[', 'missing']]],
                         ['tuple', [['path', 'a.e'], ['boom']]],
                         ['coalesce', [['path', 'zz'], ['path', 'a.zq']]],
                         ['tuple', [['path', 'a.b'], ['matchd', [['c', 'str']]]]],
                         ['tuple', [['path', 'a.e'], ['raiseg', 'bad']]], ['raiseg', 'ok'],
                         ['dict', [['k', ['path', 'a.e']], ['m', ['path', 'a.b.zz']]]]])

    def inner_spec(self, ok, depth, how):
        r = self.rng
        if depth < 2 and r.random() < 0.15:           # the inner call re-enters itself
            node = self.reenter(depth + 1, target=self.inner_target_spec_ok, inner=True)
            return ['tuple', [['T', []], node] + ([] if ok else [['path', 'nope.' + self.ku]])]
        if ok:
            opts = [['path', 'p.q'], ['T', [['[', 'io']]], ['tuple', [['path', 'p'], ['y', 7], ['path', 'q']]],
                    ['path', 'i' + self.ku + '.z'], ['coalesce', [['path', 'nope'], ['path', 'io']]]]
            if how != 'none':
                opts.append(['tuple', [['sget', 'uv'], ['y', 7]]])
            return r.choice(opts)
        return r.choice([['path', 'p.nope'], ['path', 'inner-missing'], ['tuple', [['path', 'p'], ['boom']]],
                         ['coalesce', [['path', 'zz'], ['tuple', [['path', 'p'], ['path', 'x.' + self.ku]]]]],
                         ['tuple', [['path', 'p'], ['matchd', [['q', 'str']]]]],
                         ['tuple', [['path', 'p'], ['raiseg', 'ok']]], ['raiseg', 'bad'],
                         ['T', [['[', 'p'], ['[', 'zz']]]])

    inner_target_spec_ok = None

    def reenter(self, depth, target=None, inner=False):
        r = self.rng
        self.nid += 1
        nid = self.nid
        point = r.choice(['glomit', 'glomit', 'callable'])
        how = r.choice(HOWS)
        ok = r.random() < 0.35
        catch = ok or r.random() < 0.75
        d = {'point': point, 'how': how, 'catch': catch, 'obs': self.obs(),
             'inner': {'target': self.inner_target, 'spec': self.inner_spec(ok, depth, how)}}
        if point == 'glomit':
            x = r.random()
            if inner:                                  # evaluated against the inner target
                d['after'] = None if x < 0.5 else r.choice([['path', 'p.q'], ['path', 'p.gone']])
            elif x < 0.2:
                d['after'] = None
            elif x < 0.4:
                d['after'] = self.ok_spec()
            elif x < 0.85 or depth >= 2:
                d['after'] = self.fail_spec()
            else:
                d['after'] = self.reenter(depth + 1)
        return ['reenter', nid, d]

    def wrap(self, node):
        r = self.rng
        k = r.choice(['dict', 'tuple', 'coalesce', 'spec', 'dict', 'tuple', 'coalesce', 'probe', 'probe'])
        if k == 'probe':                               # an observation point further up
            self.nid += 1
            return ['probe', self.nid, self.obs(), node]
        sib = self.ok_spec() if r.random() < 0.5 else self.fail_spec()
        if k == 'dict':
            items = [['x', node], ['s', sib]]
            if r.random() < 0.4:
                items.reverse()
            return ['dict', items]
        if k == 'tuple':
            # (a first link that keeps the target; the Coalesce leaves a failed branch behind it)
            steps = ([r.choice([['T', []], ['coalesce', [['path', 'a.zz'], ['T', []]]]])] if r.random() < 0.4 else []) + [node]
            x = r.random()
            if x < 0.3:
                steps.append(['y', 1])
            elif x < 0.6:                              # fails in a later chain step
                steps.append(r.choice([['path', 'later.nope'], ['boom'], ['matchd', [['zz', 'int']]]]))
            if r.random() < 0.25:                      # a later callable looks at the errors that were kept
                steps.insert(r.randint(1, len(steps)), ['late', 9])
            return ['tuple', steps]
        if k == 'coalesce':
            alts = [node, sib]
            if r.random() < 0.3:
                alts.reverse()
            return ['coalesce', alts] + ([] if r.random() < 0.7 else ['dflt'])
        return ['spec', node]

    def case(self):
        r = self.rng
        node = self.reenter(1)
        for _ in range(r.choice([0, 1, 1, 2, 2, 3])):
            node = self.wrap(node)
        call = {'target': self.target, 'spec': node}
        if r.random() < 0.6:
            call['scope'] = {'uv': 'outer-var-%s' % self.u}
        return call


def expressible(call):
    try:
        RSpecOf().conv(call['spec'], dec(call['target']), call_kw(call), True)
        return True
    except NotExpressible:
        return False


def gen_reent(rng, tier, fresh):
    quick = tier == 'quick'
    for _ in range(420 if quick else 9000):
        yield {'mode': 'reent', 'calls': [ReentGen(rng, fresh()).case()], 'names': ['reent']}
    # ... of which the Lean model of the error bookkeeping can express the outer call (its trace
    # skeleton is compared with the implementation's)
    for _ in range(150 if quick else 3000):
        for _try in range(40):
            call = ReentGen(rng, fresh()).case()
            if expressible(call):
                yield {'mode': 'reent', 'calls': [call], 'names': ['reent_modelled']}
                break


def rand_interleaving(rng, segs):
    seq = [i for i, k in enumerate(segs) for _ in range(k)]
    rng.shuffle(seq)
    return seq


def interleavings(segs):
    """all sequences over thread ids with segs[i] occurrences of i"""
    counts = list(segs)
    n = sum(counts)
    cur = []

    def rec():
        if len(cur) == n:
            yield list(cur)
            return
        for i in range(len(counts)):
            if counts[i]:
                counts[i] -= 1
                cur.append(i)
                yield from rec()
                cur.pop()
                counts[i] += 1
    return rec()


def generate(rng, tier, scale, **focus):
    quick = tier == 'quick'
    uniq = [0]

    def fresh():
        uniq[0] += 1
        return uniq[0]
    names = [t[0] for t in templates(0)]
    # --- enumerated interleavings of pairs
    pairs = list(itertools.combinations_with_replacement(range(len(names)), 2))
    rng.shuffle(pairs)
    budget = (1200 if quick else 22000) * scale
    made = 0
    for (i, j) in pairs:
        a = templates(fresh())[i]
        b = templates(fresh())[j]
        segs = [a[2] + 1, b[2] + 1]
        scheds = list(interleavings(segs))
        if quick and len(scheds) > 12:             # (many pairs of templates rather than many schedules of few pairs)
            scheds = rng.sample(scheds, 12)
        for s in scheds:
            yield {'mode': 'sched', 'calls': [a[1], b[1]], 'schedule': s, 'names': [a[0], b[0]]}
            made += 1
        if made >= budget:
            break
    # --- all interleavings of one full-size pair (4 yield points each: 252 schedules)
    a = templates(fresh())[names.index('quad4')]
    b = templates(fresh())[names.index('quad4')]
    for s in interleavings([5, 5]):
        yield {'mode': 'sched', 'calls': [a[1], b[1]], 'schedule': s, 'names': ['quad4', 'quad4']}
    # --- all interleavings of a call that asks the registry with raise_exc=False and one that iterates the same type
    a = templates(fresh())[names.index('ask_iter2')]
    b = templates(fresh())[names.index('fail_iter2')]
    for s in interleavings([3, 3]):
        yield {'mode': 'sched', 'calls': [a[1], b[1]], 'schedule': s, 'names': ['ask_iter2', 'fail_iter2']}
    # --- the calls go through ONE Glommer instance (its own registry and handler memo), concurrently
    for _ in range(8 if quick else 150):
        cs = [templates(fresh())[rng.randrange(len(names))] for _ in range(2)]
        calls = [dict(c[1], via='glommer') for c in cs]
        scheds = list(interleavings([c[2] + 1 for c in cs]))
        for s in (rng.sample(scheds, 3) if len(scheds) > 3 else scheds):
            yield {'mode': 'sched', 'calls': calls, 'schedule': s, 'names': [c[0] + '@glommer' for c in cs]}
    for _ in range(2 if quick else 20):
        cs = [templates(fresh() if rng.random() < 0.5 else 1)[rng.randrange(len(names))] for _ in range(3)]
        yield {'mode': 'free', 'calls': [dict(c[1], via='glommer') for c in cs], 'names': [c[0] + '@glommer' for c in cs],
               'reps': 15 if quick else 60}
    # --- triples
    triples = list(itertools.combinations(range(len(names)), 3))
    rng.shuffle(triples)
    made = 0
    tb = (300 if quick else 14000) * scale
    for tr in triples:
        cs = [templates(fresh())[x] for x in tr]
        segs = [c[2] + 1 for c in cs]
        if sum(segs) > (7 if quick else 10):
            continue
        scheds = list(interleavings(segs))
        if quick and len(scheds) > 30:
            scheds = rng.sample(scheds, 30)
        for s in scheds:
            yield {'mode': 'sched', 'calls': [c[1] for c in cs], 'schedule': s, 'names': [c[0] for c in cs]}
            made += 1
        if made >= tb:
            break
    # --- free-running
    for r in range((6 if quick else 60) * scale):
        k = rng.choice([2, 3, 4])
        cs = [templates(fresh() if rng.random() < 0.5 else 1)[rng.randrange(len(names))] for _ in range(k)]
        yield {'mode': 'free', 'calls': [c[1] for c in cs], 'names': [c[0] for c in cs], 'reps': 15 if quick else 60}
    # --- ONE spec object shared by the calls
    yield from gen_shared(rng, tier)
    # --- ... with a container literal in argument position whose value the calls mutate and read
    yield from gen_accum(rng, tier)
    # --- nestings
    for rep in range(1 if quick else 5):
        for name, call in nested_templates(fresh()):
            yield {'mode': 'nested', 'calls': [call], 'names': [name]}
    # --- ... whose callables render / copy / keep the error of the inner call before it goes on
    counter = [0]
    for rep in range(4 if quick else 60):
        for name, call in nested_templates(fresh()):
            yield {'mode': 'nested', 'calls': [dict(call, spec=with_obs(rng, call['spec'], counter))], 'names': [name + '_obs']}
    # --- re-entrant calls made with access to the running scope
    yield from gen_reent(rng, tier, fresh)
    # --- re-entrant calls made from a __repr__ while the outer call's error trace is rendered
    if not SKIP_KNOWN:
        yield from gen_repr(rng, tier)
    # --- ... inside scheduled threads
    for _ in range(12 if quick else 150):
        call = ReentGen(rng, fresh()).case()
        other = templates(fresh())[rng.randrange(len(names))]
        ny = count_user_events(run_alone(call, 0)[0])
        scheds = list(interleavings([ny + 1, other[2] + 1]))
        for s in (rng.sample(scheds, 3) if len(scheds) > 3 else scheds):
            yield {'mode': 'sched', 'calls': [call, other[1]], 'schedule': s, 'names': ['reent', other[0]]}
    # --- nestings inside scheduled threads
    nts = nested_templates(fresh())
    for name, call in (nts[:4] + nts[6:8]) if quick else nts:
        other = templates(fresh())[rng.randrange(len(names))]
        ny = count_user_events(run_alone(call, 0)[0])       # nested callables may run once per item
        segs = [ny + 1, other[2] + 1]
        scheds = list(interleavings(segs))
        if len(scheds) > (10 if quick else 120):
            scheds = rng.sample(scheds, 10 if quick else 120)
        for s in scheds:
            yield {'mode': 'sched', 'calls': [call, other[1]], 'schedule': s, 'names': [name, other[0]]}


def count_user_events(evs):
    n = 0
    for e in evs:
        if e[0] == 'user':
            n += 1
        elif e[0] == 'nested':
            n += count_user_events(e[1])
    return n


def count_yields(sj):
    """yield points a spec passes when evaluated (templates are written so that every `y` runs once,
    except behind a failing step; used only to size schedules, verified against the alone run)"""
    n = 0
    if isinstance(sj, list):
        if sj and sj[0] == 'y':
            return 1
        for x in sj:
            n += count_yields(x)
    elif isinstance(sj, dict):
        for v in sj.values():
            n += count_yields(v)
    return n


def corpus():
    p = os.path.join(os.path.dirname(os.path.dirname(os.path.dirname(os.path.abspath(__file__)))),
                     'corpus', 'C20.jsonl')
    out = []
    if os.path.exists(p):
        for line in open(p):
            if line.strip():
                out.append(json.loads(line))
    return out


def key(case):
    return {k: case.get(k) for k in ('mode', 'calls', 'spec', 'targets', 'nest_at', 'schedule', 'reps', 'repr')}


def interleaved(schedule):
    """does some call run, get suspended while another call runs, and run again?"""
    seen_done = set()
    prev = None
    for t in schedule or []:
        if t != prev:
            if t in seen_done:
                return True
            if prev is not None:
                seen_done.add(prev)
        prev = t
    return False


def nontrivial(case, verdict):
    if case['mode'] in ('nested', 'free', 'reent', 'repr'):
        return True
    if case['mode'] == 'shared':
        if case['spec'][0] == 'accum' and len(case['targets']) >= 2:
            return True             # also one call after the other: the later call uses the spec object the earlier one used
        return 'nest_at' in case or case.get('schedule') is None or interleaved(case['schedule'])
    if len(case['calls']) >= 2 and interleaved(case.get('schedule')):
        return True
    return False


def classify(case, verdict):
    """known findings (KNOWN_FINDINGS.txt): genuine violations that are recorded, not repaired"""
    why = (verdict or {}).get('why', '')
    if case.get('mode') == 'shared' and case['spec'][0] == 'accum' and case['spec'][1].get('pos') == 'vars' \
            and ('shared argument' in why or "differs from its outcome alone" in why
                 or 'the spec object the calls share is not what it was' in why):
        # (the last one: both calls push the SAME item into a dict / set default -- e.g. the same target twice -- so
        # every read equals the read alone, and the persisting default shows only in the spec object itself)
        return 'vars_mutable_default_persists'
    if case.get('mode') == 'repr' and case['repr'].get('on') == 'self':
        outs = (case.get('impl') or {}).get('outs') or []
        alone = [t.get('alone') for t in case.get('threads') or []]
        # only the inner call differs, and it differs by showing `...` for the object whose repr is running
        if len(outs) == 2 and len(alone) == 2 and outs[0] == alone[0] and outs[1] != alone[1] \
                and 'err' in outs[1] and ': ...' in outs[1]['err'][1]:
            return 'reentry_from_repr_during_render'
    return None


def focus(disagreements, facts_changed):
    return {}


def simpler_obs(obs):
    """what a handler does with the exception it sees, with one simplification"""
    if not obs:
        return
    if obs.get('prop', 'raise') != 'raise':
        yield dict(obs, prop='raise')
    r = obs.get('render', [])
    for i in range(len(r)):
        yield dict(obs, render=r[:i] + r[i + 1:])
    for i, h in enumerate(r):
        if h != 'str':
            yield dict(obs, render=r[:i] + ['str'] + r[i + 1:])


def shrink_spec(sj):
    """specs with one local simplification (a wrapper replaced by one of its children, a chain step
    or dict item or alternative dropped, the parts of a re-entry simplified), at any position"""
    if not isinstance(sj, list) or not sj:
        return
    k = sj[0]
    if k in ('dict',):
        for key, v in sj[1]:
            yield v
        if len(sj[1]) > 1:
            for i in range(len(sj[1])):
                yield [k, sj[1][:i] + sj[1][i + 1:]] + sj[2:]
        for i, (key, v) in enumerate(sj[1]):
            for v2 in shrink_spec(v):
                yield [k, sj[1][:i] + [[key, v2]] + sj[1][i + 1:]] + sj[2:]
    elif k in ('tuple', 'coalesce'):
        for v in sj[1]:
            yield v
        if len(sj[1]) > 1:
            for i in range(len(sj[1])):
                yield [k, sj[1][:i] + sj[1][i + 1:]] + sj[2:]
        if len(sj) > 2:
            yield sj[:2]
        for i, v in enumerate(sj[1]):
            for v2 in shrink_spec(v):
                yield [k, sj[1][:i] + [v2] + sj[1][i + 1:]] + sj[2:]
    elif k == 'spec':
        yield sj[1]
        for v2 in shrink_spec(sj[1]):
            yield [k, v2]
    elif k == 'probe':
        yield sj[3]
        for o2 in simpler_obs(sj[2]):
            yield [k, sj[1], o2, sj[3]]
        for v2 in shrink_spec(sj[3]):
            yield [k, sj[1], sj[2], v2]
    elif k in ('nested', 'specglom'):
        call = sj[2]
        for o2 in simpler_obs(call.get('obs')):
            yield [k, sj[1], dict(call, obs=o2)]
        for v2 in shrink_spec(call['spec']):
            yield [k, sj[1], dict(call, spec=v2)]
    elif k == 'reenter':
        d = sj[2]
        for o2 in simpler_obs(d.get('obs')):
            yield [k, sj[1], dict(d, obs=o2)]
        if d.get('after') is not None:
            for a2 in ([['path', 'o.om']] if d['after'] != ['path', 'o.om'] else []) + list(shrink_spec(d['after'])):
                yield [k, sj[1], dict(d, after=a2)]
        for simple in (['path', 'p.nope'], ['path', 'p.q']):
            if d['inner']['spec'] != simple and d['inner']['spec'][0] != 'path':
                yield [k, sj[1], dict(d, inner=dict(d['inner'], spec=simple))]
        for i2 in shrink_spec(d['inner']['spec']):
            yield [k, sj[1], dict(d, inner=dict(d['inner'], spec=i2))]


def shrink(case):
    base = {k: v for k, v in case.items() if not k.startswith('impl') and k not in ('threads', 'errhist', 'rspec')}
    if case['mode'] == 'nested':
        call = case['calls'][0]
        for sp in shrink_spec(call['spec']):
            if nested_ids(sp, []):                 # still a nesting
                yield dict(base, calls=[dict(call, spec=sp)])
        return
    if case['mode'] == 'reent':
        call = case['calls'][0]
        if call.get('scope'):
            yield dict(base, calls=[{k: v for k, v in call.items() if k != 'scope'}])
        for sp in shrink_spec(call['spec']):
            if nested_ids(sp, []):                 # still a re-entry
                yield dict(base, calls=[dict(call, spec=sp)])
        return
    if case['mode'] == 'shared':
        base.pop('argsys', None)
        n = len(case['targets'])
        if n > 2 and case.get('schedule') is not None:
            for i in range(n):
                c = dict(base)
                c['targets'] = case['targets'][:i] + case['targets'][i + 1:]
                c['schedule'] = [t - (1 if t > i else 0) for t in case['schedule'] if t != i]
                yield c
        if n > 2 and case.get('schedule') is None and 'nest_at' not in case:
            yield dict(base, targets=case['targets'][:2])
        if case['spec'][0] == 'accum':
            d = case['spec'][1]
            if case.get('schedule') is not None and case['schedule'] != sorted(case['schedule']):
                yield dict(base, schedule=sorted(case['schedule']))          # one call after the other
            if case.get('schedule') is None and 'nest_at' not in case:       # free-running -> one after the other
                ny = sum(1 for st in d['steps'] if st[0] == 'y')
                yield dict(base, schedule=sorted(list(range(n)) * (ny + 1)))
            if d['pos'] != 'sset':
                yield dict(base, spec=['accum', dict(d, pos='sset')], names=['acc_sset'])
            kind = d['heap'][d['root']][0]
            if len(d['heap']) > 1 and kind in ('list', 'dict', 'set'):       # the literal: its root alone, empty
                steps = [st if st[0] == 'y' else ['push', [], [], st[3], st[4], kind] for st in d['steps']]
                yield dict(base, spec=['accum', dict(d, heap=[[kind, []]], root=0, steps=steps)])
            pushes = [i for i, st in enumerate(d['steps']) if st[0] == 'push']
            if len(pushes) > 1:
                for i in pushes:
                    yield dict(base, spec=['accum', dict(d, steps=d['steps'][:i] + d['steps'][i + 1:])])
            for i, st in enumerate(d['steps']):
                if st[0] == 'push' and (st[3] != 'id' or st[4] != 'tmethod'):
                    yield dict(base, spec=['accum', dict(d, steps=d['steps'][:i] + [st[:3] + ['id', 'tmethod', st[5]]]
                                                          + d['steps'][i + 1:])])
        return
    n = len(case['calls'])
    if n > 1:
        for i in range(n):
            c = dict(base)
            c['calls'] = case['calls'][:i] + case['calls'][i + 1:]
            if case.get('names'):
                c['names'] = case['names'][:i] + case['names'][i + 1:]
            if case.get('schedule') is not None:
                c['schedule'] = [t - (1 if t > i else 0) for t in case['schedule'] if t != i]
            yield c
    if case.get('schedule') is not None:
        # the sequential schedule
        s = sorted(case['schedule'])
        if s != case['schedule']:
            c = dict(base)
            c['schedule'] = s
            yield c
