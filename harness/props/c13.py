"""C13 — handler choice by nearest registered type: generators, implementation runner, shrinker.

A case is  {"classes": [class spec…], "kinds": [registry kind…], "actions": [action…]}.
`run_impl` builds the classes with `types.new_class`, computes the hierarchy tables
(`__mro__`, `isinstance`, `issubclass`, auto-discovery results) with the real interpreter, creates
the registries (the module-level default registry is *replaced by a deep copy* for the duration of
the case and restored afterwards), wraps each registry's `get_handler` with a recorder and replays
the actions through `register` / `register_op` / `get_handler` / real `glom` / `assign` /
`delete` calls.
"""
import copy
import itertools
import json
import os
import types as _types
from abc import ABCMeta
from collections import OrderedDict

PROP = 'C13'
LEAN_MODULES = ['Glom.Props.C13']
FACT_FILES = ['C13Facts']
READY = True
MANIFEST = dict(
    text="Lean 4 theorems about a literal model of TargetRegistry (exact table, ordered type tree with the "
         "re-parenting insertion loop of _register_fuzzy_type, memo, auto-discovery map, register / "
         "register_op / get_handler / _get_matching_types / _get_closest_type, Glommer construction). "
         "issubclass / isinstance are ABSTRACT relations (tables), not derived from the MRO, so ABC.register, "
         "__subclasshook__ and __instancecheck__ duck types are ordinary instances; hypotheses are split: "
         "SubFacts (issubclass transitive and antisymmetric, isinstance closed under it; no reflexivity - glom's "
         "_AbstractIterable is not its own subclass) and MroFacts (instances of every MRO class; linearisation "
         "monotone). Forest: for EVERY insertion order the coded insertion algorithm keeps child-subclass-of-"
         "parent and siblings-incomparable at every level and holds exactly the inserted types "
         "(c13_forest_invariant, transitivity only; one register() = one insertion per touched op, "
         "c13_register_inserts); lookup through the forest is a type the set-based reference allows and a "
         "minimal matching one (c13_forest_lookup, c13_forest_lookup_minimal, SubFacts only); two insertion "
         "orders give the same minimal candidates and the same answer when a minimal match is in the MRO or is "
         "unique (c13_forest_order_independent; counter-example: two unrelated ABCs with a common virtual "
         "subclass). Histories: for every hierarchy with SubFacts, every set of registries and every history of "
         "register / register_op calls with lookups interleaved anywhere (induction over the operation list, no "
         "bound) each registry keeps the tree invariants, the memo holds only current answers and every lookup "
         "returns the handler of an allowed type of the memo-free reference semantics (c13_invariants, "
         "c13_model_checks - no MRO fact needed); corollaries c13_exact_wins, c13_nearest(_base), "
         "c13_never_less_specific, c13_order_independent_chain, c13_lookup_pure, c13_immediate, c13_isolation, "
         "c13_default_glommer; c13_nearest_nominal needs mro_lin and c13_covers_subclasses mro_inst (counter-"
         "examples: class T(V, A) with V.register(A); a metaclass refusing real subclasses). exact=True: writes no "
         "tree (c13_exact_keeps_trees), an exact-only type serves nobody else (c13_exact_only_never_serves), "
         "covering types = those with some non-exact registration (c13_cover_characterisation), the same type "
         "again with exact=True keeps covering and its new handler serves the subclasses "
         "(c13_exact_reregistration), non-exact after exact inherits the handler and starts covering "
         "(c13_fuzzy_after_exact). Builtin subclasses: probe subclasses of dict/list/tuple/str/object (with "
         "__dict__ / __slots__) built at extraction time - the model's module registry resolves every probe and "
         "base for every op exactly as a copy of the real one answered, and every probe is served like its base "
         "(obj-style keys for a __dict__ instance whose base has no keys handler; str subclasses are iterable) "
         "(c13_builtin_subclasses, decide +kernel on regenerated facts). Re-registration (63b9f8a): the type keeps "
         "its subtree and moves to the end of its level (c13_reregistration_moves_to_end; the insertion as it was, "
         "regFuzzyOld, nested the type under itself one level per re-registration: c13_reregistration_nests, F42; "
         "fact c13FuzzyReregisterMoves; stream of 1100-1500 re-registrations then a lookup of an unregistered "
         "subclass). An explicitly registered False is kept by later registrations that do not name the op and "
         "serves the subclasses as the nearest registration (c13_false_is_a_registration; False-handler stream). Answers are compared IN FULL: a lookup "
         "yields answerOf(un-memoised handler, raise_exc) - UnregisteredTarget exactly when raise_exc and a returned "
         "False exactly when not - whatever the memo holds (c13_answer_in_full, c13_lookup_pure on full answers; "
         "counter-example getHandlerHitReturns = the code before 8b51f6e); ties among incomparable virtual matches "
         "are broken by pre-order of the forest (c13_tie_break_first_candidate; not 'first registered', example), "
         "and since 165f0ee register_op walks the known types in registration order, so the outcome is a function "
         "of the history (runD, c13_outcome_function_of_history, c13_runD_checks; counter-example: two orders of "
         "the former set). Failed lookups and rejected calls: "
         "c13_memo_policy_irrelevant, c13_registration_forgets_lookups, c13_immediate_op, "
         "c13_rejected_register_noop / _op_noop / c13_rejected_history. Per-run facts obligation by `decide` on the "
         "registration sequences, decision shapes (path-sensitive effect analysis of register / register_op / "
         "get_handler that follows private helpers: no write before a raise, memo reset after the last table "
         "write on every returning path, the failed-lookup raise precedes the memo store; _get_closest_type as a "
         "symbolic summary modulo local renaming / lambda-vs-def / statement order), builtin hierarchy, and the "
         "stated meaning of glom's duck types and builtin auto-discovery functions on the builtin types (duckOK, "
         "autoOK), and the extracted registration sequences build the registries of the pinned ones (setupOK; the "
         "reference starts from pinnedSetup, the model from the extracted sequences); model tied to the code by differential execution of real register / get_handler / glom / "
         "assign / delete calls against the compiled Lean driver (full answers, invoked handlers and final tree "
         "shapes compared); every case that runs register_op (explicitly or inside Glommer()) is replayed twice "
         "with its classes at other memory addresses and must give the same answers.",
    note="trusted: Lean kernel + {propext, Classical.choice, Quot.sound}; extractor (extract/facts/c13.py); "
         "harness/driver; CPython's __mro__/isinstance/issubclass taken as tables per case (SubFacts is a "
         "decidable check, proved sufficient for the theorems' hypotheses; hierarchies failing it are skipped, "
         "MRO-inconsistent ones are NOT skipped); the meaning of glom's own duck types (_AbstractIterable: "
         "callable __iter__ and not str/bytes themselves; _ObjStyleKeys: instance __dict__ with keys) and of the "
         "auto-discovery of the builtin ops (iterate: iter iff callable __iter__; get: getattr) is stated by the "
         "harness and the property is evaluated on that reference hierarchy; the auto-discovery functions of "
         "assign/delete are environment parameters (their results per class are read from the implementation; "
         "C11/C12 cover them); the iteration order of the set `known_types` in register_op is an explicit "
         "parameter observed by the harness; values register()/register_op() refuse (not callable and not False; "
         "an auto-discovery function that raises) are encoded as handlers with reserved names; which op / type "
         "the TypeError names is not observed; a Glommer() whose construction itself raises TypeError (it copies "
         "an auto function that refuses a default type) is skipped; an implementation that cannot be imported / "
         "cannot build a registry, a lookup that raises anything but UnregisteredTarget, and a valid "
         "registration that raises are reported as failing inputs.",
    technique='Lean 4 invariant proof over operation lists and over insertion orders + refinement to a set-based '
              'reference semantics + facts obligation by decide (path-sensitive effect analysis, symbolic '
              'summaries, probe subclasses) + differential correspondence',
    ref='DESIGN.md §3 C13')
RULE = ('type-directed: a class hierarchy is drawn from the families chain / diamond / mixin / virtual (ABC '
        'registration, __subclasshook__, __instancecheck__ duck types) / virtual diamond / virtual type below '
        'a real base / MRO-inconsistent virtual subclassing (class T(V, A) with V.register(A)) / builtin '
        'subclasses (dict, list, tuple, OrderedDict, set, str, int) / random DAGs, each '
        'class with or without __dict__ (__slots__) and __iter__, built with types.new_class; 1-3 registries '
        '(module-level default registry [a deep copy swapped in], Glommer(), Glommer(register_default_types='
        'False), TargetRegistry(True/False)) are constructed at random points; 0-8 register() calls (case '
        'classes, builtin and glom duck types; exact in {True, False, omitted}; 0-3 ops with tagged handlers '
        'or False; user ops) and occasional register_op() calls, with 1-3 lookups after every call on this '
        'and the other registries (also of an op nobody registered yet), through get_handler(raise_exc=True/False) or real glom(obj,"x") / '
        'glom(obj,[T]) / glom(obj,"*") / assign / delete; a one-edit stream re-registers one type at every '
        'position of a valid history; a tie stream (2-4 mutually unrelated ABCs / duck types that all match '
        'one plain class, registered in random order, optionally a common supertype last, then register_op(new op) '
        'with an auto function giving every type its own handler, then lookups: the tie is broken by registration '
        'history, never by memory addresses - every case running register_op is replayed with its classes '
        'elsewhere in memory); a False-then-raise stream (raise_exc=False lookup that finds nothing, then the same '
        'lookup raising through get_handler and through real glom, then the registration that provides a handler); '
        'a False-handler stream (a type registered with op=False, re-registered for other ops / with no keyword, '
        'bases and virtual supertypes with real handlers before and after it: the False stays and serves the '
        'subclasses as the nearest registration); an exact-flip stream (the same type two or three times with alternating '
        'exact, with a new handler / False / no keyword, on a type with real or virtual subclasses, a lookup of '
        'every class after every call); a failing-lookup stream (bare registry / op not registered yet / type '
        'without a handler -> the registration that makes the lookup succeed, nothing in between -> the same '
        'lookup -> unrelated registration -> the same lookup); a rejected-registration stream (register() with '
        'one non-callable handler at a random position of the sorted op order, an auto-discovery function that '
        'raises or returns a non-callable [in register() and in register_op(), also for an op whose table a '
        'register() keyword introduced], an instance instead of a type, a non-string op name, a non-callable '
        'auto_func; on types that were / were not looked up before; then lookups of every class, an unrelated '
        'registration, the lookups again), and the same rejected calls sprinkled over the random histories; '
        'thorough also enumerates all subsets and orders of registrations with '
        'exact in {True, False} of 12 fixed hierarchies of <= 4 classes with a lookup of every class after '
        'every registration. non-trivial = the history has a register() call and some lookup is answered '
        'from the exact table or the type tree; distinct = distinct (classes, registries, actions)')
TRUSTED = ['isinstance / issubclass / __mro__ tables of each case are computed by the interpreter and '
           'checked (subOK: transitive, antisymmetric, isinstance upward closed) by the Lean driver; cases failing it are skipped',
           'the stated meaning of glom\'s duck types and of the auto-discovery of get / iterate (harness reference predicates, '
           'Lean obligations duckOK / autoOK on the builtin types)',
           'auto-discovery results of assign / delete per class are read from glom\'s own auto functions (environment of C13)']
ASSUMPTIONS = ['the error class of a rejected call is TypeError; which op / type it names is not compared',
               'register_op iterates a set: its order is observed by the harness and passed to the model']

BUILTIN_NAMES = ['object', 'dict', 'OrderedDict', 'list', 'tuple', 'set', 'frozenset', 'str', 'int']
GLOM_TYPES = ['_AbstractIterable', '_ObjStyleKeys']
OPS = ['get', 'iterate', 'keys', 'assign', 'delete']
USER_OPS = ['uop']
USER_AUTOS = ['auto_none', 'user_const', 'user_iterlike', 'user_bytype']
# auto-discovery functions that make register()/register_op() raise TypeError for some types
BAD_AUTOS = ['user_bad_iter', 'user_raise_slots']
BAD_TAGS = ['!bad', '!bad:0', '!bad:none']        # keyword values register() refuses


# --------------------------------------------------------------------------- classes
class _DuckMeta(type):
    def __instancecheck__(cls, x):
        return bool(cls._duck_pred(x))


def _pred(kind):
    if kind == 'has_dict':
        return lambda x: hasattr(x, '__dict__')
    if kind == 'has_iter':
        return lambda x: callable(getattr(type(x), '__iter__', None))
    if kind.startswith('mark:'):
        m = kind[5:]
        return lambda x: getattr(type(x), m, False) is True
    raise ValueError(kind)


def _cpred(kind):
    if kind == 'iter':
        return lambda C: callable(getattr(C, '__iter__', None))
    if kind.startswith('mark:'):
        m = kind[5:]
        return lambda C: getattr(C, m, False) is True
    raise ValueError(kind)


def base_env():
    from glom import core
    env = {'object': object, 'dict': dict, 'OrderedDict': OrderedDict, 'list': list, 'tuple': tuple,
           'set': set, 'frozenset': frozenset, 'str': str, 'int': int,
           '_AbstractIterable': core._AbstractIterable, '_ObjStyleKeys': core._ObjStyleKeys}
    return env


def build_classes(specs, pad=None):
    """specs -> {name: class}; raises TypeError/RuntimeError for an impossible hierarchy.
    `pad` (a list of small integers, used cyclically): before each class that many throw-away
    classes and byte buffers are allocated and kept alive in env['__junk__'], so that the case's
    classes land at other memory addresses (and hash to other set slots) than without it."""
    env = base_env()
    junk = []
    for k, s in enumerate(specs):
        if pad:
            n = pad[k % len(pad)]
            for j in range(n):
                junk.append(type('J%d_%d' % (k, j), (), {}))
                junk.append(bytearray(176 * (1 + (n + j) % 5)))
        name = s['name']
        if name in env:
            raise TypeError('duplicate class name ' + name)
        bases = tuple(env[b] for b in s['bases'])
        ns = {}
        if s.get('slots'):
            ns['__slots__'] = ()
        if s.get('iter'):
            ns['__iter__'] = lambda self: iter(())
        for m in s.get('marks', []):
            ns[m] = True
        kw = {}
        meta = s.get('meta', 'plain')
        if meta == 'abc':
            kw['metaclass'] = ABCMeta
            if s.get('hook'):
                cp = _cpred(s['hook'])
                ns['__subclasshook__'] = classmethod(
                    lambda cls, C, cp=cp: True if cp(C) else NotImplemented)
        elif meta == 'duck':
            kw['metaclass'] = _DuckMeta
            ns['_duck_pred'] = staticmethod(_pred(s['duck']))
        env[name] = _types.new_class(name, bases, kw, lambda d, ns=ns: d.update(ns))
    for s in specs:
        for v in s.get('virtual', []):
            env[s['name']].register(env[v])
    if junk:
        env['__junk__'] = junk
    return env


def make_instance(cls):
    if cls is type(None):
        return None
    return cls()


def hname(h):
    if h is False:
        return None
    t = getattr(h, 'tag', None)
    if t is not None:
        return t
    n = getattr(h, '__name__', None) or repr(h)
    return getattr(h, '__qualname__', n)


RAN = []


def mk_handler(tag, op):
    def handler(*a):
        RAN.append(tag)
        if op == 'iterate':
            return iter(())
        if op == 'keys':
            return []
        return None
    handler.tag = tag
    return handler


_HANDLERS = {}


def handler_of(tag, op):
    if tag is None:
        return False
    if tag.startswith('!'):
        # a value that is neither False nor callable
        return {'!bad': 'not-callable', '!bad:0': 0, '!bad:none': None}[tag]
    k = (tag, op)
    if k not in _HANDLERS:
        _HANDLERS[k] = mk_handler(tag, op)
    return _HANDLERS[k]


def user_auto(name, op):
    if name == 'auto_none':
        return None
    if name == 'user_const':
        h = handler_of('h:auto:const', op)
        return lambda t: h
    if name == 'user_iterlike':
        h = handler_of('h:auto:iterlike', op)
        return lambda t: h if callable(getattr(t, '__iter__', None)) else False
    if name == 'user_bytype':
        # a handler of its own for every type: which type served a lookup is visible in the answer
        return lambda t: handler_of('h:auto:' + t.__name__, op)
    if name == 'user_bad_iter':
        h = handler_of('h:auto:const', op)
        return lambda t: 'not-callable' if callable(getattr(t, '__iter__', None)) else h
    if name == 'user_raise_slots':
        h = handler_of('h:auto:const', op)

        def f(t):
            if '__slots__' in vars(t):
                raise ValueError('no support for ' + t.__name__)
            return h
        return f
    raise ValueError(name)


HIER_ERRORS = []


def safe_isinstance(x, c):
    """isinstance() as the interpreter answers it; a class whose check *raises* (glom's duck types
    run glom code there) counts as "not an instance" and the error is reported with the tables"""
    try:
        return bool(isinstance(x, c))
    except Exception as e:
        HIER_ERRORS.append('isinstance(<%s>, %s) raised %s' % (type(x).__name__, getattr(c, '__name__', c),
                                                              type(e).__name__))
        return False


def safe_issubclass(c, d):
    try:
        return bool(issubclass(c, d))
    except Exception as e:
        HIER_ERRORS.append('issubclass(%s, %s) raised %s' % (c.__name__, getattr(d, '__name__', d),
                                                             type(e).__name__))
        return False


def hier_tables(env, specs):
    from glom import core, mutation
    del HIER_ERRORS[:]
    classes = []
    for n in BUILTIN_NAMES + GLOM_TYPES + [s['name'] for s in specs]:
        for k in env[n].__mro__:
            if k not in classes:
                classes.append(k)
    names = [c.__name__ for c in classes]
    if len(set(names)) != len(names):
        raise TypeError('class names not unique: %r' % names)
    mro = [[c.__name__, [k.__name__ for k in c.__mro__]] for c in classes]
    sub = [[c.__name__, d.__name__] for c in classes for d in classes if safe_issubclass(c, d)]
    inst = []
    for c in classes:
        x = make_instance(c)
        assert type(x) is c
        for d in classes:
            if safe_isinstance(x, d):
                inst.append([c.__name__, d.__name__])
    fresh = core.TargetRegistry(register_default_types=False)
    autos = {'auto_' + op: f for op, f in fresh._op_auto_map.items()}
    autos['auto_assign'] = mutation._assign_autodiscover
    autos['auto_delete'] = mutation._delete_autodiscover
    for u in USER_AUTOS + BAD_AUTOS:
        f = user_auto(u, 'uop')
        autos[u] = f if f is not None else (lambda t: False)

    def outcome(fn, c):
        # what register()/register_op() would see: a handler, False, or a value they refuse
        try:
            h = fn(c)
        except Exception:
            return '!raise'
        if h is not False and not callable(h):
            return '!bad'
        return hname(h) or 'False'
    auto = [[f, [[c.__name__, outcome(fn, c)] for c in classes]] for f, fn in autos.items()]
    out = {'top': 'object', 'mro': mro, 'inst': inst, 'sub': sub, 'auto': auto, 'universe': names,
           'errors': sorted(set(HIER_ERRORS))}
    # glom's two duck types mean "iterable, but not a string" and "has a __dict__ with keys": what the
    # interpreter answers for them is computed by glom's own code, so it is held against the
    # harness's statement of that meaning; the rows that differ are sent along (`ref_inst` /
    # `ref_sub`) and the checker evaluates the property on the reference hierarchy
    AI, OK = core._AbstractIterable, core._ObjStyleKeys
    keys_like = [k for k in classes if type(k) is type(OK) and k is not object]

    def ref_iter(c):
        return c not in (str, bytes) and callable(getattr(c, '__iter__', None))

    def ref_keys(x):
        return hasattr(x, '__dict__') and hasattr(x.__dict__, 'keys')
    ref_sub = [[c.__name__, d.__name__] for c in classes for d in classes
               if (ref_iter(c) if d is AI else [c.__name__, d.__name__] in sub)]
    sub_set = {(a, b) for a, b in ref_sub}
    ref_inst = []
    for c in classes:
        x = make_instance(c)
        for d in classes:
            if d is AI:
                ok = (c is d) or ref_iter(c)
            elif d in keys_like:
                ok = (c is d) or ref_keys(x)
            else:
                ok = [c.__name__, d.__name__] in inst
            if ok:
                ref_inst.append([c.__name__, d.__name__])
    # isinstance is closed under issubclass (a virtual subclass of an iterable ABC …)
    changed = True
    while changed:
        changed = False
        have = {(a, b) for a, b in ref_inst}
        for a, b in list(have):
            for (b2, e) in sub_set:
                if b2 == b and (a, e) not in have:
                    ref_inst.append([a, e])
                    have.add((a, e))
                    changed = True
    if sorted(ref_inst) != sorted(inst) or sorted(ref_sub) != sorted(sub):
        out['ref_inst'] = ref_inst
        out['ref_sub'] = ref_sub
    # the same for the auto-discovery functions of the two builtin operations (`_register_builtin_ops`):
    # 'iterate' is supported through iter() by every type with a callable __iter__, 'get' through
    # getattr by every type
    ref_auto = []
    for f, rows in auto:
        if f == 'auto_iterate':
            rows = [[c.__name__, 'iter' if callable(getattr(c, '__iter__', None)) else 'False'] for c in classes]
        elif f == 'auto_get':
            rows = [[c.__name__, 'getattr'] for c in classes]
        ref_auto.append([f, rows])
    if ref_auto != auto:
        out['ref_auto'] = ref_auto
    return out


def forest_json(od):
    return [[t.__name__, forest_json(sub)] for t, sub in od.items()]


def _depth(od):
    d, level = 0, [od]
    while level:
        level = [sub for o in level for sub in o.values() if sub]
        d += 1
        if d > 400:
            break
    return d


def trees_json(reg):
    # trees nested deeper than a few hundred levels (see DEEP_REREGISTRATION) are not compared
    if any(_depth(tr) > 300 for tr in reg._op_type_tree.values()):
        return None
    return [[op, forest_json(tr)] for op, tr in reg._op_type_tree.items()]


def known_order(reg):
    # the very expression register_op uses; same elements inserted in the same order give the same
    # set layout, hence the same iteration order
    return [t.__name__ for t in set(sum([list(m.keys()) for m in reg._op_type_map.values()], []))]


def module_orders(reg, n_module_ops):
    maps = list(reg._op_type_map.values())
    out = []
    for j in range(n_module_ops):
        upto = maps[:len(maps) - n_module_ops + j]
        out.append([t.__name__ for t in set(sum([list(m.keys()) for m in upto], []))])
    return out


class Inapplicable(Exception):
    """the case leaves the modelled domain (e.g. Glommer() itself raises TypeError because the
    registry it copies its operations from holds an auto-discovery function that refuses a default
    type)"""


class World:
    """the registries of one case, created by explicit `create` actions (or at first use)"""

    def __init__(self, kinds):
        from glom import core
        self.core = core
        self.kinds = kinds
        self.regs = [None] * len(kinds)
        self.glommers = [None] * len(kinds)
        self.init_trees = [None] * len(kinds)
        self.created_obs = [None] * len(kinds)
        self.rec = []
        self.saved = core._DEFAULT_SCOPE[core.TargetRegistry]
        self.swapped = False

    def reg(self, i):
        core = self.core
        if self.regs[i] is None:
            k = self.kinds[i]
            created = []
            if k == 'module':
                r = copy.deepcopy(self.saved)
                r._type_cache = {}
                core._DEFAULT_SCOPE[core.TargetRegistry] = r
                self.swapped = True
                self.init_trees[i] = trees_json(r)
            elif k.startswith('registry:'):
                r = core.TargetRegistry(register_default_types=(k[-1] == '1'))
                self.init_trees[i] = trees_json(r)
            else:
                try:
                    g = core.Glommer() if k == 'glommer:1' and i % 2 == 0 else \
                        core.Glommer(register_default_types=(k[-1] == '1'))
                except TypeError as e:
                    raise Inapplicable('Glommer() raised TypeError: %s' % e)
                self.glommers[i] = g
                r = g.scope[core.TargetRegistry]
                builtin = set(core.TargetRegistry(register_default_types=False)._op_auto_map)
                copied = [op for op in r._op_auto_map if op not in builtin]
                orders = module_orders(r, len(copied))
                created = [[op, o] for op, o in zip(copied, orders)]
            self.regs[i] = r
            self.created_obs[i] = {'created': created}
            self.instrument(r)
        return self.regs[i]

    def instrument(self, reg):
        orig = reg.get_handler
        rec = self.rec
        core = self.core

        def wrapper(op, obj, path=None, raise_exc=True):
            call = {'op': op, 'ty': type(obj).__name__, 'raise': bool(raise_exc)}
            try:
                h = orig(op, obj, path=path, raise_exc=raise_exc)
            except core.UnregisteredTarget:
                call['ans'] = 'unregistered'
                rec.append(call)
                raise
            except KeyError:
                call['ans'] = 'keyError'
                rec.append(call)
                raise
            except Exception as e:
                # neither a handler nor UnregisteredTarget: e.g. a duck type's isinstance check raised
                call['ans'] = {'error': type(e).__name__}
                rec.append(call)
                raise
            call['ans'] = {'ret': hname(h)}
            rec.append(call)
            return h
        reg.get_handler = wrapper

    def close(self):
        core = self.core
        if self.swapped:
            core._DEFAULT_SCOPE[core.TargetRegistry] = self.saved


def normalise(case):
    """every registry is created by an explicit action before its first use"""
    acts = []
    made = set()
    for a in case['actions']:
        if a['a'] == 'create':
            if a['reg'] in made:
                continue
            made.add(a['reg'])
        elif a['reg'] not in made:
            made.add(a['reg'])
            acts.append({'a': 'create', 'reg': a['reg']})
        acts.append(a)
    for i in range(len(case['kinds'])):
        if i not in made:
            acts.append({'a': 'create', 'reg': i})
    return acts


EMPTY_HIER = {'top': 'object', 'mro': [], 'inst': [], 'sub': [], 'auto': [], 'universe': [], 'errors': []}


def _crashed(out, what, e):
    """glom itself cannot be imported / cannot build a registry: no lookup of the case can be
    answered, which is reported as the implementation's observation (not as a harness error)"""
    out.setdefault('hier', EMPTY_HIER)
    out.setdefault('module_orders', [])
    out['impl'] = {'crash': '%s: %s: %s' % (what, type(e).__name__, str(e)[:200])}
    return out


def _execute(case, actions, env):
    """replay the actions on fresh registries built over the classes of `env`
    -> ('ok', obs, trees, init_trees, module_orders) | ('skip', why) | ('crash', what, exc)"""
    import glom
    from glom import core
    w = World(case['kinds'])
    morders = module_orders(w.saved, 2)
    obs = []
    try:
        for a in actions:
            i = a['reg']
            try:
                reg = w.reg(i)
            except Inapplicable:
                raise
            except Exception as e:
                return ('crash', 'constructing registry %d (%s)' % (i, case['kinds'][i]), e)
            kind = case['kinds'][i]
            del w.rec[:]
            del RAN[:]
            if a['a'] == 'create':
                obs.append(w.created_obs[i])
            elif a['a'] == 'register':
                t = env[a['ty']]
                kw = {op: handler_of(tag, op) for op, tag in a['kw']}
                if a['exact'] or a.get('exact_given'):
                    kw['exact'] = a['exact']
                try:
                    if kind == 'module':
                        glom.register(t, **kw)
                    elif w.glommers[i] is not None:
                        w.glommers[i].register(t, **kw)
                    else:
                        reg.register(t, **kw)
                    obs.append(None)
                except TypeError:
                    obs.append({'raised': 'TypeError'})
                except Exception as e:
                    obs.append({'raised': type(e).__name__})
            elif a['a'] == 'register_op':
                order = known_order(reg)
                if a['auto'] not in USER_AUTOS + BAD_AUTOS:
                    raise ValueError('unknown auto ' + a['auto'])
                f = user_auto(a['auto'], a['op'])
                ob = {'order': order}
                try:
                    if kind == 'module':
                        glom.register_op(a['op'], auto_func=f, exact=a['exact'])
                    else:
                        reg.register_op(a['op'], auto_func=f, exact=a['exact'])
                except TypeError:
                    ob['raised'] = 'TypeError'
                except Exception as e:
                    ob['raised'] = type(e).__name__
                obs.append(ob)
            elif a['a'] == 'bad_call':
                # a call rejected on its arguments alone
                what = a['what']
                try:
                    if what == 'register-instance':
                        x = make_instance(env[a['ty']])
                        kw = {op: handler_of(tag, op) for op, tag in a.get('kw', [])}
                        if kind == 'module':
                            glom.register(x, **kw)
                        elif w.glommers[i] is not None:
                            w.glommers[i].register(x, **kw)
                        else:
                            reg.register(x, **kw)
                    elif what in ('register_op-name', 'register_op-auto'):
                        name = 3 if what == 'register_op-name' else a['op']
                        f = user_auto('user_const', a['op']) if what == 'register_op-name' else 'not-callable'
                        if kind == 'module':
                            glom.register_op(name, auto_func=f)
                        else:
                            reg.register_op(name, auto_func=f)
                    else:
                        raise ValueError(what)
                    obs.append(None)
                except TypeError:
                    obs.append({'raised': 'TypeError'})
                except ValueError:
                    raise
                except Exception as e:
                    obs.append({'raised': type(e).__name__})
            elif a['a'] == 'lookup':
                x = make_instance(env[a['ty']])
                try:
                    reg.get_handler(a['op'], x, raise_exc=a['raise'])
                except Exception:
                    pass           # recorded by the wrapper: unregistered / keyError / error:<class>
                obs.append({'calls': list(w.rec)})
            elif a['a'] == 'glom':
                x = make_instance(env[a['ty']])
                sp = a['spec']
                if kind == 'module':
                    call = lambda spec: glom.glom(x, spec)
                elif w.glommers[i] is not None:
                    call = lambda spec: w.glommers[i].glom(x, spec)
                else:
                    call = lambda spec: glom.glom(x, spec, scope={core.TargetRegistry: reg})
                try:
                    if sp == 'get':
                        call('x')
                    elif sp == 'iterate':
                        call([glom.T])
                    elif sp == 'star':
                        call('*')
                    elif sp == 'assign':
                        call(glom.Assign('x', 1))
                    elif sp == 'delete':
                        call(glom.Delete('x'))
                    else:
                        raise ValueError(sp)
                except ValueError:
                    raise
                except Exception:
                    pass           # what the handler (or its absence) did is not the observation
                obs.append({'calls': list(w.rec), 'ran': list(RAN)})
            else:
                raise ValueError(a['a'])
        trees = [trees_json(r) for r in w.regs]
        init = list(w.init_trees)
    except Inapplicable as e:
        return ('skip', str(e))
    finally:
        w.close()
    return ('ok', obs, trees, init, morders)


def _answers(obs):
    """what the property observes of a run: the answers of the lookups and the handlers that ran"""
    out = []
    for ob in obs:
        if isinstance(ob, dict) and 'calls' in ob:
            out.append([[c['op'], c['ty'], c['ans']] for c in ob['calls']] + [ob.get('ran')])
        elif isinstance(ob, dict) and 'raised' in ob:
            out.append(ob['raised'])
        else:
            out.append(None)
    return out


# how many times a case that runs `register_op` (explicitly, or inside Glommer()) is replayed with its
# classes at other memory addresses: the answers must not depend on where the classes live
LAYOUT_REPLAYS = 2


def _layout_pads(case):
    import zlib
    h = zlib.crc32(json.dumps(key(case), sort_keys=True).encode())
    pads = []
    for r in range(LAYOUT_REPLAYS):
        h = (h * 1103515245 + 12345 + r) & 0x7fffffff
        pads.append([1 + (h >> (3 * k)) % 4 for k in range(5)])
    return pads


def run_impl(case):
    out = {k: v for k, v in case.items() if not k.startswith('impl')}
    out['actions'] = normalise(case)
    try:
        import glom
        from glom import core
        import glom.mutation
        core._DEFAULT_SCOPE[core.TargetRegistry]
        core.TargetRegistry(register_default_types=True)
    except Exception as e:
        return _crashed(out, 'import glom / TargetRegistry()', e)
    specs = case['classes']
    env = build_classes(specs)
    try:
        out['hier'] = hier_tables(env, specs)
    except (AssertionError, ValueError):
        raise
    except Exception as e:
        return _crashed(out, 'auto-discovery / hierarchy of the default types', e)
    res = _execute(case, out['actions'], env)
    if res[0] == 'crash':
        return _crashed(out, res[1], res[2])
    if res[0] == 'skip':
        out['module_orders'] = []
        out['impl'] = {'skip': res[1]}
        return out
    _, obs, trees, init, morders = res
    out['module_orders'] = morders
    out['impl'] = {'obs': obs, 'trees': trees, 'init_trees': init}
    # the outcome has to be a function of the history: replay with the classes elsewhere in memory
    runs_regop = any(a['a'] == 'register_op' for a in out['actions']) or \
        any(k.startswith('glommer') for k in case['kinds'])
    if runs_regop and LAYOUT_REPLAYS:
        base = _answers(obs)
        for pad in _layout_pads(case):
            env2 = build_classes(specs, pad=pad)
            res2 = _execute(case, out['actions'], env2)
            if res2[0] != 'ok':
                continue
            other = _answers(res2[1])
            if other != base:
                idx = next(k for k in range(min(len(base), len(other))) if base[k] != other[k]) \
                    if len(base) == len(other) else -1
                out['impl']['layout'] = {'index': idx, 'first': base[idx] if idx >= 0 else None,
                                         'second': other[idx] if idx >= 0 else None, 'pad': pad}
                break
            if res2[2] != trees and 'layout_trees' not in out['impl']:
                out['impl']['layout_trees'] = {'pad': pad}
    return out


# --------------------------------------------------------------------------- generators
def cls(name, bases, **kw):
    d = {'name': name, 'bases': list(bases)}
    d.update({k: v for k, v in kw.items() if v})
    return d


def h_chain(rng):
    n = rng.randint(2, 4)
    base = rng.choice(['object', 'object', 'dict', 'list', 'tuple', 'OrderedDict', 'str', 'int', 'set'])
    out = []
    prev = base
    for i in range(n):
        out.append(cls('K%d' % i, [prev], slots=rng.random() < 0.4, iter=rng.random() < 0.2))
        prev = 'K%d' % i
    return out


def h_diamond(rng):
    s = rng.random() < 0.4
    return [cls('A', ['object'], slots=s), cls('B', ['A'], slots=s), cls('C', ['A'], slots=s),
            cls('D', rng.choice([['B', 'C'], ['C', 'B']]), slots=s, iter=rng.random() < 0.3)]


def h_mixin(rng):
    s = rng.random() < 0.4
    base = rng.choice(['object', 'dict', 'list'])
    out = [cls('E', [base], slots=s), cls('M', ['object'], slots=s, iter=rng.random() < 0.3),
           cls('X', ['E', 'M'], slots=s), cls('X2', ['X'], slots=s)]
    if rng.random() < 0.5:
        out.insert(2, cls('G', ['object'], slots=s))
        out[3] = cls('X', ['E', 'G', 'M'] if rng.random() < 0.5 else ['G', 'E'], slots=s)
    return out


def h_virtual(rng):
    s = rng.random() < 0.5
    out = [cls('A', ['object'], slots=s), cls('B', ['A'], slots=s, iter=rng.random() < 0.3)]
    out.append(cls('V', ['object'], meta='abc', virtual=[rng.choice(['A', 'B'])]))
    if rng.random() < 0.5:
        out.append(cls('H', ['object'], meta='abc', hook=rng.choice(['iter', 'mark:mk']),
                       slots=True))
        out.append(cls('Q', ['object'], marks=['mk'], slots=s))
    if rng.random() < 0.5:
        out.append(cls('Dk', ['object'], meta='duck', duck=rng.choice(['has_dict', 'has_iter', 'mark:mk'])))
    return out


def h_virtual_diamond(rng):
    s = rng.random() < 0.7
    out = [cls('P', ['object'], slots=s), cls('P2', ['P'], slots=s),
           cls('V1', ['object'], meta='abc'), cls('W', ['object'], meta='abc'),
           cls('V2', ['V1', 'W'], meta='abc', virtual=['P'])]
    return out


def h_virtual_under_base(rng):
    """a virtual type that is itself a subclass of a registered real base"""
    s = rng.random() < 0.7
    return [cls('N', ['object'], slots=s), cls('C', ['object'], slots=s), cls('Y', ['N', 'C'], slots=s),
            cls('VN', ['N'], meta='abc', virtual=['Y'])]


def h_virtual_first(rng):
    """MRO-inconsistent virtual subclassing: a class that lists an ABC *before* a class registered as
    the ABC's virtual subclass (`class T(V, A)`, `V.register(A)`): in `T.__mro__` the virtual
    superclass precedes its subclass"""
    s = rng.random() < 0.5
    out = [cls('A', ['object'], slots=s, iter=rng.random() < 0.2)]
    if rng.random() < 0.5:
        out.append(cls('A2', ['A'], slots=s))
    low = out[-1]['name']
    out.append(cls('V', ['object'], meta='abc', virtual=[rng.choice(['A', low])], slots=True))
    if rng.random() < 0.4:
        out.append(cls('W', ['object'], meta='abc', virtual=[low], slots=True))
    vs = [c['name'] for c in out if c.get('meta')]
    bases = rng.sample(vs, len(vs)) + [low]
    out.append(cls('T', bases, slots=s))
    if rng.random() < 0.5:
        out.append(cls('T2', ['T'], slots=s))
    return out


def h_builtin(rng):
    out = []
    for i, b in enumerate(rng.sample(['dict', 'list', 'tuple', 'OrderedDict', 'set', 'str', 'int'], 3)):
        out.append(cls('S%d' % i, [b], slots=rng.random() < 0.5))
        if rng.random() < 0.5:
            out.append(cls('S%dx' % i, ['S%d' % i], slots=rng.random() < 0.5))
    return out


def h_random(rng):
    n = rng.randint(2, 6)
    for _ in range(20):
        out = []
        for i in range(n):
            pool = ['object'] + [c['name'] for c in out] + (['dict', 'list'] if rng.random() < 0.2 else [])
            k = 1 if rng.random() < 0.6 else 2
            bases = rng.sample(pool, min(k, len(pool)))
            if 'object' in bases and len(bases) > 1:
                bases.remove('object')
            meta = 'plain'
            extra = {}
            if all(b == 'object' for b in bases) and rng.random() < 0.2:
                meta = rng.choice(['abc', 'duck'])
                if meta == 'duck':
                    extra['duck'] = rng.choice(['has_dict', 'has_iter'])
            out.append(cls('R%d' % i, bases, slots=rng.random() < 0.4, iter=rng.random() < 0.2,
                           meta=None if meta == 'plain' else meta, **extra))
        # virtual registrations of plain classes into ABCs
        abcs = [c for c in out if c.get('meta') == 'abc']
        plains = [c['name'] for c in out if not c.get('meta')]
        for a in abcs:
            if plains and rng.random() < 0.7:
                a['virtual'] = [rng.choice(plains)]
        if valid_classes(out):
            return out
    return h_chain(rng)



def coherent(env, specs):
    """isinstance / issubclass are a transitive, antisymmetric relation with isinstance closed
    under it (the Lean side's `subOK`: what the checker theorem needs).  Consistency of the MRO with
    them (`mroOK`) is NOT required: `class T(V, A)` with `V.register(A)` lists the virtual superclass
    before its subclass and is inside the property's family."""
    classes = []
    for n in BUILTIN_NAMES + GLOM_TYPES + [s['name'] for s in specs]:
        for k in env[n].__mro__:
            if k not in classes:
                classes.append(k)
    insts = [(c, make_instance(c)) for c in classes]
    sub = {(c, d): safe_issubclass(c, d) for c in classes for d in classes}
    for c, x in insts:
        for d in classes:
            if sub[c, d] and sub[d, c] and c is not d:
                return False
            idd = safe_isinstance(x, d)
            for e in classes:
                if sub[c, d] and sub[d, e] and not sub[c, e]:
                    return False
                if idd and sub[d, e] and not safe_isinstance(x, e):
                    return False
    return True


def valid_classes(specs):
    try:
        env = build_classes(specs)
        for c in specs:
            make_instance(env[c['name']])
        return coherent(env, specs)
    except (TypeError, RuntimeError):
        return False


def gen_actions(rng, specs, kinds, nreg, regop_rate=0.06):
    names = [c['name'] for c in specs]
    reg_pool = names * 4 + ['object', 'dict', 'list', 'tuple', 'OrderedDict', '_AbstractIterable',
                            '_ObjStyleKeys']
    look_pool = names * 5 + ['dict', 'list', 'OrderedDict', 'str', 'int', 'set', 'tuple', 'object']
    acts = []
    tagn = [0]
    user_op_known = [False] * len(kinds)

    def tag():
        tagn[0] += 1
        return 'h:%d' % tagn[0]

    def lookups(i, k):
        for _ in range(k):
            # an op may be looked up before anybody registered it (the lookup fails; it must not
            # influence what the same lookup answers once the op is registered)
            ops = OPS + (['uop'] if user_op_known[i] or rng.random() < 0.15 else [])
            op = rng.choice(['get', 'get', 'iterate'] + ops)
            t = rng.choice(look_pool)
            m = rng.random()
            if m < 0.45:
                acts.append({'a': 'lookup', 'reg': i, 'op': op, 'ty': t, 'raise': True})
            elif m < 0.6:
                acts.append({'a': 'lookup', 'reg': i, 'op': op, 'ty': t, 'raise': False})
            else:
                spec = op if op in ('get', 'iterate', 'assign', 'delete') else 'star'
                acts.append({'a': 'glom', 'reg': i, 'spec': spec, 'ty': t})

    def pick_reg():
        return 0 if rng.random() < 0.6 else rng.randrange(len(kinds))

    lookups(pick_reg(), rng.randint(0, 2))
    for _ in range(nreg):
        i = pick_reg()
        if rng.random() < 0.15:
            # construct some registry now (a Glommer is built from the module registry of this moment)
            acts.append({'a': 'create', 'reg': rng.randrange(len(kinds))})
        m = rng.random()
        if m < regop_rate:
            op = rng.choice(['uop', 'uop', 'get', 'iterate', 'assign'])
            acts.append({'a': 'register_op', 'reg': i, 'op': op,
                         'auto': rng.choice(USER_AUTOS * 3 + BAD_AUTOS), 'exact': rng.random() < 0.3})
            if op == 'uop':
                user_op_known[i] = True
        elif m < regop_rate + 0.03:
            acts.append(gen_bad_call(rng, i, reg_pool, tag))
        elif m < regop_rate + 0.10:
            # a register() call that must be refused (TypeError) and leave everything as it was
            acts.append({'a': 'register', 'reg': i, 'ty': rng.choice(reg_pool), 'exact': rng.random() < 0.3,
                         'exact_given': rng.random() < 0.5,
                         'kw': gen_bad_kw(rng, OPS + (['uop'] if rng.random() < 0.15 else []), tag)})
        else:
            t = rng.choice(reg_pool)
            nk = rng.choice([0, 1, 1, 1, 2, 3])
            ops = rng.sample(OPS + (['uop'] if rng.random() < 0.15 else []), nk)
            if 'uop' in ops:
                user_op_known[i] = True
            kw = [[op, None if rng.random() < 0.1 else tag()] for op in ops]
            exact = rng.random() < 0.3
            acts.append({'a': 'register', 'reg': i, 'ty': t, 'exact': exact,
                         'exact_given': rng.random() < 0.5, 'kw': kw})
        # lookups at every point, on this and on the other registries
        lookups(i, rng.randint(1, 3))
        if len(kinds) > 1 and rng.random() < 0.7:
            lookups(rng.randrange(len(kinds)), rng.randint(1, 2))
    return acts


def gen_bad_kw(rng, ops_pool, tag):
    """keyword arguments of a register() call that has to be refused: 1-3 ops of which one — at a
    random position of the sorted op order, the order in which register() validates — carries a
    value that is neither False nor callable"""
    ops = rng.sample(ops_pool, min(rng.choice([1, 2, 2, 3, 3]), len(ops_pool)))
    bad = rng.choice(ops)
    return [[op, rng.choice(BAD_TAGS) if op == bad else (None if rng.random() < 0.1 else tag())]
            for op in ops]


def gen_bad_call(rng, i, type_pool, tag):
    """a call refused on its arguments alone: an instance instead of a type, an op name that is no
    string, an auto_func that is not callable"""
    what = rng.choice(['register-instance', 'register-instance', 'register_op-name', 'register_op-auto'])
    if what == 'register-instance':
        ops = rng.sample(OPS, rng.choice([0, 1, 2]))
        return {'a': 'bad_call', 'reg': i, 'what': what, 'ty': rng.choice(type_pool),
                'kw': [[op, tag()] for op in ops]}
    return {'a': 'bad_call', 'reg': i, 'what': what, 'op': rng.choice(['uop', 'get', 'iterate', 'assign'])}


KIND_POOL = ['module', 'registry:1', 'registry:0', 'glommer:1', 'glommer:1', 'glommer:0']


def gen_case(rng, maxreg):
    fam = rng.choice(FAMILIES)
    specs = fam(rng)
    nk = rng.choice([1, 1, 2, 2, 3])
    kinds = []
    for _ in range(nk):
        k = rng.choice(KIND_POOL)
        if k == 'module' and 'module' in kinds:
            k = 'glommer:1'
        kinds.append(k)
    nreg = rng.randint(0, maxreg)
    return {'classes': specs, 'kinds': kinds, 'actions': gen_actions(rng, specs, kinds, nreg)}


# fixed hierarchies (<= 4 classes) for the exhaustive enumeration
SMALL = [
    [cls('A', ['object']), cls('B', ['A']), cls('C', ['B']), cls('D', ['C'])],
    [cls('A', ['object'], slots=True), cls('B', ['A'], slots=True), cls('C', ['B'], slots=True)],
    [cls('A', ['object']), cls('B', ['A']), cls('C', ['A']), cls('D', ['B', 'C'])],
    [cls('A', ['object'], slots=True), cls('B', ['A'], slots=True), cls('C', ['A'], slots=True),
     cls('D', ['C', 'B'], slots=True)],
    [cls('E', ['object']), cls('G', ['object']), cls('X', ['E', 'G']), cls('X2', ['X'])],
    [cls('E', ['dict']), cls('M', ['object'], iter=True), cls('X', ['E', 'M'])],
    [cls('A', ['object'], slots=True), cls('B', ['A'], slots=True),
     cls('V', ['object'], meta='abc', virtual=['A'])],
    [cls('A', ['object']), cls('Dk', ['object'], meta='duck', duck='has_dict'), cls('B', ['A'], iter=True)],
    [cls('S', ['dict']), cls('S2', ['S'], slots=True), cls('L', ['list'])],
    [cls('T', ['tuple'], slots=True), cls('O', ['OrderedDict']), cls('O2', ['O'])],
    [cls('P', ['object'], slots=True), cls('V1', ['object'], meta='abc'),
     cls('W', ['object'], meta='abc'), cls('V2', ['V1', 'W'], meta='abc', virtual=['P'])],
    [cls('A', ['object'], slots=True, iter=True), cls('H', ['object'], meta='abc', hook='iter'),
     cls('B', ['A'], slots=True)],
]


def exhaustive(kinds_cycle=('registry:0', 'registry:1', 'glommer:1', 'module')):
    """all subsets and orders of registrations of the classes of each fixed hierarchy, each with
    exact in {True, False}, a lookup of every class after every registration"""
    n = 0
    for specs in SMALL:
        names = [c['name'] for c in specs]
        for k in range(0, len(names) + 1):
            for seq in itertools.permutations(names, k):
                for exacts in itertools.product([False, True], repeat=k):
                    kind = kinds_cycle[n % len(kinds_cycle)]
                    op = ('get', 'iterate', 'assign', 'keys')[(n // 4) % 4]
                    n += 1
                    acts = []
                    for j, (t, e) in enumerate(zip(seq, exacts)):
                        acts.append({'a': 'register', 'reg': 0, 'ty': t, 'exact': e,
                                     'kw': [[op, 'h:%s' % t]]})
                        for q in names:
                            acts.append({'a': 'lookup', 'reg': 0, 'op': op, 'ty': q, 'raise': True})
                    yield {'classes': specs, 'kinds': [kind], 'actions': acts}


def reregistration_stream(rng, n):
    """one-edit mutations of a valid history: re-register one type (with or without a handler, exact
    or not) at every position, then look every class up"""
    for _ in range(n):
        specs = rng.choice(SMALL + [h_mixin(rng), h_virtual_diamond(rng), h_virtual(rng)])
        if not valid_classes(specs):
            continue
        names = [c['name'] for c in specs]
        kind = rng.choice(['registry:0', 'registry:1', 'glommer:1', 'module', 'glommer:0'])
        op = rng.choice(['get', 'iterate', 'assign', 'delete', 'keys'])
        seq = rng.sample(names, len(names))
        acts = [{'a': 'register', 'reg': 0, 'ty': t, 'exact': False, 'kw': [[op, 'h:%s' % t]]} for t in seq]
        pos = rng.randint(1, len(acts))
        t = rng.choice(names + ['object', 'dict'])
        edit = {'a': 'register', 'reg': 0, 'ty': t, 'exact': rng.random() < 0.3,
                'kw': [] if rng.random() < 0.4 else [[rng.choice([op, 'get', 'iterate']), 'h:re']]}
        acts.insert(pos, edit)
        for q in names:
            m = rng.random()
            if m < 0.6 or op == 'keys':
                acts.append({'a': 'lookup', 'reg': 0, 'op': op, 'ty': q, 'raise': True})
            else:
                acts.append({'a': 'glom', 'reg': 0, 'spec': op, 'ty': q})
        yield {'classes': specs, 'kinds': [kind], 'actions': acts}


def h_virtual_lattice(rng):
    """ABCs with a diamond (a type below two unrelated ones) or a random small DAG, a plain class
    registered as virtual subclass of the lower ones, optionally below a real base class / a mixin"""
    for _ in range(30):
        out = []
        if rng.random() < 0.7:
            top = []
            if rng.random() < 0.3:
                out.append(cls('V0', ['object'], meta='abc'))
                top = ['V0']
            out.append(cls('T1', top or ['object'], meta='abc'))
            out.append(cls('T2', top if rng.random() < 0.5 and top else ['object'], meta='abc'))
            out.append(cls('Bt', rng.choice([['T1', 'T2'], ['T2', 'T1']]), meta='abc'))
            if rng.random() < 0.4:
                out.append(cls('Bt2', ['Bt'], meta='abc'))
            if rng.random() < 0.4:
                out.append(cls('U', ['object'], meta='abc'))
            lower = [c['name'] for c in out if c['name'] in ('Bt', 'Bt2', 'U')]
        else:
            n = rng.randint(3, 5)
            for i in range(n):
                pool = [c['name'] for c in out]
                k = rng.choice([0, 1, 1, 2]) if pool else 0
                bases = rng.sample(pool, min(k, len(pool))) or ['object']
                out.append(cls('V%d' % i, bases, meta='abc'))
            lower = [c['name'] for c in out[1:]] or [out[0]['name']]
        s = rng.random() < 0.7
        extra = []
        if rng.random() < 0.4:
            extra.append(cls('N', ['object'], slots=s))
        if rng.random() < 0.3:
            extra.append(cls('Mx', ['object'], slots=s))
        pb = [c['name'] for c in extra] or ['object']
        extra.append(cls('P', pb, slots=s))
        extra.append(cls('P2', ['P'], slots=s))
        for v in rng.sample(lower, min(len(lower), rng.choice([1, 1, 2]))):
            next(c for c in out if c['name'] == v).setdefault('virtual', []).append(rng.choice(['P', 'P', 'P2']))
        if extra[0]['name'] == 'N' and rng.random() < 0.4:
            # a virtual type below the real base class
            out.append(cls('VN', ['N'], meta='abc', virtual=['P']))
            specs = extra[:1] + out + extra[1:]
        else:
            specs = out + extra
        if valid_classes(specs):
            return specs
    return h_virtual_diamond(rng)


FAMILIES = [h_chain, h_diamond, h_mixin, h_virtual, h_virtual_diamond, h_virtual_under_base,
            h_builtin, h_random, h_random, h_virtual_lattice, h_virtual_first]


def cross_branch_stream(rng, n):
    """registrations of all (virtual) types in a random order, one or two re-registrations at random
    positions, then a lookup of every plain class: the deepest matches sit in different branches"""
    for _ in range(n):
        specs = h_virtual_lattice(rng) if rng.random() < 0.8 else h_virtual_under_base(rng)
        names = [c['name'] for c in specs]
        targets = [c['name'] for c in specs if not c.get('meta')]
        kind = rng.choice(['registry:0', 'registry:0', 'registry:1', 'glommer:1', 'module'])
        op = rng.choice(['get', 'get', 'iterate', 'assign'])
        regs = [t for t in rng.sample(names, len(names))
                if rng.random() < (0.0 if t == 'P2' else 0.15 if t == 'P' else 0.9)]
        acts = [{'a': 'register', 'reg': 0, 'ty': t, 'exact': rng.random() < 0.08,
                 'kw': [[op, 'h:%s' % t]]} for t in regs]
        for _k in range(rng.choice([0, 1, 1, 2])):
            if regs:
                abcs = [t for t in regs if t not in targets]
                t = rng.choice(abcs or regs)
                acts.insert(rng.randint(1, len(acts)),
                            {'a': 'register', 'reg': 0, 'ty': t, 'exact': False,
                             'kw': [[op, 'h:%s' % t]] if rng.random() < 0.7 else []})
        # directed edit: a type with two registered supertypes is registered between them and the
        # first supertype is registered again (it moves behind the second one)
        multi = [c for c in specs if len([b for b in c['bases'] if b != 'object']) >= 2]
        if multi and rng.random() < 0.5:
            x = rng.choice(multi)
            s1, s2 = rng.sample([b for b in x['bases'] if b != 'object'], 2)
            mk = lambda t: {'a': 'register', 'reg': 0, 'ty': t, 'exact': False, 'kw': [[op, 'h:%s' % t]]}
            core = [mk(s1), mk(x['name']), mk(s2), mk(s1)] if rng.random() < 0.5 else \
                   [mk(x['name']), mk(s1), mk(s2), mk(s1)]
            rest = [a for a in acts if a['ty'] not in (s1, s2, x['name'])]
            k = rng.randint(0, len(rest))
            acts = rest[:k] + core + rest[k:]
        for q in targets:
            acts.append({'a': 'lookup', 'reg': 0, 'op': op, 'ty': q, 'raise': rng.random() < 0.8})
        yield {'classes': specs, 'kinds': [kind], 'actions': acts}


def regop_stream(rng, n):
    """register_op() in the middle of a history, after lookups whose answers it changes"""
    for _ in range(n):
        specs = rng.choice([h_chain, h_mixin, h_diamond])(rng)
        names = [c['name'] for c in specs]
        kind = rng.choice(['registry:1', 'registry:0', 'glommer:1', 'module'])
        op = rng.choice(['get', 'iterate', 'uop'])
        acts = []
        if op == 'uop':
            acts.append({'a': 'register_op', 'reg': 0, 'op': 'uop', 'auto': rng.choice(USER_AUTOS), 'exact': True})
        for t in rng.sample(names, rng.randint(1, len(names))):
            acts.append({'a': 'register', 'reg': 0, 'ty': t, 'exact': rng.random() < 0.7,
                         'kw': [[op, 'h:%s' % t]]})
        look = [{'a': 'lookup', 'reg': 0, 'op': op, 'ty': q, 'raise': rng.random() < 0.6} for q in names]
        acts += look
        acts.append({'a': 'register_op', 'reg': 0, 'op': op, 'auto': rng.choice(USER_AUTOS), 'exact': False})
        acts += [dict(a) for a in look]
        yield {'classes': specs, 'kinds': [kind], 'actions': acts}


def _same_lookup(rng, op, t, force_plain=False):
    m = rng.random()
    if force_plain or op not in ('get', 'iterate', 'assign', 'delete') or m < 0.55:
        return {'a': 'lookup', 'reg': 0, 'op': op, 'ty': t, 'raise': rng.random() < 0.8}
    return {'a': 'glom', 'reg': 0, 'spec': op, 'ty': t}


def fail_then_register_stream(rng, n):
    """lookups that FAIL — a bare registry, an op nobody registered yet, a type without a handler for
    the op — then, with no other registration in between, the registration that makes them succeed
    (register_op(new_op, auto_func) / register(type, op=handler) on the type or on a base), then the
    same lookups again, then an unrelated registration and the lookups a third time"""
    for _ in range(n):
        specs = rng.choice([h_chain, h_mixin, h_diamond, h_builtin, h_virtual])(rng)
        if not valid_classes(specs):
            continue
        names = [c['name'] for c in specs]
        mode = rng.choice(['new-op', 'new-op', 'bare', 'no-handler'])
        if mode == 'bare':
            kind = rng.choice(['registry:0', 'glommer:0'])
            op = rng.choice(OPS)
        else:
            kind = rng.choice(['registry:0', 'glommer:0', 'registry:1', 'glommer:1', 'module'])
            op = 'uop' if mode == 'new-op' else rng.choice(['iterate', 'keys', 'assign', 'delete', 'uop'])
        acts = []
        tagn = [0]

        def tag():
            tagn[0] += 1
            return 'h:%d' % tagn[0]
        if mode != 'bare':
            # some history first: known types, non-empty tables and trees for the other ops
            other = [o for o in OPS if o != op]
            for t in rng.sample(names, rng.randint(0, len(names))):
                acts.append({'a': 'register', 'reg': 0, 'ty': t, 'exact': rng.random() < 0.3,
                             'kw': [[rng.choice(other), tag()]] if rng.random() < 0.7 else []})
        targets = rng.sample(names, rng.randint(1, min(3, len(names))))
        if rng.random() < 0.3:
            targets.append(rng.choice(['dict', 'list', 'str', 'int', 'tuple', 'object']))
        first = [_same_lookup(rng, op, t) for t in targets]
        acts += first
        # the registration that makes (some of) them succeed
        spec_of = {c['name']: c for c in specs}
        if op == 'uop' and rng.random() < 0.6:
            acts.append({'a': 'register_op', 'reg': 0, 'op': op,
                         'auto': rng.choice(['user_const', 'user_const', 'user_iterlike']),
                         'exact': rng.random() < 0.3})
        else:
            t = rng.choice(targets)
            bases = [b for b in spec_of.get(t, {'bases': []})['bases']]
            exact = rng.random() < 0.25
            if bases and not exact and rng.random() < 0.4:
                t = rng.choice(bases)
            acts.append({'a': 'register', 'reg': 0, 'ty': t, 'exact': exact, 'exact_given': rng.random() < 0.5,
                         'kw': [[op, tag()]]})
        acts += [dict(a) if rng.random() < 0.6 else _same_lookup(rng, op, a['ty']) for a in first]
        if rng.random() < 0.5:
            acts.append({'a': 'register', 'reg': 0, 'ty': rng.choice(['int', 'str', 'object'] + names),
                         'exact': rng.random() < 0.5, 'kw': []})
            acts += [_same_lookup(rng, op, a['ty']) for a in first]
        yield {'classes': specs, 'kinds': [kind], 'actions': acts}


def rejected_stream(rng, n):
    """a valid history, then a registration that is REFUSED (TypeError: a handler that is not
    callable — before, between or after valid ones in the sorted op order —, an auto-discovery
    function that raises or returns a non-callable, an instance instead of a type, a bad op name /
    auto_func), on a type that was / was not looked up before, then lookups of every class, an
    unrelated valid registration, and the lookups again: all of them must answer as if the refused
    call had never been made"""
    for _ in range(n):
        specs = rng.choice([h_chain, h_chain, h_mixin, h_diamond, h_builtin, h_virtual, h_virtual_diamond])(rng)
        if not valid_classes(specs):
            continue
        names = [c['name'] for c in specs]
        kind = rng.choice(['registry:0', 'registry:1', 'glommer:1', 'glommer:1', 'module', 'glommer:0'])
        tagn = [0]

        def tag():
            tagn[0] += 1
            return 'h:%d' % tagn[0]
        ops = rng.sample(OPS, rng.choice([1, 2, 2, 3]))
        acts = []
        mode = rng.choice(['kw', 'kw', 'kw', 'kw', 'auto-in-register', 'register_op', 'register_op',
                           'register_op', 'bad-call'])
        if mode == 'auto-in-register':
            # an op whose auto-discovery function refuses some types: registered while no such type
            # is known, so that a later register(<such a type>) is refused
            acts.append({'a': 'register_op', 'reg': 0, 'op': 'uop', 'auto': rng.choice(BAD_AUTOS),
                         'exact': rng.random() < 0.3})
        partial = mode == 'register_op' and rng.random() < 0.7
        if partial:
            # the op is introduced by a register() keyword: its table covers only that type, so a
            # later register_op() has handlers to discover (and to validate) for all the others
            acts.append({'a': 'register', 'reg': 0, 'ty': rng.choice(names), 'exact': rng.random() < 0.3,
                         'kw': [['uop', tag()]]})
        for t in rng.sample(names, rng.randint(1, len(names))):
            acts.append({'a': 'register', 'reg': 0, 'ty': t, 'exact': rng.random() < 0.2,
                         'kw': [[o, tag()] for o in ops if rng.random() < 0.8]})
        look_ops = list(ops)
        if mode in ('auto-in-register', 'register_op'):
            look_ops.append('uop')
        if rng.random() < 0.5:
            # memoise some answers first
            for q in rng.sample(names, rng.randint(1, len(names))):
                acts.append(_same_lookup(rng, rng.choice(look_ops), q))
        if mode == 'kw':
            pool = sorted(set(ops + rng.sample(OPS, 2) + (['uop'] if rng.random() < 0.2 else [])))
            kw = gen_bad_kw(rng, pool, tag)
            look_ops = sorted(set(look_ops) | {o for o, _ in kw})
            acts.append({'a': 'register', 'reg': 0, 'ty': rng.choice(names * 3 + ['dict', 'object']),
                         'exact': rng.random() < 0.3, 'exact_given': rng.random() < 0.5, 'kw': kw})
        elif mode == 'auto-in-register':
            acts.append({'a': 'register', 'reg': 0, 'ty': rng.choice(names), 'exact': rng.random() < 0.3,
                         'kw': [[o, tag()] for o in ops if rng.random() < 0.7]})
        elif mode == 'register_op':
            acts.append({'a': 'register_op', 'reg': 0,
                         'op': 'uop' if partial and rng.random() < 0.85 else rng.choice(['uop', 'get', 'iterate']),
                         'auto': rng.choice(BAD_AUTOS), 'exact': rng.random() < 0.3})
        else:
            acts.append(gen_bad_call(rng, 0, names + ['dict'], tag))
        after = []
        for q in names:
            qops = rng.sample(look_ops, min(len(look_ops), rng.choice([1, 2])))
            if 'uop' in look_ops and 'uop' not in qops and rng.random() < 0.8:
                qops.append('uop')
            for o in qops:
                after.append(_same_lookup(rng, o, q))
        acts += after
        acts.append({'a': 'register', 'reg': 0, 'ty': rng.choice(['int', 'str', 'tuple']), 'exact': rng.random() < 0.5,
                     'kw': []})
        acts += [dict(a) for a in after]
        yield {'classes': specs, 'kinds': [kind], 'actions': acts}


def tie_regop_stream(rng, n):
    """several mutually unrelated virtual / duck types that all match the same plain class are
    registered (in a random order, some re-registered, sometimes a common supertype registered last),
    then `register_op(<new op>, auto_func)` with an auto function that gives every type its own
    handler, then lookups of the plain class and its subclass for the new op: which of the tied types
    serves them is decided by the order in which register_op walks the known types — the
    registration order, never the memory addresses of the classes"""
    for _ in range(n):
        k = rng.choice([2, 2, 3, 3, 4])
        s = rng.random() < 0.5
        specs = [cls('P', ['object'], slots=s, iter=rng.random() < 0.3), cls('P2', ['P'], slots=s)]
        tied = []
        for j in range(k):
            if not s and rng.random() < 0.2 and 'Dk' not in tied:
                specs.append(cls('Dk', ['object'], meta='duck', duck='has_dict'))
                tied.append('Dk')
            else:
                specs.append(cls('V%d' % j, ['object'], meta='abc', virtual=[rng.choice(['P', 'P', 'P2'])], slots=True))
                tied.append('V%d' % j)
        top = None
        if rng.random() < 0.3:
            abcs = [t for t in tied if t != 'Dk']
            sub_of_top = rng.sample(abcs, min(len(abcs), rng.choice([1, 2])))
            specs.append(cls('U', ['object'], meta='abc', virtual=sub_of_top, slots=True))
            top = 'U'
        if not valid_classes(specs):
            continue
        kind = rng.choice(['registry:0', 'registry:1', 'glommer:1', 'glommer:0', 'module'])
        acts = []
        order = rng.sample(tied, len(tied))
        for t in order:
            acts.append({'a': 'register', 'reg': 0, 'ty': t, 'exact': False,
                         'kw': [] if rng.random() < 0.6 else [['get', 'h:%s' % t]]})
        if rng.random() < 0.3:
            acts.append({'a': 'register', 'reg': 0, 'ty': rng.choice(order), 'exact': False, 'kw': []})
        if top:
            acts.append({'a': 'register', 'reg': 0, 'ty': top, 'exact': False, 'kw': []})
        if rng.random() < 0.4:
            acts.append({'a': 'lookup', 'reg': 0, 'op': 'uop', 'ty': 'P', 'raise': rng.random() < 0.5})
        acts.append({'a': 'register_op', 'reg': 0, 'op': 'uop', 'auto': 'user_bytype', 'exact': False})
        for q in ['P', 'P2'] + ([rng.choice(tied)] if rng.random() < 0.3 else []):
            acts.append({'a': 'lookup', 'reg': 0, 'op': 'uop', 'ty': q, 'raise': rng.random() < 0.7})
        if rng.random() < 0.4:
            # … and once more for the builtin op the types were registered for
            acts.append({'a': 'register_op', 'reg': 0, 'op': 'get', 'auto': 'user_bytype', 'exact': False})
            acts.append({'a': 'lookup', 'reg': 0, 'op': 'get', 'ty': 'P', 'raise': True})
        yield {'classes': specs, 'kinds': [kind], 'actions': acts}


def false_then_raise_stream(rng, n):
    """a lookup with raise_exc=False that finds no handler (and memoises False), then the same lookup
    with raise_exc=True — through get_handler and through a real glom call —: it has to raise
    UnregisteredTarget, never return the remembered False; then the registration that provides a
    handler, and both lookups again"""
    for _ in range(n):
        specs = rng.choice([h_chain, h_mixin, h_builtin, h_virtual])(rng)
        if not valid_classes(specs):
            continue
        names = [c['name'] for c in specs]
        mode = rng.choice(['new-op', 'bare', 'no-handler'])
        if mode == 'bare':
            kind = rng.choice(['registry:0', 'glommer:0'])
            op = rng.choice(['get', 'iterate', 'keys'])
        else:
            kind = rng.choice(['registry:0', 'registry:1', 'glommer:1', 'module'])
            op = 'uop' if mode == 'new-op' else rng.choice(['iterate', 'keys'])
        t = rng.choice(names + (['int', 'str'] if op == 'iterate' else []))
        acts = []
        if rng.random() < 0.5 and mode != 'bare':
            acts.append({'a': 'register', 'reg': 0, 'ty': rng.choice(names), 'exact': rng.random() < 0.3,
                         'kw': [['get', 'h:g']]})
        acts.append({'a': 'lookup', 'reg': 0, 'op': op, 'ty': t, 'raise': False})
        second = [{'a': 'lookup', 'reg': 0, 'op': op, 'ty': t, 'raise': True}]
        if op in ('get', 'iterate'):
            second.append({'a': 'glom', 'reg': 0, 'spec': op, 'ty': t})
        elif op == 'keys':
            second.append({'a': 'glom', 'reg': 0, 'spec': 'star', 'ty': t})
        rng.shuffle(second)
        acts += second
        acts.append({'a': 'lookup', 'reg': 0, 'op': op, 'ty': t, 'raise': False})
        if t in names or op == 'uop':
            acts.append({'a': 'register', 'reg': 0, 'ty': t, 'exact': rng.random() < 0.4, 'kw': [[op, 'h:new']]})
            acts += [dict(a) for a in second]
        yield {'classes': specs, 'kinds': [kind], 'actions': acts}


# ---------------------------------------------------------------------------------------------
# INPUT CLASS (switch, ON since the repair 63b9f8a): the same type registered again and again without
# exact=True.  Defect of glom as it was (finding F42): `_register_fuzzy_type`
# treats an existing key as "a subclass of the new type" (`issubclass(T, T)`), pops it and files it
# below a *new* key of the same type — every re-registration nests the type one level deeper under
# itself (`{A: {A: {A: …}}}`; the default registry already holds `dict -> dict -> OrderedDict ->
# OrderedDict`).  `_get_matching_types` recurses once per level, so after about a thousand
# re-registrations of one type every lookup of an unregistered subclass raises RecursionError.
# The model mirrors the nesting (Props/C13.lean, `c13_reregistration_nests`); Lean has no
# recursion limit, so only this stream can observe the failure.
DEEP_REREGISTRATION = True


def deep_reregistration_stream(rng, n):
    for _ in range(n):
        specs = [cls('A', ['object'], slots=rng.random() < 0.5), cls('B', ['A'])]
        kind = rng.choice(['registry:0', 'registry:1', 'glommer:1'])
        op = rng.choice(['get', 'iterate'])
        times = rng.choice([1100, 1500])
        acts = [{'a': 'register', 'reg': 0, 'ty': 'A', 'exact': False, 'kw': [[op, 'h:A']]} for _k in range(times)]
        acts.append({'a': 'lookup', 'reg': 0, 'op': op, 'ty': 'B', 'raise': True})
        acts.append({'a': 'glom', 'reg': 0, 'spec': op, 'ty': 'B'})
        yield {'classes': specs, 'kinds': [kind], 'actions': acts}


def false_handler_stream(rng, n):
    """an explicitly registered `False` ("this type does not support the op") is a registration like
    any other: (a) it stays when the same type is registered again for *another* op or with no keyword
    at all (the handler a type already has is kept, also when it is False - never re-discovered);
    (b) it serves the subclasses: the nearest registered type wins although its handler is False and a
    farther base (or an unrelated matching type) has a real one.  A type of the hierarchy gets
    `op=False`, its bases / virtual supertypes get real handlers before or after it, the type is
    re-registered for other ops, and every class is looked up after every step (raise_exc both ways
    and through real glom calls)"""
    for _ in range(n):
        specs = rng.choice([h_chain, h_chain, h_mixin, h_diamond, h_builtin, h_virtual, h_virtual_first])(rng)
        if not valid_classes(specs):
            continue
        names = [c['name'] for c in specs]
        kind = rng.choice(['registry:0', 'registry:1', 'glommer:1', 'module', 'glommer:0'])
        op = rng.choice(['get', 'iterate', 'keys', 'assign', 'delete'])
        others = [o for o in OPS if o != op]
        t = rng.choice(names)
        tagn = [0]

        def tag():
            tagn[0] += 1
            return 'h:%d' % tagn[0]

        def looks():
            return [_same_lookup(rng, op, q) for q in names]
        acts = []
        rest = [x for x in names if x != t]
        before = rng.sample(rest, rng.randint(0, len(rest)))
        for x in before:
            acts.append({'a': 'register', 'reg': 0, 'ty': x, 'exact': rng.random() < 0.2, 'kw': [[op, tag()]]})
        acts.append({'a': 'register', 'reg': 0, 'ty': t, 'exact': rng.random() < 0.2, 'exact_given': True,
                     'kw': [[op, None]] + ([[rng.choice(others), tag()]] if rng.random() < 0.3 else [])})
        acts += looks()
        for _k in range(rng.choice([1, 2])):
            m = rng.random()
            kw = [] if m < 0.4 else [[rng.choice(others), tag() if rng.random() < 0.8 else None]]
            acts.append({'a': 'register', 'reg': 0, 'ty': t, 'exact': rng.random() < 0.3,
                         'exact_given': rng.random() < 0.5, 'kw': kw})
            acts += looks()
        for x in [y for y in rest if y not in before][:2]:
            acts.append({'a': 'register', 'reg': 0, 'ty': x, 'exact': False, 'kw': [[op, tag()]]})
            acts += looks()
        yield {'classes': specs, 'kinds': [kind], 'actions': acts}


def exact_flip_stream(rng, n):
    """the same type registered twice (or three times) with a different `exact` each time — with a
    new handler, with `False`, or with no keyword at all (the handler is inherited) — on a type that
    has (real or virtual) subclasses, other types of the hierarchy registered before / between; a
    lookup of every class after every registration: `exact=True` never retracts a covering
    registration, a later non-exact registration makes an exact-only type cover"""
    for _ in range(n):
        specs = rng.choice([h_chain, h_chain, h_mixin, h_diamond, h_builtin, h_virtual, h_virtual_diamond,
                            h_virtual_first])(rng)
        if not valid_classes(specs):
            continue
        names = [c['name'] for c in specs]
        kind = rng.choice(['registry:0', 'registry:1', 'glommer:1', 'module', 'glommer:0'])
        op = rng.choice(['get', 'iterate', 'keys', 'assign', 'delete'])
        parents = [b for c in specs for b in c['bases'] + c.get('virtual', []) if b in names]
        parents += [c['name'] for c in specs if c.get('virtual')]
        t = rng.choice(parents or names)
        tagn = [0]

        def tag():
            tagn[0] += 1
            return 'h:%d' % tagn[0]

        def looks():
            return [_same_lookup(rng, op, q) for q in names]
        acts = []
        others = [x for x in names if x != t]
        for x in rng.sample(others, rng.randint(0, len(others))):
            acts.append({'a': 'register', 'reg': 0, 'ty': x, 'exact': rng.random() < 0.3, 'kw': [[op, tag()]]})
        e = rng.random() < 0.5
        acts.append({'a': 'register', 'reg': 0, 'ty': t, 'exact': e, 'exact_given': True, 'kw': [[op, tag()]]})
        acts += looks()
        for _k in range(rng.choice([1, 1, 2])):
            if others and rng.random() < 0.3:
                acts.append({'a': 'register', 'reg': 0, 'ty': rng.choice(others), 'exact': rng.random() < 0.3,
                             'kw': [[op, tag()]]})
            e = not e
            m = rng.random()
            kw = [] if m < 0.4 else [[op, None]] if m < 0.5 else [[op, tag()]]
            acts.append({'a': 'register', 'reg': 0, 'ty': t, 'exact': e, 'exact_given': e or rng.random() < 0.5,
                         'kw': kw})
            acts += looks()
        yield {'classes': specs, 'kinds': [kind], 'actions': acts}


def generate(rng, tier, scale, **focus):
    try:
        from glom import core
        import glom.mutation
        core._DEFAULT_SCOPE[core.TargetRegistry]
        core.TargetRegistry(register_default_types=True)
    except Exception:
        # glom cannot be imported / cannot build a registry: one case suffices, run_impl reports it
        yield {'classes': [], 'kinds': ['registry:1'],
               'actions': [{'a': 'lookup', 'reg': 0, 'op': 'get', 'ty': 'dict', 'raise': True}]}
        return
    n = (1100 if tier == 'quick' else 25000) * scale
    maxreg = 8
    for _ in range(n):
        yield gen_case(rng, maxreg)
    yield from reregistration_stream(rng, (300 if tier == 'quick' else 5000) * scale)
    yield from cross_branch_stream(rng, (300 if tier == 'quick' else 5000) * scale)
    yield from regop_stream(rng, (60 if tier == 'quick' else 1000) * scale)
    yield from fail_then_register_stream(rng, (150 if tier == 'quick' else 3000) * scale)
    yield from rejected_stream(rng, (200 if tier == 'quick' else 4000) * scale)
    yield from exact_flip_stream(rng, (120 if tier == 'quick' else 3000) * scale)
    yield from false_handler_stream(rng, (100 if tier == 'quick' else 2500) * scale)
    yield from tie_regop_stream(rng, (120 if tier == 'quick' else 3000) * scale)
    yield from false_then_raise_stream(rng, (80 if tier == 'quick' else 2000) * scale)
    if DEEP_REREGISTRATION:
        yield from deep_reregistration_stream(rng, (2 if tier == 'quick' else 6) * scale)
    if tier == 'thorough' and not focus.get('no_exhaustive'):
        yield from exhaustive()


def focus(disagreements, facts_changed):
    return {'no_exhaustive': True}


def _w(classes, kinds, actions):
    return {'classes': classes, 'kinds': kinds, 'actions': actions}


def _reg(i, t, kw, exact=False):
    return {'a': 'register', 'reg': i, 'ty': t, 'exact': exact, 'kw': kw}


def _look(i, op, t, r=True):
    return {'a': 'lookup', 'reg': i, 'op': op, 'ty': t, 'raise': r}


def corpus():
    """witnesses of the repaired defect F7 and of the boundary cases discussed in Props/C13.lean"""
    out = []
    E = [cls('E', ['object']), cls('E2', ['E'])]
    # F7(a): in a default registry a type registered with get=… must serve its subclasses
    for kind in ('registry:1', 'glommer:1', 'module'):
        out.append(_w(E, [kind], [_reg(0, 'E', [['get', 'h:E']]), _look(0, 'get', 'E2'),
                                  {'a': 'glom', 'reg': 0, 'spec': 'get', 'ty': 'E2'}]))
    # F7(a'): a dict subclass with a __dict__ assigns through setitem
    out.append(_w([cls('Cn', ['dict'])], ['module'], [_look(0, 'assign', 'Cn'), _look(0, 'delete', 'Cn'),
                                                       {'a': 'glom', 'reg': 0, 'spec': 'assign', 'ty': 'Cn'}]))
    # F7(b): re-registering an unrelated type must not flip the handler of a class with two bases
    M = [cls('E', ['object'], slots=True), cls('G', ['object'], slots=True), cls('Xx', ['object'], slots=True),
         cls('E2', ['E', 'G'], slots=True)]
    out.append(_w(M, ['registry:0'], [_reg(0, 'E', [['iterate', 'h:E']]), _reg(0, 'Xx', []),
                                      _reg(0, 'G', [['iterate', 'h:G']]), _look(0, 'iterate', 'E2'),
                                      _reg(0, 'E', [['iterate', 'h:E']]), _look(0, 'iterate', 'E2')]))
    # incoherent hierarchy (isinstance inherited from a duck metaclass): skipped by the driver, kept as
    # the counter-example of hypothesis inst_sub (Props/C13.lean)
    out.append(_w([cls('R0', ['list'], slots=True), cls('R1', ['object'], meta='duck', duck='has_dict'),
                   cls('R2', ['R0', 'R1'], slots=True), cls('R4', ['object'])], ['registry:0'],
                  [_reg(0, 'R2', [['keys', 'h:5']]), _reg(0, '_AbstractIterable', [['get', None]]),
                   _look(0, 'get', 'R4', False)]))
    # residue of F7 for virtual types (repaired by ce91c93): V2 below V1 and W, registered W, V2, V1, W
    VD = [cls('P', ['object'], slots=True), cls('V1', ['object'], meta='abc'), cls('W', ['object'], meta='abc'),
          cls('V2', ['V1', 'W'], meta='abc', virtual=['P'])]
    out.append(_w(VD, ['registry:0'], [_reg(0, 'W', [['get', 'h:W']]), _reg(0, 'V2', [['get', 'h:V2']]),
                                       _reg(0, 'V1', [['get', 'h:V1']]), _reg(0, 'W', [['get', 'h:W']]),
                                       _look(0, 'get', 'P')]))
    # re-registering a type that is not its own subclass (repaired by 83daf48)
    out.append(_w([cls('Dd', ['dict'])], ['glommer:1'],
                  [_reg(0, '_AbstractIterable', [['iterate', 'h:it']]), _look(0, 'get', 'Dd'),
                   {'a': 'glom', 'reg': 0, 'spec': 'get', 'ty': 'Dd'}]))
    # a Glommer knows assign / delete (repaired by acb0c91)
    out.append(_w([cls('Dd', ['dict'])], ['glommer:1'],
                  [{'a': 'glom', 'reg': 0, 'spec': 'assign', 'ty': 'Dd'}, _look(0, 'delete', 'dict')]))
    # register_op resets the memo (repaired by 5c57e25)
    out.append(_w(E, ['registry:1'],
                  [_reg(0, 'E', [['get', 'h:E']], exact=True), _look(0, 'get', 'E2'),
                   {'a': 'register_op', 'reg': 0, 'op': 'get', 'auto': 'auto_none', 'exact': False},
                   _look(0, 'get', 'E2')]))
    # a raise_exc=False lookup that finds nothing, then the raising lookup / the real glom call of the
    # same type: UnregisteredTarget, not the remembered False (repaired by 8b51f6e)
    for kind in ('registry:1', 'glommer:1', 'module'):
        out.append(_w([], [kind], [_look(0, 'iterate', 'int', False), _look(0, 'iterate', 'int', True),
                                   {'a': 'glom', 'reg': 0, 'spec': 'iterate', 'ty': 'int'}]))
    # two unrelated ABCs with a common virtual subclass, then register_op with a handler per type: the
    # tie is decided by the registration order, not by memory addresses (repaired by 165f0ee; the case is
    # replayed with its classes elsewhere in memory)
    VW = [cls('P', ['object']), cls('V0', ['object'], meta='abc', virtual=['P']),
          cls('V1', ['object'], meta='abc', virtual=['P'])]
    for first, second in (('V0', 'V1'), ('V1', 'V0')):
        out.append(_w(VW, ['registry:0'],
                      [_reg(0, first, [['get', 'h:' + first]]), _reg(0, second, []),
                       {'a': 'register_op', 'reg': 0, 'op': 'get', 'auto': 'user_bytype', 'exact': False},
                       {'a': 'register_op', 'reg': 0, 'op': 'uop', 'auto': 'user_bytype', 'exact': False},
                       _look(0, 'get', 'P'), _look(0, 'uop', 'P')]))
    p = os.path.join(os.path.dirname(os.path.dirname(os.path.dirname(os.path.abspath(__file__)))),
                     'corpus', 'C13.jsonl')
    if os.path.exists(p):
        for line in open(p):
            if line.strip():
                out.append(json.loads(line))
    return out


def key(case):
    return {'classes': case['classes'], 'kinds': case['kinds'], 'actions': normalise(case)}


def nontrivial(case, verdict):
    b = verdict.get('branch', '')
    has_reg = any(a['a'] == 'register' for a in case['actions'])
    return has_reg and ('tree-' in b or b in ('exact', 'memo'))


def shrink(case):
    base = {k: v for k, v in case.items() if not k.startswith('impl') and k not in ('hier', 'module_orders')}
    acts = case['actions']
    for i in range(len(acts)):
        c = dict(base)
        c['actions'] = acts[:i] + acts[i + 1:]
        yield c
    used = set()
    for a in acts:
        if 'ty' in a:
            used.add(a['ty'])
    specs = case['classes']
    for i, s in enumerate(specs):
        if s['name'] in used:
            continue
        if any(s['name'] in o['bases'] or s['name'] in o.get('virtual', []) for o in specs):
            continue
        c = dict(base)
        c['classes'] = specs[:i] + specs[i + 1:]
        yield c
    for i, a in enumerate(acts):
        if a['a'] == 'register' and len(a['kw']) > 1:
            for j in range(len(a['kw'])):
                c = dict(base)
                a2 = dict(a)
                a2['kw'] = a['kw'][:j] + a['kw'][j + 1:]
                c['actions'] = acts[:i] + [a2] + acts[i + 1:]
                yield c
    if len(case['kinds']) > 1:
        # keep only the registries that are used
        usedr = sorted({a['reg'] for a in acts})
        if len(usedr) < len(case['kinds']):
            ren = {r: k for k, r in enumerate(usedr)}
            c = dict(base)
            c['kinds'] = [case['kinds'][r] for r in usedr]
            c['actions'] = [dict(a, reg=ren[a['reg']]) for a in acts]
            yield c


def classify(case, verdict):
    fails = verdict.get('failing') or []
    if not fails:
        return None
    kinds = {f.get('class') for f in fails}
    if len(kinds) == 1:
        return kinds.pop()
    return None
