"""C06 — non-mutating specs are pure; outcome independent of history (caches, repeats, toggles)."""
import json
import multiprocessing
import os
import random
import warnings
from collections import ChainMap, OrderedDict

from harness import interp_common as ic
from harness.interp_gen import Gen

PROP = 'C06'
LEAN_MODULES = ['Glom.Props.C06']
FACT_FILES = ['C06Facts', 'c06']
THEOREMS_PER_MODULE = {'Glom.Props.C06': 40}
READY = True
RULE = ('one case = one history of 20-200 operations on one interpreter whose caches are reset first: direct '
        'Path.from_text calls on a pool of texts (with "*" / "**" / empty / repeated segments), glom calls drawn from a '
        'pool of 12 (target, spec) pairs with repeats of the same spec object (string paths, dict/list/tuple specs, '
        'Coalesce, wildcard paths), PATH_STAR toggles, module-level registrations of a fresh class between calls, and in '
        'half of the histories a fill of 10 050 distinct path strings (cache overflow). After every operation the '
        'implementation reports the returned Path and len() of both sub-caches; for every glom call: outcome vs the first '
        'time that call was made in this history, vs the same call made first in a freshly spawned interpreter '
        '(spawned process per call; 60 per run quick, 2000 thorough), and a deep snapshot (structure + object ids) of '
        'target, spec and scope mapping before/after. The pool also holds (a) specs that hold caller-provided mutable '
        'objects which glom must copy: S(vv=Vars(<dict> | <OrderedDict> | <pairs> | {} | nothing, **defaults)) followed by '
        'a dict of A.vv.n writes / S.vv.n reads / A.globals.n / S.globals.n / A.n / S.n in random order (two holders may '
        'share one dict), binder chains, Spec(x, scope={..}), Fill shapes, container defaults/literals, with a caller '
        'scope mapping in half of them, containers with T leaves in argument position mapped over records targets and '
        'evaluated on each other\'s targets (the 8 fixed pairs built directly in Python are also compared with their '
        'documented result); observed: a deep snapshot (every attribute of every spec object, recursively, by '
        'structure and identity, incl. the mapping handed to Vars) of the spec graph and of the caller\'s scope mapping '
        '(and of the list passed as path=) before/after, the reads replayed through the Lean heap model of Vars; (b) instances of a generated class '
        'hierarchy (3-6 classes, chains / diamonds, MRO as Python computed it) reached by string paths, list specs and '
        'iteration, evaluated through the module-level registry and 0-2 Glommers, with registrations of tagged get / '
        'iterate handlers for a class, one of its bases or subclasses, or an unrelated class between the calls '
        '(type-directed: a lookup, a registration of a related type in the same registry, the same lookup again); '
        'observed: the tag of the handler that ran per (exact type, op), replayed through the memo model per registry, '
        'and the outcome of the same call in a freshly built Glommer given the same registrations in the same order; '
        '(c) wildcard specs over those instances ("*", "k.*", ["*"], "*.*", "**" as text and as T.__star__() / '
        'T.__starstar__(); roots of the hierarchy are slotted (no __dict__: children by iterate) or plain (children by '
        'keys + get)), with registrations of tagged keys / get / iterate handlers for the traversed class or a base in the '
        'same registry between two traversals (type-directed on the lookups _extend_children makes); observed per '
        'expanded instance: how the result shows its children were reached (keys+get / iterate / none) and the tagged '
        'handlers that ran, replayed as the strategy starStrategy through the memo model and against the uncached '
        'TReg.compute (refStar); '
        '(d) direct handler lookups (a custom spec whose glomit asks scope[TargetRegistry].get_handler(op, target, '
        'raise_exc=True|False) and returns what the caller sees: the tag of the handler, <false> for a returned False, '
        'UnregisteredTarget: lookupX of the model) for every op (get, iterate, keys, assign, delete) on '
        'instances of the generated classes and of builtin set / frozenset; pairs raise_exc=False then raise_exc=True of '
        'the same (type, op) in the same registry, mostly where there is no handler (keys of an instance without '
        '__dict__: the first stores False in the memo); the assign / delete lookup of a virtual subclass with a __dict__ '
        '(two candidates outside the MRO) before and after register(<its ABC>, <op>=h), also replayed with the same '
        'registrations in freshly spawned interpreters with other memory layouts (the tie-break must be a function of '
        'the registrations); the classes of a case include 0-2 '
        'iterable ABCs of which generated classes are virtual subclasses (ABC.register or __subclasshook__) and the '
        'collections.abc class of the builtin; registrations may be exact=True; type-directed triples lookup / '
        'register(the type itself | a base | a subclass | the ABC it is a virtual subclass of, exact or not, with a '
        'handler for the looked-up op) / the same lookup; '
        '(e) T arithmetic on containers the target owns: a target holding one list, set, frozenset, dict, bytearray, '
        'tuple (some shared under two keys / twice in a list of rows), ints, str, bool, None; specs = T[field] followed by '
        '1-3 operations out of + - * // / % ** & | ^ ~ - whose right operands are literals (scalar, list / tuple / set / '
        'frozenset / dict literal rebuilt by arg_val, the spec\'s own bytearray passed through), T expressions reading '
        'a container of the target (the same one included), nested T arithmetic, literal lists holding a T; 80 % of '
        'the operations type-correct, the rest any operator x any operand kind; bare, as values (and T keys) of a dict '
        'spec, mapped over the rows by a list spec, in a tuple chain, under Coalesce with / without default, and Call '
        'specs / plain callable specs over a catalogue of non-mutating callables (len, ident, first, wrap, pair, list, '
        'tuple) on T reads of the target; empty and non-empty list / dict / set literals (also nested in one another) in '
        'every argument position of these specs (right operands, Coalesce defaults, Call arguments); the literal '
        'containers of the spec are heap objects of the case too, and per call it is observed that none of them is '
        'reachable from the result; after every call the caller appends to every container of the result that the '
        'call created; (f) container literals in argument positions outside the heap model, each evaluated 2-3 times '
        'with the result appended to in between: per-evaluation accumulators (S(acc=<lit>), [S.acc.append(T) | '
        'S.acc.setdefault(T, T) | S.acc.add(T)], S.acc), T.get(k, <lit>), (S(x=<lit>), S.x), Coalesce(default=<lit>), '
        'compared with the documented value and by the deep snapshot of the spec graph; the '
        'thorough tier also enumerates every operator x 8 left operand kinds x 9 right operand kinds, each '
        'evaluated twice; observed per call: the heap graph (every container by address = identity) of target and '
        'spec-owned objects before and after, the result as a graph (a mutable object that existed before by its '
        'address, a new one by structure), replayed through the Lean heap model (evalAuto) and checked by checkArith. '
        'non-trivial = history has a repeat of a call after a cache-changing operation; distinct = distinct op sequences')
TRUSTED = ['the uncached handler lookup is modelled as "the type itself, else the nearest type of the MRO that is in the type '
           'tree, else the (one) registered iterable ABC the type is a virtual subclass of" (the type-tree walk and the '
           'order among several candidates outside the MRO are C13\'s subject; the tie between _ObjStyleKeys and an ABC '
           'for keys / assign / delete on instances with a __dict__ is not asked of the model)',
           'CPython: the binary operators of list, tuple, bytearray, set, frozenset, dict build a new object and leave '
           'their operands alone (modelled by aBin, compared with CPython on every generated case)']
ASSUMPTIONS = ['"inputs untouched" is a heap-level theorem for T expressions (item steps + every arithmetic operator over '
               'scalars, lists, tuples, bytearrays, sets, frozensets, dicts), arg_val, dict / list / tuple specs, Coalesce, '
               'Call / callable specs over the catalogue of non-mutating callables (c06_spec_frame, c06_calls_frame) and for '
               'Vars/ScopeVars (c06_vars_frame); for the other constructs (arbitrary user callables, Invoke, Fold / Group, '
               'Match, Iter, S-rooted expressions) it is observed by deep snapshots',
               'READING: the identity of an immutable result (tuple, frozenset) is not an observation: CPython may return '
               'an existing object (`t + ()` is `t`); "a result is a new object" is checked for mutable results only',
               'READING: a heap-level call of the model makes no cache query: a list spec iterates with the default iterate '
               'handler (the registry lookups of list specs are exercised by the cache-level entries (b)-(d))',
               'specs in the pool contain no Assign/Delete/scope assignment into target-owned objects; scope assignment '
               'into the per-call scope (A.n, A.v.n, A.globals.n) is in the domain']
MANIFEST = dict(
    text=("Lean 4 theorems about the two caches exactly as glom implements them (Path.from_text: membership test, "
          "overflow bypass when len > _MAX_CACHE, store, return; one dict per PATH_STAR value; get_handler memo reset by "
          "register/register_op): the cache invariant is preserved by every operation, every answer equals the uncached "
          "one on hit, miss and overflow, and for every finite history of calls (arbitrary adaptive query strategies), "
          "PATH_STAR toggles and registrations each call's outcome equals the cache-free reference (c06_history, "
          "c06_after_any_calls). Per-run facts obligation (decide) on the regenerated shape of from_text / get_handler / "
          "register; correspondence replays whole histories through the compiled model comparing returned paths and both "
          "cache sizes after every operation, plus fresh-interpreter outcomes and before/after snapshots. Wildcard "
          "traversals ('*' / '**') are the adaptive strategy starStrategy (keys, then get, else iterate, per visited item): "
          "c06_star_pure / c06_star_any_history / c06_star_register_star show that after any history the children of "
          "every item are reached by the handlers the registrations in force give; the facts obligation also requires "
          "that no function of glom keeps a handler obtained from get_handler outside the memo that register() resets "
          "(handlerStoredOutsideMemo = [], memoTouchedOutsideRegistry = []) and accepts either reset form. The concrete "
          "memo stores False for a raise_exc=False lookup without handler and a raising lookup raises also on that hit "
          "(c06_handler_memo, c06_quiet_then_raising_lookup; the code before 8b51f6e: c06_memo_false_counterexample). The "
          "registry (TReg) has exact= registrations and virtual (ABC) bases: c06_register_candidate_wins / "
          "c06_register_abc_wins / c06_register_exact_self / c06_register_exact_not_inherited and their "
          "lookup-register-lookup histories. 'Inputs untouched' is a heap-level frame theorem on a heap with object "
          "identity for T expressions (item steps and all twelve arithmetic operators over scalars, lists, tuples, "
          "bytearrays, sets, frozensets, dicts, nested to any depth), arg_val, dict / list / tuple specs, Coalesce and "
          "Call / callable specs over a catalogue; the model stores into heap cells where glom stores into objects "
          "(ret[field] = val, ret.append, result.update / extend) and has a mutating callable, and the theorem says an "
          "evaluation without mutating callable writes only objects it created (c06_spec_frame, c06_tarith_frame; "
          "c06_mutating_callable_counterexample), its container results are new objects "
          "(c06_tarith_fresh, c06_spec_fresh), any sequence of calls leaves every old cell and every observable tree "
          "as it was (c06_calls_frame, c06_view_preserved), and the outcome of a call (the tree its value denotes, or "
          "its error) is the same whatever calls were made before it (c06_repeat_same: evaluation commutes with "
          "relocation of the objects it creates); c06_mixed_history states both halves for any interleaving of "
          "cache-level events and heap-level calls; c06_arith_checker ties the decidable checker the driver "
          "evaluates on the implementation's before/after heap graph to these theorems; the facts obligation "
          "c06_facts_arith_binary requires every arithmetic branch of _t_eval to be the binary operator statement "
          "(cur = cur + arg, or the operator-module function of a dispatch table), not an in-place one."),
    note=("partial: 'inputs untouched' is a theorem for the constructs of the heap model (T item/arithmetic, arg_val, "
          "dict/list/tuple specs, Coalesce, Vars) and observed by deep snapshots (structure + identity) for the others; "
          "the cache model (c06_history) and the heap model (c06_repeat_same) are two models, not composed into one. "
          "trusted: Lean kernel + {propext, Classical.choice, Quot.sound}; extractor; harness/driver; CPython's binary "
          "operators as modelled by aBin (compared on every case); a call interacts with shared library state only "
          "through the two caches (that everything else is per call is C20/C07's subject)."),
    technique='Lean 4 invariant proof over operation histories (adaptive-strategy model of calls) + heap-level frame theorem by mutual structural induction over the spec syntax + facts obligations by decide + differential correspondence incl. heap-graph before/after and fresh-interpreter comparison',
    ref='DESIGN.md §3 C06')

TEXTS = ['a', 'a.b', 'a.*', '*', '**', '**.b', 'a.*.b', 'x.0.y', '', 'a..b', '0', 'k0.k1.k2', '*.*', 'a.**.c']
UNSET = '<unset>'
VNAMES = ['a', 'b', 'c']


def pool(rng):
    """(target, spec) pairs as JSON; specs lean on string paths so that the path cache matters"""
    out = []
    g = Gen(rng, {'extra': []})
    fixed = [
        ({'a': {'b': 1, 'c': [1, 2]}, 'k': 'v'}, {'k': 'str', 's': 'a.b'}),
        ({'a': {'b': 1, 'c': [1, 2]}, 'k': 'v'}, {'k': 'str', 's': 'a.*'}),
        ({'a': [{'k': 1}, {'k': 2}], 'k': 0}, {'k': 'str', 's': '**.k'}),
        ({'a': {'b': 1}}, {'k': 'dict', 'es': [[{'k': 'str', 's': 'x'}, {'k': 'str', 's': 'a.b'}],
                                              [{'k': 'str', 's': 'y'}, {'k': 'str', 's': 'a.zz'}]]}),
        ({'*': 5, 'a': {'*': 6}}, {'k': 'str', 's': 'a.*'}),
        ([{'a': 1}, {'a': 2}], {'k': 'list', 'xs': [{'k': 'str', 's': 'a'}]}),
        ({'a': {'b': 1}}, {'k': 'coalesce', 'subs': [{'k': 'str', 's': 'a.zz'}, {'k': 'str', 's': 'a.b'}],
                           'dflt': None, 'dflt_factory': None, 'skip': None, 'skip_exc': ['GlomError']}),
    ]
    for t, s in fixed:
        out.append((ic.enc(t), s))
    while len(out) < 12:
        t = g.target()
        out.append((ic.enc(t), g.spec(t, 2)))
    return out


# ------------------------------------------------------------------ specs holding caller-provided mutable objects
def holder_entry(rng, g):
    """S(vv=Vars(<mapping>, **defaults)) followed by a dict of writes / reads of the variable holder, of
    S.globals and of the plain scope, in random order.  `vars_model` lists the reads / writes of vv
    in evaluation order (every write stores the current target)."""
    jv = ic.enc
    kind = rng.choice(['dict', 'dict', 'dict', 'empty', 'none', 'odict', 'pairs'])
    base = []
    if kind in ('dict', 'odict', 'pairs'):
        for n in rng.sample(VNAMES + ['floor'], rng.randint(1, 2)):
            base.append([n, jv(rng.choice([0, 5, 'bv', None, [1, 2]]))])
    defaults = []
    if rng.random() < 0.35:
        defaults = [[rng.choice(VNAMES), jv(rng.choice([0, 'dv']))]]
    v06 = {'k': 'vars06', 'base_kind': kind, 'base': base, 'defaults': defaults, 'bid': 0}
    bs = [['vv', v06]]
    shared = kind in ('dict', 'empty', 'odict') and rng.random() < 0.15
    if shared:
        bs.append(['ww', dict(v06, defaults=[])])       # a second holder built on the same mapping object
    ops = []
    pre = []
    for _ in range(rng.randint(0, 2)):
        n = rng.choice(VNAMES)
        pre.append({'k': 'aVar', 'var': 'vv', 'name': n})
        ops.append(['w', n])
    es = []

    def rd(spec):
        return {'k': 'coalesce', 'subs': [spec], 'dflt': {'k': 'lit', 'v': jv(UNSET)}, 'dflt_factory': None,
                'skip': None, 'skip_exc': ['GlomError']}
    for i in range(rng.randint(2, 6)):
        n = rng.choice(VNAMES + (['floor'] if i % 3 == 0 else []))
        key = {'k': 'str', 's': 'e%d' % i}
        q = rng.random()
        if q < 0.3:
            es.append([key, rd({'k': 'sVarRead', 'var': 'vv', 'name': n})])
            ops.append(['r', n, 'e%d' % i])
        elif q < 0.55:
            es.append([key, {'k': 'aVar', 'var': 'vv', 'name': n}])
            ops.append(['w', n])
        elif q < 0.65:
            es.append([key, rd({'k': 'sGlobRead', 'name': n})])
        elif q < 0.75:
            es.append([key, {'k': 'aGlob', 'name': n}])
        elif q < 0.83:
            es.append([key, rd({'k': 'sRead', 'name': n, 'steps': [], 'item': rng.random() < 0.5})])
        elif q < 0.9:
            es.append([key, {'k': 'aBind', 'name': n}])
        elif shared:
            es.append([key, rd({'k': 'sVarRead', 'var': 'ww', 'name': n})] if rng.random() < 0.5 else
                      [key, {'k': 'aVar', 'var': 'ww', 'name': n}])
        else:
            es.append([key, g.leaf(0)])
    spec = {'k': rng.choice(['tuple', 'tuple', 'pipe']),
            'xs': [{'k': 'sBind', 'bs': bs}] + pre + [{'k': 'dict', 'es': es}]}
    t = rng.choice([0, 1, 7, 'x', 'tv', None, [1], {'a': 1}])
    entry = {'target': jv(t), 'spec': spec, 'holder': True}
    if not shared:
        entry['vars_model'] = {'base': base, 'defaults': defaults, 'ops': ops}
    if rng.random() < 0.4:
        entry['scope'] = [[rng.choice(VNAMES), jv(rng.choice([1, 'cs', [3]]))]]
    if rng.random() < 0.3:
        entry['cpath'] = rng.choice([[], ['p0'], ['p0', 1]])      # glom(..., path=<the caller's list>)
    return entry


def binder_entry(rng):
    """binder chains, Spec(x, scope={..}), Fill shapes, container literals / defaults (interp_gen), with a
    caller scope mapping in half of them"""
    g = Gen(rng, {'extra': ['binder', 'bindchain', 'bindchain', 'reader', 'fillshape', 'specW', 'val', 'coalesce'],
                  'scope': True})
    t = g.target()
    entry = {'target': ic.enc(t), 'spec': g.spec(t, 2), 'holder': True}
    if rng.random() < 0.5:
        entry['scope'] = [[n, ic.enc(rng.choice([1, 'cs', [3], {'m': 1}]))] for n in rng.sample(Gen.POOL, rng.randint(1, 2))]
    if rng.random() < 0.3:
        entry['cpath'] = rng.choice([[], ['p0'], ['p0', 1]])
    return entry


def argshape_entry(rng):
    """a container with T leaves in argument position (Coalesce default, Call args, S(k=..) value, Fill), mapped
    over the rows of a records target; evaluated on the other such entries' targets as well"""
    g = Gen(rng, {'extra': []})
    return {'target': ic.enc(Gen.rows_target(rng)), 'spec': g.s_argshape(None, 2), 'holder': True, 'rows': True}


def build06(j, fns):
    """interp_common.build + Vars over every kind of mapping (the mapping object is the caller's: kept in
    `fns` under its `bid`, shared by every Vars naming that bid)"""
    import glom
    k = j['k']
    B = lambda x: build06(x, fns)
    if k == 'vars06':
        kind = j['base_kind']
        dflt = {n: ic.dec(v, fns) for n, v in j['defaults']}
        if kind == 'none':
            return glom.Vars(**dflt)
        key = ('vars06-base', j.get('bid', 0))
        if key not in fns:
            items = [(n, ic.dec(v, fns)) for n, v in j['base']]
            fns[key] = {'dict': dict, 'empty': dict, 'odict': OrderedDict, 'pairs': list}[kind](items)
        return glom.Vars(fns[key], **dflt)
    if k == 'tuple':
        return tuple(B(x) for x in j['xs'])
    if k == 'pipe':
        return glom.Pipe(*[B(x) for x in j['xs']])
    if k == 'dict':
        return {B(a): B(b) for a, b in j['es']}
    if k == 'sBind':
        return glom.S(**OrderedDict((n, B(v)) for n, v in j['bs']))
    if k == 'tstar':                       # T with item / attribute steps and wildcards: T['k'].__star__() …
        t = glom.T
        for st in j['steps']:
            if st[0] == 'x':
                t = t.__star__()
            elif st[0] == 'X':
                t = t.__starstar__()
            elif st[0] == '[':
                t = t[st[1]]
            else:
                t = getattr(t, st[1])
        return t
    if k == 'list':
        return [B(x) for x in j['xs']]
    if k == 'lookup6':
        return Lookup6(j['op'], j.get('rx', True))
    return ic.build(j, fns)


# ------------------------------------------------------------------ T arithmetic on target-owned containers (heap model)
CONT6 = (list, tuple, dict, set, frozenset, bytearray)


def enc_scalar6(v):
    if v is None:
        return None
    if isinstance(v, bool):
        return {'b': v}
    if isinstance(v, int):
        return {'i': v}
    if isinstance(v, str):
        return {'s': v}
    if isinstance(v, float):
        return {'f': v.hex()}
    return {'sent': '<%s>' % type(v).__name__}


class Enc6:
    """heap-graph encoder (wire format of lean/Glom/Py/Json.lean): every container of exact type list / tuple /
    dict / set / frozenset / bytearray has an address = an identity; `preload` fixes the addresses of the
    objects a case was decoded into, `heap()` re-encodes those very objects now (a member that is a container
    the encoder has never seen — an object created since — shows as {'sent': '<new …>'})"""
    def __init__(self):
        self.objs = []
        self.ids = {}

    def preload(self, objs):
        for o in objs:
            self.ids[id(o)] = len(self.objs)
            self.objs.append(o)
        return self

    def known(self, v):
        return self.ids.get(id(v)) if type(v) in CONT6 else None

    def addr(self, v):
        a = self.ids.get(id(v))
        if a is None:
            a = len(self.objs)
            self.ids[id(v)] = a
            self.objs.append(v)
            for x in self._members(v):
                if type(x) in CONT6:
                    self.addr(x)
        return a

    @staticmethod
    def _members(v):
        if type(v) is dict:
            out = []
            for k, x in v.items():
                out += [k, x]
            return out
        if type(v) in (set, frozenset):
            return sorted(v, key=repr)
        return list(v)

    def val(self, v, alloc=False):
        if type(v) in CONT6:
            a = self.addr(v) if alloc else self.ids.get(id(v))
            return {'r': a} if a is not None else {'sent': '<new %s>' % type(v).__name__}
        return enc_scalar6(v)

    def cell(self, v, alloc=False):
        ev = lambda x: self.val(x, alloc)
        if type(v) is dict:
            return {'k': 'dict', 'c': 'dict', 'v': [[ev(k), ev(x)] for k, x in v.items()]}
        if type(v) is list:
            return {'k': 'list', 'c': 'list', 'v': [ev(x) for x in v]}
        if type(v) is bytearray:
            return {'k': 'list', 'c': 'bytearray', 'v': [{'i': int(b)} for b in v]}
        if type(v) is tuple:
            return {'k': 'tuple', 'c': 'tuple', 'v': [ev(x) for x in v]}
        return {'k': 'set', 'c': type(v).__name__, 'v': [ev(x) for x in sorted(v, key=repr)]}

    def heap(self, alloc=False):
        out = []
        i = 0
        while i < len(self.objs):          # (alloc=True may append while encoding)
            out.append(self.cell(self.objs[i], alloc))
            i += 1
        return out

    def graph(self, v, depth=0):
        """a result as far as identity shows: an object that existed by its address, a new one by structure"""
        if depth > 30:
            return {'sent': '<deep>'}
        if type(v) in CONT6:
            a = self.ids.get(id(v))
            if a is not None and type(v) not in (tuple, frozenset):
                return {'r': a}              # (an immutable container has no observable identity: `t + ()` is `t`,
            g = lambda x: self.graph(x, depth + 1)   # `n * ()` is the one empty tuple — shown by structure)
            if type(v) is dict:
                return {'new': 'dict', 'kv': [[g(k), g(x)] for k, x in v.items()]}
            if type(v) is bytearray:
                return {'new': 'bytearray', 'v': [{'i': int(b)} for b in v]}
            return {'new': type(v).__name__, 'v': [g(x) for x in self._members(v)]}
        return enc_scalar6(v)


def tree6(v, depth=0):
    """a value by structure only (outcome comparisons between calls)"""
    if depth > 30:
        return '<deep>'
    if type(v) is dict:
        return {'dict': [[tree6(k, depth + 1), tree6(x, depth + 1)] for k, x in v.items()]}
    if type(v) in (set, frozenset):
        return {type(v).__name__: sorted((json.dumps(tree6(x, depth + 1), sort_keys=True) for x in v))}
    if type(v) in (list, tuple):
        return {type(v).__name__: [tree6(x, depth + 1) for x in v]}
    if type(v) is bytearray:
        return {'bytearray': list(v)}
    if isinstance(v, float):
        return {'f': v.hex()}
    if v is None or isinstance(v, (bool, int, str)):
        return {'v': v, 'ty': type(v).__name__}
    return {'repr': type(v).__name__}


def decode6(heap):
    """heap JSON -> the objects by address (mutable containers first, so that tuples / frozensets can hold them)"""
    objs = [None] * len(heap)
    for a, c in enumerate(heap):
        if c['k'] == 'dict':
            objs[a] = {}
        elif c['k'] == 'list':
            objs[a] = bytearray() if c['c'] == 'bytearray' else []
        elif c['k'] == 'set' and c['c'] == 'set':
            objs[a] = set()

    def dv(j):
        if j is None:
            return None
        if 'b' in j:
            return j['b']
        if 'i' in j:
            return j['i']
        if 's' in j:
            return j['s']
        if 'f' in j:
            return float.fromhex(j['f'])
        if 'r' in j:
            if objs[j['r']] is None:
                imm(j['r'])
            return objs[j['r']]
        raise ValueError('cannot decode %r' % (j,))

    def imm(a):
        c = heap[a]
        objs[a] = (tuple if c['k'] == 'tuple' else frozenset)(dv(x) for x in c['v'])
    for a, c in enumerate(heap):
        if objs[a] is None:
            imm(a)
    for a, c in enumerate(heap):
        o = objs[a]
        if c['k'] == 'dict':
            for k, v in c['v']:
                o[dv(k)] = dv(v)
        elif c['k'] == 'list':
            o.extend(dv(x) for x in c['v'])
        elif c['k'] == 'set' and c['c'] == 'set':
            o.update(dv(x) for x in c['v'])
    return objs, dv


T_OPS = {'+': lambda t, a: t + a, '-': lambda t, a: t - a, '*': lambda t, a: t * a, '#': lambda t, a: t // a,
         '/': lambda t, a: t / a, '%': lambda t, a: t % a, ':': lambda t, a: t ** a, '&': lambda t, a: t & a,
         '|': lambda t, a: t | a, '^': lambda t, a: t ^ a, '~': lambda t, a: ~t, '_': lambda t, a: -t,
         '[': lambda t, a: t[a]}
BIN_OPS = ['+', '-', '*', '#', '/', '%', ':', '&', '|', '^']


# the catalogue of callables of the heap model (lean/Glom/Model/C06Heap.lean: callFn6); none of them writes
# its arguments
CAT6 = {'len': len, 'ident': lambda x: x, 'first': lambda x: x[0], 'wrap': lambda x: [x],
        'pair': lambda a, b: [a, b], 'list': list, 'tuple': tuple}


def build_sp(j, dv, lits=None):
    """Sp JSON (see lean/Glom/Driver/C06.lean) -> the real spec object; `lits` collects the list / dict / set
    objects made for the literals of the spec (objects arg_val rebuilds and AUTO interprets: glom must never
    hand them out)"""
    import glom
    B = lambda x: build_sp(x, dv, lits)

    def keep(o):
        if lits is not None and type(o) in (list, dict, set):
            lits.append(o)
        return o
    if 'lit' in j:
        if isinstance(j['lit'], dict) and 'fn' in j['lit']:
            return CAT6[j['lit']['fn']]
        return dv(j['lit'])
    if 'call' in j:
        return glom.Call(CAT6[j['call']], args=tuple(B(x) for x in j['args']))
    if 't' in j:
        t = glom.T
        for op, arg in j['t']:
            t = T_OPS[op](t, B(arg))
        return t
    if 'seq' in j:
        return keep({'list': list, 'tuple': tuple, 'set': set, 'fset': frozenset}[j['seq']](B(x) for x in j['xs']))
    if 'dict' in j:
        return keep({B(k): B(v) for k, v in j['dict']})
    if 'coalesce' in j:
        kw = {} if j.get('default') is None else {'default': B(j['default'])}
        return glom.Coalesce(*[B(x) for x in j['coalesce']], **kw)
    raise ValueError('bad Sp %r' % (j,))


def build_arith(entry):
    """-> target, spec, the objects of the heap by address followed by the literal containers of the spec"""
    a = entry['arith']
    objs, dv = decode6(a['heap'])
    lits = []
    sp = build_sp(a['spec'], dv, lits)
    return dv(a['target']), sp, objs + [o for o in lits if not any(o is x for x in objs)], lits


def reachable6(v, seen=None):
    """every container reachable from a value through plain containers (by identity)"""
    if seen is None:
        seen = {}
    if type(v) in CONT6 and id(v) not in seen:
        seen[id(v)] = v
        for x in Enc6._members(v):
            reachable6(x, seen)
    return seen


MARK6 = '#caller-owns-the-result'


def mutate_new6(res, enc):
    """the caller owns the result: it appends to every mutable container of the result that the call created
    (an object the encoder has never seen); a later evaluation must not show any of it"""
    for o in list(reachable6(res).values()):
        if enc.known(o) is not None:
            continue
        if type(o) is list:
            o.append(MARK6)
        elif type(o) is dict:
            o[MARK6] = MARK6
        elif type(o) is set:
            o.add(MARK6)
        elif type(o) is bytearray:
            o.append(0)


def _lit(v):
    return {'lit': enc_scalar6(v)}


def _path(*keys):
    return {'t': [['[', _lit(k)] for k in keys]}


# which right operands make `left <op> right` succeed in Python (the in-place forms exist for exactly these)
VALID6 = {
    'list': [('+', 'list'), ('*', 'int')],
    'tuple': [('+', 'tuple'), ('*', 'int')],
    'bytearray': [('+', 'bytearray'), ('*', 'int')],
    'set': [('|', 'setlike'), ('&', 'setlike'), ('-', 'setlike'), ('^', 'setlike')],
    'frozenset': [('|', 'setlike'), ('&', 'setlike'), ('-', 'setlike'), ('^', 'setlike')],
    'dict': [('|', 'dict')],
    'int': [(o, 'int') for o in BIN_OPS] + [('*', 'list'), ('*', 'tuple'), ('*', 'bytearray')],
    'str': [('+', 'str'), ('*', 'int')],
}
SAME_KIND = {'list': [('+', 'list'), ('*', 'int')], 'tuple': [('+', 'tuple'), ('*', 'int')],
             'set': VALID6['set'], 'frozenset': VALID6['set'], 'int': [(o, 'int') for o in '+-*&|^']}
FIELD_TYPES = {'l': 'list', 'l2': 'list', 's': 'set', 's2': 'set', 'fs': 'frozenset', 'd': 'dict', 'd2': 'dict',
               'ba': 'bytearray', 'ba2': 'bytearray', 't': 'tuple', 'n': 'int', 'm': 'int', 'z': 'int', 'st': 'str',
               'b': 'int', 'no': 'none'}
RIGHT_KINDS = ['int', 'str', 'none', 'float', 'list', 'tuple', 'bytearray', 'setlike', 'dict']


def arith_target(rng):
    """{'l': [...], 's': {...}, 'd': {...}, 'ba': bytearray, …}: every kind of container, owned by the target;
    some of them shared (the same object under two keys / twice in `rows`)"""
    ints = lambda n: [rng.choice([0, 1, 2, 3, 5, 7]) for _ in range(n)]
    strs = lambda n: [rng.choice(['a', 'b', 'c', 'x']) for _ in range(n)]
    l = ints(rng.randint(0, 3))
    t = {'l': l, 'l2': strs(rng.randint(1, 2)) + ([[9]] if rng.random() < 0.3 else []),
         's': set(ints(rng.randint(0, 3))), 's2': set(strs(rng.randint(1, 3))), 'fs': frozenset(ints(2)),
         'd': dict(zip(strs(2), ints(2))), 'd2': {'k': rng.choice([1, 'v']), 'j': [4]},
         'ba': bytearray(ints(rng.randint(0, 2))), 'ba2': bytearray(b'\x07'), 't': tuple(ints(rng.randint(0, 2))),
         'n': rng.choice([2, 3, -1]), 'm': rng.choice([2, 0, 1]), 'z': 0, 'st': rng.choice(['ab', '']),
         'b': rng.random() < 0.5, 'no': None}
    r1, r2 = ints(rng.randint(1, 2)), strs(1)
    t['rows'] = [r1, r2] + ([r1] if rng.random() < 0.5 else []) + ([l] if rng.random() < 0.3 else [])
    t['nest'] = {'l': l if rng.random() < 0.4 else ints(2), 's': set(strs(2))}
    return t


def right_operand(rng, kind, own, depth=0):
    """a right operand of the given kind: a literal (rebuilt by arg_val, or the spec's own bytearray passed
    through), a T expression reading a container the target owns, or a nested T arithmetic expression"""
    p = rng.random()
    fields = {'int': ['n', 'm', 'z', 'b'], 'str': ['st'], 'none': ['no'], 'list': ['l', 'l2'], 'tuple': ['t'],
              'bytearray': ['ba', 'ba2'], 'setlike': ['s', 's2', 'fs'], 'dict': ['d', 'd2']}.get(kind, [])
    if fields and p < 0.4:
        return _path(rng.choice(fields))                           # the target's own object as right operand
    if depth == 0 and p < 0.5 and kind in ('list', 'setlike', 'int', 'tuple'):
        f = rng.choice(fields)                                     # nested T arithmetic (of the same kind)
        op, rk = rng.choice(SAME_KIND[FIELD_TYPES[f]])
        return {'t': [['[', _lit(f)], [op, right_operand(rng, rk, own, 1)]]}
    if kind == 'int':
        return _lit(rng.choice([0, 1, 2, 3, -1, True]))
    if kind == 'str':
        return _lit(rng.choice(['', 'z']))
    if kind == 'none':
        return _lit(None)
    if kind == 'float':
        return _lit(rng.choice([2.5, 0.5]))
    if kind == 'list':
        q = rng.random()
        if q < 0.12:
            return call_spec(rng)['as_list']                       # Call(wrap / list / pair, …): a list built by a callable
        if q < 0.25:
            return {'seq': 'list', 'xs': [_path('n')]}             # a literal list holding a T
        if q < 0.4:
            return {'seq': 'list', 'xs': [{'seq': 'list', 'xs': [_lit(0)]}]}
        return {'seq': 'list', 'xs': [_lit(rng.choice([0, 'end', 4])) for _ in range(rng.randint(0, 2))]}
    if kind == 'tuple':
        return {'seq': 'tuple', 'xs': [_lit(rng.choice([0, 'e'])) for _ in range(rng.randint(0, 2))]}
    if kind == 'bytearray':
        return {'lit': {'r': own(bytearray([rng.choice([1, 2, 65])] * rng.randint(0, 2)))}}
    if kind == 'setlike':
        return {'seq': rng.choice(['set', 'set', 'fset']),
                'xs': [_lit(x) for x in sorted(set(rng.choice([0, 1, 2, 'a', 'b', 'q']) for _ in range(rng.randint(0, 3))), key=repr)]}
    if kind == 'dict':
        if rng.random() < 0.25:
            return {'dict': []}                                     # an empty dict literal
        return {'dict': [[_lit(rng.choice(['k', 'a', 'new'])), rng.choice([_lit(1), _path('n'), {'seq': 'list', 'xs': []}])]]}
    raise ValueError(kind)


def call_spec(rng):
    """a Call spec over the catalogue (args: T expressions reading the target), and a callable usable as a plain
    spec after a T step"""
    f = rng.choice(['l', 'l2', 't', 'd', 'ba', 's', 'n', 'st', 'rows'])
    name = rng.choice(['len', 'ident', 'first', 'wrap', 'list', 'tuple', 'pair'])
    args = [_path(f)] if name != 'pair' or rng.random() < 0.1 else [_path(f), _path(rng.choice(['l', 'n']))]
    if rng.random() < 0.1:
        args.append(_lit(1))                                        # wrong arity
    if rng.random() < 0.35:                     # a literal (empty or not) as argument of the call
        lit = rng.choice([{'seq': 'list', 'xs': []}, {'dict': []}, {'seq': 'list', 'xs': [_lit(1)]},
                          {'seq': 'list', 'xs': [{'seq': 'list', 'xs': []}]}, {'dict': [[_lit('k'), {'dict': []}]]}])
        name = rng.choice(['ident', 'wrap', 'len', 'list'])
        args = [lit]
    aslist = rng.choice([{'call': 'wrap', 'args': [_path(rng.choice(['n', 'l']))]},
                         {'call': 'list', 'args': [_path(rng.choice(['l', 't', 'd']))]},
                         {'call': 'pair', 'args': [_path('n'), _path('l')]}])
    return {'call': {'call': name, 'args': args}, 'as_list': aslist,
            'chain': {'seq': 'tuple', 'xs': [_path(f), {'lit': {'fn': rng.choice(['len', 'ident', 'first', 'wrap', 'list', 'tuple'])}}]}}


def arith_chain(rng, own, field=None, combo=None, root_steps=None):
    """T[<field>] followed by 1-3 arithmetic operations; `combo` = (op, right kind) forces the first one"""
    field = field or rng.choice(['l', 'l', 'l2', 's', 's', 's2', 'fs', 'd', 'd', 'd2', 'ba', 'ba', 'ba2', 't', 'n', 'm',
                                 'st', 'b', 'no', 'z'])
    steps = list(root_steps) if root_steps is not None else [['[', _lit(field)]]
    ty = FIELD_TYPES.get(field, 'list')
    for k in range(rng.randint(1, 3) if combo is None else 1):
        if combo is not None:
            op, rk = combo
        elif ty in VALID6 and rng.random() < 0.8:
            op, rk = rng.choice(VALID6[ty])
        else:
            op, rk = rng.choice(BIN_OPS), rng.choice(RIGHT_KINDS)
        if rng.random() < 0.06:
            steps.append([rng.choice(['~', '_']), _lit(None)])
            continue
        steps.append([op, right_operand(rng, rk, own)])
        if ty == 'int' and rk in ('list', 'tuple', 'bytearray'):
            ty = rk
        elif ty == 'int' and op in ('/', ':'):
            ty = 'other'
    return {'t': steps}


def arith_entry(rng, combo=None):
    """a target owning one container of every kind + a spec made of T arithmetic on them (bare, in a dict spec,
    mapped over the rows by a list spec, in a tuple chain, under Coalesce).  `combo` = (field, op, right kind)
    pins the first operation (exhaustive enumeration of the thorough tier)."""
    target = arith_target(rng)
    enc = Enc6()
    tv = enc.val(target, alloc=True)

    def own(obj):                       # an object the spec holds and hands through as it is
        return enc.addr(obj)
    chain = lambda **kw: arith_chain(rng, own, **kw)
    p = rng.random()
    if combo is not None:
        first = arith_chain(rng, own, field=combo[0], combo=(combo[1], combo[2]))
        spec = first if p < 0.6 else {'dict': [[_lit('out'), first], [_lit('again'), first]]}
    elif p < 0.34:
        spec = chain()
    elif p < 0.42:
        c = call_spec(rng)                      # Call(<catalogue callable>, args=(T[...],)) / (T[...], <callable>)
        spec = rng.choice([c['call'], c['chain'], {'dict': [[_lit('c'), c['call']], [_lit('n'), {'lit': {'fn': 'len'}}]]}])
    elif p < 0.6:
        spec = {'dict': [[rng.choice([_lit('k%d' % i), _lit('k%d' % i), _path('st')]),
                          chain() if rng.random() < 0.85 else call_spec(rng)['call']]
                         for i in range(rng.randint(1, 3))]}
    elif p < 0.75:
        item = arith_chain(rng, own, field='l', root_steps=[])          # T + [...] / T * 2 on every row
        spec = {'seq': 'tuple', 'xs': [_path('rows'), {'seq': 'list', 'xs': [item]}]}
    elif p < 0.88:
        subs = [chain() for _ in range(rng.randint(1, 2))]
        if rng.random() < 0.5:
            subs.insert(0, _path('missing'))
        if rng.random() < 0.5:
            subs = [_path('missing')]               # every alternative fails: the default is the result
        dflt = rng.choice([None, {'seq': 'list', 'xs': [_lit(0)]}, _path('l'), {'lit': {'r': own(bytearray(b'd'))}},
                           {'seq': 'list', 'xs': []}, {'dict': []}, {'seq': 'set', 'xs': []},
                           {'dict': [[_lit('tags'), {'seq': 'list', 'xs': []}]]},
                           {'seq': 'list', 'xs': [{'dict': []}, {'seq': 'list', 'xs': []}]}])
        spec = {'coalesce': subs, 'default': dflt}
    else:
        spec = {'seq': 'tuple', 'xs': [_path('nest'), arith_chain(rng, own, field=rng.choice(['l', 's']))]}
    return {'arith': {'heap': enc.heap(alloc=True), 'target': tv, 'spec': spec}}


# ------------------------------------------------------------------ container literals in argument positions outside the
# heap model: per-evaluation accumulators bound through S(), T-call arguments, scope values, Coalesce defaults
def acc_entry(rng):
    """a container literal (empty or not, possibly nested in a non-empty one) in an argument position:
    'scope' = (S(acc=<lit>), [S.acc.append(T) | S.acc.setdefault(T, T) | S.acc.add(T)], S.acc): an accumulator that
    lives in the scope of ONE evaluation; 'tget' = T.get('missing', <lit>); 'sval' = (S(x=<lit>), S.x);
    'coalesce' = Coalesce('missing', default=<lit>).  arg_val rebuilds the literal per evaluation: the result is
    the caller's, no object of the spec is reachable from it, and nothing of one evaluation survives into the next."""
    kind = rng.choice(['list', 'list', 'dict', 'set'])
    form = rng.choice(['scope', 'scope', 'tget', 'sval', 'coalesce'])
    return {'acc': {'kind': kind, 'form': form,
                    'prefill': [] if rng.random() < 0.6 else [rng.choice(['p', 'q'])],
                    'items': [rng.choice(['a', 'b', 'c', 'd']) for _ in range(rng.randint(1, 3))],
                    'nested': form != 'scope' and rng.random() < 0.3}}


def _acc_value(a, extra=()):
    xs = list(a['prefill']) + list(extra)
    v = {'list': lambda: list(xs), 'dict': lambda: {x: x for x in xs}, 'set': lambda: set(xs)}[a['kind']]()
    return {'tags': v, 'n': 1} if a['nested'] else v


def build_acc(a):
    """-> target, spec, the value the constructs document"""
    import glom
    from glom import T, S
    lit = _acc_value(a)
    if a['form'] == 'scope':
        step = {'list': lambda: S.acc.append(T), 'dict': lambda: S.acc.setdefault(T, T), 'set': lambda: S.acc.add(T)}[a['kind']]()
        return list(a['items']), (S(acc=lit), [step], S.acc), _acc_value(a, a['items'])
    if a['form'] == 'tget':
        return {'name': 'n'}, T.get('missing', lit), _acc_value(a)
    if a['form'] == 'sval':
        return list(a['items']), (S(x=lit), S.x), _acc_value(a)
    return {'name': 'n'}, glom.Coalesce('missing', default=lit), _acc_value(a)


def mutate_result(res, keep):
    """the caller owns the result: append to every mutable container reachable from it, except the objects of `keep`
    (what is reachable from the target)"""
    old = reachable6(keep)
    for o in list(reachable6(res).values()):
        if id(o) in old:
            continue
        if type(o) is list:
            o.append(MARK6)
        elif type(o) is dict:
            o[MARK6] = MARK6
        elif type(o) is set:
            o.add(MARK6)


def arith_combos():
    """every operator x every kind of left operand x every kind of right operand"""
    return [(f, op, rk) for f in ['l', 's', 'fs', 'd', 'ba', 't', 'n', 'st'] for op in BIN_OPS for rk in RIGHT_KINDS]


# ------------------------------------------------------------------ a class hierarchy and its instances
BUILTIN6 = {'set': set, 'frozenset': frozenset, 'range': range}


def _builtin_abcs():
    import collections.abc
    return {'Set': collections.abc.Set, 'Sequence': collections.abc.Sequence}


def _mk_classes(descs):
    """the classes of a case, in order: generated classes (instances are targets), then the ABCs they are
    virtual subclasses of (`abc`: 'register' = A.register(K), 'hook' = A.__subclasshook__ recognises a marker
    attribute, 'collections' = a collections.abc class), then builtin types used as targets"""
    import abc
    out = [None] * len(descs)
    for i, d in enumerate(descs):
        if d.get('abc') == 'collections':
            out[i] = _builtin_abcs()[d['name']]
        elif d.get('abc'):
            ns = {'__iter__': lambda self: iter(()), '_c06_generated': True}     # an iterable ABC
            if d['abc'] == 'hook':
                def hook(cls, C, _m='_c06_hook_' + d['name']):
                    if any(_m in B.__dict__ for B in C.__mro__):
                        return True
                    return NotImplemented
                ns['__subclasshook__'] = classmethod(hook)
            out[i] = abc.ABCMeta(d['name'], (), ns)
        elif d.get('builtin'):
            out[i] = BUILTIN6[d['builtin']]
    for i, d in enumerate(descs):
        if out[i] is not None:
            continue
        bases = tuple(out[b] for b in d['bases']) or (object,)

        def __init__(self, _n=d['name']):
            self.name = 'v' + _n
            self.items = [1, 2]

        def __iter__(self):
            return iter(self.items)

        def __repr__(self):
            return '<%s>' % type(self).__name__
        ns = {'__init__': __init__, '__iter__': __iter__, '__repr__': __repr__, '_c06_generated': True}
        if d.get('slots'):                 # no __dict__: '*' reaches the children by iteration, not by keys
            ns['__slots__'] = ('name', 'items') if not d['bases'] else ()
        a = d.get('abc_of')
        if a is not None and descs[a]['abc'] == 'hook':
            ns['_c06_hook_' + descs[a]['name']] = True
        out[i] = type(d['name'], bases, ns)
        if a is not None and descs[a]['abc'] == 'register':
            out[a].register(out[i])
    return out


def _instance(descs, klasses, i):
    d = descs[i]
    if d.get('builtin'):
        return {'set': lambda: {1, 2}, 'frozenset': lambda: frozenset([1, 2]), 'range': lambda: range(1, 3)}[d['builtin']]()
    return klasses[i]()


def gen_classes(rng):
    """3-6 classes: mostly chains, some second bases (diamonds / mixins), some fresh roots"""
    descs = []
    for i in range(rng.randint(3, 6)):
        if i == 0 or rng.random() < 0.12:
            bases = []
        else:
            first = i - 1 if rng.random() < 0.6 else rng.randrange(i)
            bases = [first]
            if i >= 2 and rng.random() < 0.25:
                second = rng.randrange(i)
                if second != first:
                    bases.append(second)
        # a root is slotted (its instances have no __dict__) or not; a subclass follows its first base, and
        # its bases all agree (an unslotted base next to a slotted one would add an empty __dict__)
        if bases:
            slots = descs[bases[0]]['slots']
            bases = [b for b in bases if descs[b]['slots'] == slots]
        else:
            slots = rng.random() < 0.4
        d = {'name': 'K%d' % i, 'bases': bases, 'slots': slots}
        try:
            _mk_classes(descs + [d])
        except TypeError:                 # no consistent MRO / instance layout for these bases
            d['bases'] = bases[:1]
        descs.append(d)
    nk = len(descs)
    # 0-2 ABCs, each with one generated class registered as / recognised as its virtual subclass (and so all of
    # that class's subclasses); at most one ABC per class (the order among several is C13's subject)
    for j in range(rng.choice([0, 1, 1, 2])):
        descs.append({'name': 'A%d' % j, 'abc': rng.choice(['register', 'hook']), 'bases': []})
        free = [i for i in range(nk) if descs[i].get('abc_of') is None]
        if free:
            descs[rng.choice(free)]['abc_of'] = len(descs) - 1
    if rng.random() < 0.35:                 # a builtin type and the collections.abc class it is a virtual subclass of
        # (collections.abc.Set only: list / tuple — the containers the targets of the other entries are made of —
        # are virtual subclasses of Sequence, so registering Sequence would change *their* handlers)
        b = rng.choice(['set', 'frozenset'])
        descs.append({'name': 'Set', 'abc': 'collections', 'bases': []})
        descs.append({'name': b, 'builtin': b, 'bases': []})
    while True:
        ks = _mk_classes(descs)
        abcs = [i for i, d in enumerate(descs) if d.get('abc')]
        for i, (d, c) in enumerate(zip(descs, ks)):
            d['mro'] = [x.__name__ for x in c.__mro__]
            if d.get('abc'):
                continue
            inst = _instance(descs, ks, i)
            d['dict'] = hasattr(inst, '__dict__')      # as Python has it: the built-in `keys` handler needs one
            d['virt'] = [descs[a]['name'] for a in abcs if isinstance(inst, ks[a]) and ks[a] not in c.__mro__]
        many = [i for i, d in enumerate(descs) if len(d.get('virt', [])) > 1]
        if not many:
            break
        links = [i for i in range(nk) if descs[i].get('abc_of') is not None]
        del descs[links[-1]]['abc_of']      # drop a link until no class has two virtual bases
    return descs


def n_generated(classes):
    return len([c for c in classes if not c.get('abc') and not c.get('builtin')])


def star_entry(rng, classes):
    """a wildcard spec ('*', 'k.*', ['*'], '*.*', '**', T.__star__() …) over instances of the generated
    classes; `star` = the exact types of the generated-class instances the traversal expands, in order
    (the other visited items are built-in containers and atoms, whose handlers no generated registration
    changes); `star_mode` = how the result shows the children of each of them"""
    i = rng.randrange(len(classes))
    n = classes[i]['name']
    use_t = rng.random() < 0.5                         # T.__star__() (always a wildcard) or text (when PATH_STAR)
    p = rng.random()

    def spec(steps):
        if use_t:
            return {'k': 'tstar', 'steps': steps}
        return {'k': 'str', 's': '.'.join({'x': '*', 'X': '**'}.get(st[0], st[-1]) for st in steps)}
    if p < 0.3:
        e = {'otarget': {'inst': i}, 'spec': spec([['x']]), 'star': [n], 'star_mode': 'children'}
    elif p < 0.45:
        e = {'otarget': {'d': [[{'s': 'k'}, {'inst': i}]]}, 'spec': spec([['[', 'k'], ['x']]), 'star': [n],
             'star_mode': 'children'}
    elif p < 0.7:
        js = [i] + [rng.randrange(len(classes)) for _ in range(rng.randint(0, 2))]
        sp = spec([['x'], ['x']]) if rng.random() < 0.5 else {'k': 'list', 'xs': [spec([['x']])]}
        e = {'otarget': {'l': [{'inst': x} for x in js]}, 'spec': sp, 'star': [classes[x]['name'] for x in js],
             'star_mode': 'rows'}
    else:
        q = rng.random()
        js = [i] + ([rng.randrange(len(classes)) for _ in range(rng.randint(0, 2))] if q < 0.4 else [])
        t = {'l': [{'inst': x} for x in js]} if q < 0.4 else \
            ({'d': [[{'s': 'k'}, {'inst': i}]]} if q < 0.6 else {'inst': i})
        e = {'otarget': t, 'spec': spec([['X']]), 'star': [classes[x]['name'] for x in js], 'star_mode': 'log'}
    e['star_text'] = not use_t
    return e


def obj_entry(rng, classes):
    """a target made of instances of the generated classes + a spec whose handler lookups are known"""
    i = rng.randrange(len(classes))
    n = classes[i]['name']
    p = rng.random()
    if p < 0.35:
        return {'otarget': {'inst': i}, 'spec': {'k': 'str', 's': 'name'}, 'lookups': [[n, 'get']]}
    if p < 0.5:
        return {'otarget': {'inst': i}, 'spec': {'k': 'list', 'xs': [{'k': 't', 'steps': []}]}, 'lookups': [[n, 'iterate']]}
    if p < 0.65:
        return {'otarget': {'inst': i},
                'spec': {'k': 'dict', 'es': [[{'k': 'str', 's': 'n'}, {'k': 'str', 's': 'name'}],
                                             [{'k': 'str', 's': 'xs'}, {'k': 'list', 'xs': [{'k': 't', 'steps': []}]}]]},
                'lookups': [[n, 'get'], [n, 'iterate']]}
    if p < 0.85:
        js = [i] + [rng.randrange(len(classes)) for _ in range(rng.randint(0, 2))]
        return {'otarget': {'l': [{'inst': x} for x in js]}, 'spec': {'k': 'list', 'xs': [{'k': 'str', 's': 'name'}]},
                'lookups': [[classes[x]['name'], 'get'] for x in js]}
    return {'otarget': {'d': [[{'s': 'k'}, {'inst': i}]]}, 'spec': {'k': 'str', 's': 'k.name'}, 'lookups': [[n, 'get']]}


def dec_o(j, klasses, fns):
    if isinstance(j, dict) and 'inst' in j:
        k = klasses[j['inst']]
        if k in BUILTIN6.values():
            return {set: lambda: {1, 2}, frozenset: lambda: frozenset([1, 2]), range: lambda: range(1, 3)}[k]()
        return k()
    if isinstance(j, dict) and 'l' in j:
        return [dec_o(x, klasses, fns) for x in j['l']]
    if isinstance(j, dict) and 'd' in j:
        return {dec_o(k, klasses, fns): dec_o(v, klasses, fns) for k, v in j['d']}
    return ic.dec(j, fns)


def tagged(op, tag):
    """a handler whose result shows that it ran (and that can be recognised when it is only looked up)"""
    def items(o):
        return list(o.items) if hasattr(o, 'items') and not isinstance(o, dict) else sorted(o)
    if op == 'get':
        def h(o, n):
            ic.LOG.append({'handler': tag, 'op': 'get', 'type': type(o).__name__})
            return [tag, getattr(o, n)]
    elif op == 'keys':
        def h(o):
            ic.LOG.append({'handler': tag, 'op': 'keys', 'type': type(o).__name__})
            return ['items', 'name']                  # not the order of the instance dict
    elif op == 'iterate':
        def h(o):
            ic.LOG.append({'handler': tag, 'op': 'iterate', 'type': type(o).__name__})
            return iter([[tag, x] for x in items(o)])
    else:                                             # assign / delete: only ever looked up (Lookup6), never run
        def h(o, *a):
            ic.LOG.append({'handler': tag, 'op': op, 'type': type(o).__name__})
            return o
    h._c06_tag = tag
    return h


class Lookup6:
    """the smallest call that depends on the registrations (`lookupX` of the model): one handler lookup in the
    registry of the call for the target, with either value of raise_exc; its outcome is what the caller of
    get_handler sees: the handler it got (the tag of a generated one, 'default' for a built-in one), '<false>'
    when False was returned (raise_exc=False, no handler), UnregisteredTarget otherwise.  A custom spec
    (documented extension point); it changes nothing."""
    def __init__(self, op, raise_exc=True):
        self.op = op
        self.raise_exc = raise_exc

    def glomit(self, target, scope):
        from glom.core import TargetRegistry, Path
        h = scope[TargetRegistry].get_handler(self.op, target, path=scope[Path], raise_exc=self.raise_exc)
        if h is False:
            return '<false>'
        return getattr(h, '_c06_tag', 'default')

    def __repr__(self):
        return 'Lookup6(%r, raise_exc=%r)' % (self.op, self.raise_exc)


ALL_OPS = ['get', 'iterate', 'keys', 'assign', 'delete']


def tie_classes(classes):
    """instances with a __dict__ that are virtual subclasses of an ABC: their 'assign' / 'delete' lookup has two
    candidates outside the MRO (the ABC below _AbstractIterable, and _ObjStyleKeys); which one wins is decided by
    the order of the sibling branches of the type tree, which register_op builds in registration order"""
    return [i for i, c in enumerate(classes) if c.get('virt') and c.get('dict') and not c.get('builtin')]


def lookup_entry(rng, classes, force=None, rx=None):
    """a direct handler lookup for an instance of one of the classes (generated or builtin), for any op, with
    raise_exc=True (mostly) or False"""
    cand = [i for i, c in enumerate(classes) if not c.get('abc')]
    i, op = force if force else (rng.choice(cand), rng.choice(ALL_OPS))
    c = classes[i]
    if c.get('builtin') and op in ('assign', 'delete'):
        # (set / frozenset / range are "unassignable" builtins: registering the type itself stores False for them)
        op = rng.choice(['get', 'iterate', 'keys'])
    if rx is None:
        rx = rng.random() < 0.7
    return {'otarget': {'inst': i}, 'spec': {'k': 'lookup6', 'op': op, 'rx': rx}, 'lookups': [[c['name'], op]],
            'lookup': True, 'rx': rx}


def _py_pool():
    import glom as G
    from glom.grouping import Group
    return {
        # name -> (target builder, spec builder, the result the documentation of the constructs gives):
        # specs outside the interpreter model's AST, built directly
        'group_flatten': (lambda: [[1, 2], [3], [1, 4]], lambda: Group({G.T[0]: G.Flatten()}),
                          {1: [1, 2, 1, 4], 3: [3]}),
        'group_fold_list': (lambda: [[1], [2], [1, 3]], lambda: Group({len: G.Fold(G.T, init=list)}),
                            {1: [1, 2], 2: [1, 3]}),
        'flatten': (lambda: [[1, [2]], [3]], lambda: G.Flatten(), [1, [2], 3]),
        'merge': (lambda: [{'a': 1}, {'b': 2}, {'a': 3}], lambda: G.Merge(), {'a': 3, 'b': 2}),
        'sum_lists': (lambda: [[1], [2, 3]], lambda: G.Sum(init=list), [1, 2, 3]),
        'iter_all': (lambda: [3, 1, 2], lambda: G.Iter().map(G.T * 2).all(), [6, 2, 4]),
        'arg_list': (lambda: {'rows': [{'id': 1}, {'id': 2}]},
                     lambda: ('rows', [G.Coalesce('name', default=[G.T['id'], 'n/a'])]),
                     [[1, 'n/a'], [2, 'n/a']]),
        'arg_dict_call': (lambda: [1, 2, 3], lambda: [G.Call(dict, kwargs={'v': G.T})],
                          [{'v': 1}, {'v': 2}, {'v': 3}]),
    }


PY_NAMES = ['arg_dict_call', 'arg_list', 'flatten', 'group_flatten', 'group_fold_list', 'iter_all', 'merge', 'sum_lists']


def related(rng, classes, i):
    """a class related to class i: itself, one of its bases (any distance), one of its subclasses, or the ABC it
    is a virtual subclass of"""
    name = classes[i]['name']
    ups = [k for k, c in enumerate(classes) if c['name'] in classes[i]['mro'][1:]]
    downs = [k for k, c in enumerate(classes) if name in c['mro'][1:]]
    virt = [k for k, c in enumerate(classes) if c['name'] in classes[i].get('virt', [])]
    p = rng.random()
    if virt and p < 0.45:
        return rng.choice(virt)
    if ups and p < 0.7:
        return rng.choice(ups)
    if downs and p < 0.85:
        return rng.choice(downs)
    return i


def reg_op(rng, classes, reg, cls, counter, want=None):
    """register(<class>, **handlers[, exact=True]); `want` = an op that gets a handler for sure"""
    kw = []
    p = rng.random()
    for op, lo, hi in (('get', 0.0, 0.7), ('iterate', 0.5, 0.9)):
        if lo <= p < hi:
            counter[0] += 1
            kw.append([op, 'h%d' % counter[0]])
    for op, pr in (('keys', 0.3), ('assign', 0.12), ('delete', 0.12)):
        if rng.random() < pr:
            counter[0] += 1
            kw.append([op, 'h%d' % counter[0]])
    if want and not any(x[0] == want for x in kw):
        counter[0] += 1
        kw.append([want, 'h%d' % counter[0]])
    out = {'op': 'register', 'reg': reg, 'cls': classes[cls]['name'], 'kw': kw}
    if rng.random() < 0.25:
        out['exact'] = True
    return out


def star_ops(classes, ty):
    """the handlers a wildcard traversal can use for an instance of class `ty`"""
    c = next(c for c in classes if c['name'] == ty)
    return ['keys', 'get'] if c.get('dict', True) else ['keys', 'iterate', 'iterate']


def generate(rng, tier, scale, **focus):
    n = (28 if tier == 'quick' else 300) * scale
    # focus (search after a broken tie / a changed source function): 'arith' = the enumeration of operator x
    # operand kinds also in the quick tier; 'reg' = more lookup / registration / lookup triples
    combos = arith_combos() if (tier != 'quick' or focus.get('arith')) else []
    rng.shuffle(combos)
    for i in range(n):
        pl = pool(rng)
        g = Gen(rng, {'extra': []})
        classes = gen_classes(rng)
        nk = n_generated(classes)
        kcls = classes[:nk]
        n_regs = 1 + rng.randint(0, 2)                 # registry 0 = module-level, the others are Glommers
        holders = [holder_entry(rng, g) for _ in range(3)] + [binder_entry(rng) for _ in range(2)] + \
            [argshape_entry(rng) for _ in range(2)]
        objs = []
        for _ in range(7):
            q = rng.random()
            objs.append(star_entry(rng, kcls) if q < 0.3 else obj_entry(rng, kcls) if q < 0.6 else
                        lookup_entry(rng, classes))
        # the lookup whose candidates outside the MRO tie (assign / delete of a virtual subclass with a __dict__)
        ties = tie_classes(classes)
        tie_idx = None
        if ties and rng.random() < 0.8:
            objs.append(lookup_entry(rng, classes, force=(rng.choice(ties), rng.choice(['assign', 'delete'])), rx=True))
            tie_idx = len(objs) - 1
        # a lookup with raise_exc=False, then the same lookup raising — mostly of a (type, op) without handler
        # (`keys` of an instance without __dict__), where the first stores False in the memo
        quiet_pairs = []
        for _ in range(rng.randint(0, 2) + (2 if focus.get('reg') else 0)):
            nodict = [k for k, c in enumerate(classes) if not c.get('abc') and c.get('dict') is False]
            if nodict and rng.random() < 0.75:
                force = (rng.choice(nodict), 'keys')
            else:
                force = (rng.choice([k for k, c in enumerate(classes) if not c.get('abc')]), rng.choice(ALL_OPS))
            first = lookup_entry(rng, classes, force=force, rx=False)
            force = (force[0], first['lookups'][0][1])
            objs.append(first)
            objs.append(lookup_entry(rng, classes, force=force, rx=True))
            quiet_pairs.append((len(objs) - 2, len(objs) - 1))
        # T arithmetic on containers the target owns: random ones, and (thorough) a slice of the enumeration of
        # every operator x left operand kind x right operand kind
        ariths = [arith_entry(rng) for _ in range(6)]
        per = -(-len(combos) // n) if combos else 0
        ariths += [arith_entry(rng, c) for c in combos[i * per:(i + 1) * per]]
        names = PY_NAMES
        accs = [acc_entry(rng) for _ in range(4)]
        entries = [{'target': t, 'spec': s} for t, s in pl] + [{'py': nm} for nm in names] + holders + objs + ariths + accs
        i_py, i_hold, i_obj = len(pl), len(pl) + len(names), len(pl) + len(names) + len(holders)
        i_ar = i_obj + len(objs)
        counter = [0]
        ops = []
        overflow_at = rng.randrange(5, 40) if (i % 2 == 0) else None
        length = rng.randint(20, 80 if tier == 'quick' else 200)
        for k in range(length):
            if overflow_at == k:
                ops.append({'op': 'fill', 'prefix': 'ovf%d_' % i, 'n': 10050})
            p = rng.random()
            if p < 0.25:
                ops.append({'op': 'from_text', 'text': rng.choice(TEXTS)})
            elif p < 0.82:
                o = {'op': 'glom'}
                q = rng.random()
                if q < 0.27:
                    o['idx'] = rng.randrange(len(pl))
                    if rng.random() < 0.3:
                        o['tidx'] = rng.randrange(len(pl))      # the same spec object on another entry's target
                elif q < 0.42:
                    o['idx'] = i_py + rng.randrange(len(names))
                elif q < 0.6:
                    o['idx'] = i_hold + rng.randrange(len(holders))
                    if entries[o['idx']].get('rows') and rng.random() < 0.6:
                        o['tidx'] = rng.choice([x for x in range(i_hold, i_obj) if entries[x].get('rows')])
                    elif rng.random() < 0.3:
                        o['tidx'] = rng.choice(list(range(len(pl))) + list(range(i_hold, i_obj)))
                elif q < 0.8:
                    o['idx'] = i_obj + rng.randrange(len(objs))
                else:
                    o['idx'] = i_ar + rng.randrange(6)
                if 0.6 <= q < 0.8 and rng.random() < 0.5:
                    o['idx'] = i_obj + rng.randrange(7)          # (the directed entries get their own histories below)
                if (0.6 <= q < 0.8 or rng.random() < 0.2) and n_regs > 1:
                    o['reg'] = rng.randrange(n_regs)
                ops.append(o)
            elif p < 0.9:
                ops.append({'op': 'set_star', 'v': rng.random() < 0.5})
            elif p < 0.93:
                ops.append({'op': 'register', 'reg': rng.randrange(n_regs)})     # an unrelated fresh class
            else:
                ops.append(reg_op(rng, classes, rng.randrange(n_regs), rng.randrange(len(classes)), counter))
        # every arith entry is evaluated, the enumerated ones twice (the second evaluation sees what the first left)
        for x in range(i_ar, len(entries)):
            for _ in range(1 if x < i_ar + 6 else 2):
                ops.insert(rng.randrange(len(ops) + 1), {'op': 'glom', 'idx': x})
        # container literals in argument positions (accumulators through S(), T-call arguments …): each evaluated
        # two or three times (the result of every evaluation is appended to by the caller)
        for x in range(len(entries) - len(accs), len(entries)):
            for _ in range(rng.randint(2, 3)):
                ops.insert(rng.randrange(len(ops) + 1), {'op': 'glom', 'idx': x})
        # raise_exc=False, (sometimes another op in between), raise_exc=True: the same (type, op), the same registry
        for qa, qb in quiet_pairs:
            reg = rng.randrange(n_regs)
            pos = sorted(rng.randrange(len(ops) + 1) for _ in range(2))
            for off, x in enumerate((qa, qb)):
                call = {'op': 'glom', 'idx': i_obj + x}
                if reg:
                    call['reg'] = reg
                ops.insert(pos[off] + off, call)
        # the tie: the lookup, register(<the ABC>, <that op>=h) (not exact), the lookup again
        if tie_idx is not None:
            ty, opname = objs[tie_idx]['lookups'][0]
            abc_i = next(k for k, c in enumerate(classes)
                         if c['name'] in next(c2 for c2 in classes if c2['name'] == ty)['virt'])
            reg = rng.randrange(n_regs)
            r = reg_op(rng, classes, reg, abc_i, counter, want=opname)
            r.pop('exact', None)
            pos = sorted(rng.randrange(len(ops) + 1) for _ in range(3))
            call = {'op': 'glom', 'idx': i_obj + tie_idx}
            if reg:
                call['reg'] = reg
            for off, item in enumerate((dict(call), r, dict(call))):
                ops.insert(pos[off] + off, item)
        # type-directed: a lookup, a registration of a related type (itself, a base, a subclass, the ABC it is a
        # virtual subclass of; exact or not) in the same registry, the same lookup — for every op
        for _ in range(rng.randint(1, 4) + (4 if focus.get('reg') else 0)):
            e = rng.randrange(len(objs))
            # (a wildcard entry: one of the lookups `_extend_children` makes for one of the visited types)
            ty, opname = rng.choice(objs[e].get('lookups') or
                                    [[t, o] for t in objs[e]['star'] for o in star_ops(classes, t)])
            ci = next(k for k, c in enumerate(classes) if c['name'] == ty)
            reg = rng.randrange(n_regs)
            r = reg_op(rng, classes, reg, related(rng, classes, ci), counter,
                       want=opname if rng.random() < 0.8 else None)
            if r.get('exact') and r['cls'] != ty and rng.random() < 0.5:
                r['cls'] = ty                          # exact registrations mostly of the looked-up type itself
            pos = sorted(rng.randrange(len(ops) + 1) for _ in range(3))
            call = {'op': 'glom', 'idx': i_obj + e}
            if reg:
                call['reg'] = reg
            for off, item in enumerate((dict(call), r, dict(call))):
                ops.insert(pos[off] + off, item)
        yield {'pool': entries, 'classes': classes, 'n_regs': n_regs, 'ops': ops,
               'fresh_budget': 4 if tier == 'quick' else 7, 'layout_budget': 2 if tier == 'quick' else 4}


def focus(disagreements, facts_changed):
    """the search after a broken tie: both new classes, denser"""
    return {'arith': True, 'reg': True}


def focus_changed(changed_funcs):
    names = ' '.join(changed_funcs)
    out = {}
    if '_t_eval' in names or 'arg_val' in names or '_ArgValuator' in names or '<module>' in names:
        out['arith'] = True
    if 'TargetRegistry' in names or 'register' in names or 'get_handler' in names or '<module>' in names:
        out['reg'] = True
    return out


def corpus():
    p = os.path.join(os.path.dirname(os.path.dirname(os.path.dirname(os.path.abspath(__file__)))),
                     'corpus', PROP + '.jsonl')
    out = []
    if os.path.exists(p):
        for line in open(p):
            if line.strip():
                out.append(json.loads(line))
    return out


def snapshot(obj, seen=None):
    """structure + identity of every container"""
    if seen is None:
        seen = {}
    if isinstance(obj, (list, tuple, set, frozenset)):
        if id(obj) in seen:
            return ('ref', seen[id(obj)])
        seen[id(obj)] = len(seen)
        items = list(obj) if not isinstance(obj, (set, frozenset)) else sorted(obj, key=repr)
        return (type(obj).__name__, id(obj), [snapshot(x, seen) for x in items])
    if isinstance(obj, dict):
        if id(obj) in seen:
            return ('ref', seen[id(obj)])
        seen[id(obj)] = len(seen)
        return (type(obj).__name__, id(obj), [(snapshot(k, seen), snapshot(v, seen)) for k, v in obj.items()])
    if isinstance(obj, bytearray):
        return ('bytearray', id(obj), bytes(obj))
    return repr(obj)


_ATOMS = (type(None), bool, int, float, complex, str, bytes)


def _attrs(obj):
    """every attribute stored on an object: instance dict + slots of every class of its MRO"""
    out = {}
    d = getattr(obj, '__dict__', None)
    if isinstance(d, dict):
        out.update(d)
    for c in type(obj).__mro__:
        sl = c.__dict__.get('__slots__', ())
        for n in ((sl,) if isinstance(sl, str) else sl):
            if n in ('__dict__', '__weakref__'):
                continue
            try:
                out[n] = object.__getattribute__(obj, n)
            except AttributeError:
                pass
    return out


def deep_snapshot(obj, seen=None):
    """the object graph reachable from a spec / target / mapping: containers by structure and identity,
    spec objects (and any other instance) by type, identity and every stored attribute, recursively
    (so the dict handed to `Vars`, the scope of a `Spec`, the `__ops__` of a T, the children of
    And / Or, the arguments of Call / Invoke … are all in it)"""
    if seen is None:
        seen = {}
    if isinstance(obj, _ATOMS):
        return repr(obj)
    if id(obj) in seen:
        return ('ref', seen[id(obj)])
    seen[id(obj)] = len(seen)
    tn = type(obj).__name__
    if isinstance(obj, (list, tuple)):
        return (tn, id(obj), [deep_snapshot(x, seen) for x in obj])
    if isinstance(obj, (set, frozenset)):
        return (tn, id(obj), sorted((deep_snapshot(x, seen) for x in obj), key=repr))
    if isinstance(obj, dict):
        items = [(deep_snapshot(k, seen), deep_snapshot(v, seen)) for k, v in list(obj.items())]
        extra = deep_snapshot(_attrs(obj), seen) if type(obj) not in (dict, OrderedDict) else None
        return (tn, id(obj), items, extra)
    if isinstance(obj, bytearray):
        return (tn, id(obj), bytes(obj))
    if isinstance(obj, ChainMap):
        return (tn, id(obj), [deep_snapshot(m, seen) for m in obj.maps])
    if isinstance(obj, ic.Fn):
        return ('Fn', id(obj), obj.__name__, obj.kind)
    if isinstance(obj, type) or (callable(obj) and not hasattr(type(obj), 'glomit')
                                 and not type(obj).__module__.startswith('glom')):
        return ('callable', id(obj), getattr(obj, '__qualname__', tn))
    attrs = _attrs(obj)
    return (tn, id(obj), [(n, deep_snapshot(attrs[n], seen)) for n in sorted(attrs)])


def enc_o(v):
    """interp_common.enc + instances of the generated classes (by class name: '**' returns the visited objects)"""
    if type(v) in (list, tuple):
        return {'l' if type(v) is list else 't': [enc_o(x) for x in v]}
    if type(v) is dict:
        return {'d': [[enc_o(k), enc_o(x)] for k, x in v.items()]}
    if getattr(type(v), '_c06_generated', False):
        return {'inst': type(v).__name__}
    return ic.enc(v)


def star_observation(entry, oc):
    """per expanded instance: [exact type, how the result shows its children were reached, tagged handlers
    that ran for it (from the log, in the order keys / get / iterate)]"""
    ran = {}
    for l in oc['log']:
        if 'handler' in l:
            ran.setdefault(l['type'], {})[l['op']] = l['handler']
    mode = entry['star_mode']
    res = oc['ok']
    groups = None
    if mode == 'children':
        groups = [res]
    elif mode == 'rows':
        groups = res.get('l') if isinstance(res, dict) else None
        if groups is None or len(groups) != len(entry['star']):
            groups = [None] * len(entry['star'])
    out = []
    for k, ty in enumerate(entry['star']):
        tg = [[o, ran[ty][o]] for o in ('keys', 'get', 'iterate') if o in ran.get(ty, {})]
        out.append([ty, 'log' if groups is None else children_mode(ty, groups[k]), tg])
    return out


def children_mode(ty, enc):
    """'kg': the values of the attributes name / items (as they are, or wrapped by a tagged get handler);
    'it': the items (as they are, or wrapped by a tagged iterate handler); 'none': no children"""
    if not isinstance(enc, dict) or 'l' not in enc:
        return '?'
    xs = enc['l']

    def unwrap(x):
        if isinstance(x, dict) and 'l' in x and len(x['l']) == 2 and isinstance(x['l'][0], dict) \
                and str(x['l'][0].get('s', '')).startswith('h'):
            return x['l'][1]
        return x
    us = [unwrap(x) for x in xs]
    name_v, items_v = {'s': 'v' + ty}, {'l': [{'i': 1}, {'i': 2}]}
    if not xs:
        return 'none'
    if us == [{'i': 1}, {'i': 2}]:
        return 'it'
    if us in ([name_v, items_v], [items_v, name_v]):
        return 'kg'
    return '?'


def outcome(target, spec, star, call=None, scope=None, path=None, encode=None, keep=None):
    import glom
    import glom.core as gc
    gc.PATH_STAR = star
    del ic.LOG[:]
    kw = {}
    if scope is not None:
        kw['scope'] = scope
    if path is not None:
        kw['path'] = path
    try:
        with warnings.catch_warnings():
            warnings.simplefilter('ignore')
            res = (call or glom.glom)(target, spec, **kw)
        if keep is not None:
            keep.append(res)
        if encode is not None:
            out = {'ok': encode(res)}
        else:
            try:
                out = {'ok': ic.enc(res)}
            except ValueError:
                out = {'ok': enc_o(res)}
    except Exception as e:
        out = {'err': ic.exc_name(e)}
    out['log'] = list(ic.LOG)
    del ic.LOG[:]
    return out


def strip_fn_names(oc):
    return json.loads(json.dumps(oc))


def fresh_outcome(args):
    """runs in a freshly spawned interpreter: the call is the first glom call it ever makes"""
    import sys
    repo, tj, sj, star = args
    sys.path.insert(0, repo)
    from harness import interp_common as ic2
    if tj == 'ARITH-ENTRY':               # an arith entry (sj)
        t, s, _, _ = build_arith(sj)
        return outcome(t, s, star, encode=tree6)
    fns = {}
    return outcome(ic2.dec(tj, fns), ic2.build(sj, fns), star)


def layout_outcome(args):
    """runs in a freshly spawned interpreter whose memory layout before `import glom` differs (`pad` blocks of
    1000 bytes): the classes of the case, a new Glommer given the same registrations in the same order, the
    same direct lookup"""
    import sys
    repo, classes, regs, ci, opn, rx, pad = args
    keep = [bytearray(1000) for _ in range(pad)]
    sys.path.insert(0, repo)
    import glom
    klasses = _mk_classes(classes)
    by_name = {c.__name__: c for c in klasses}
    g = glom.Glommer()
    for cname, kw, exact in regs:
        kws = {o: tagged(o, t) for o, t in kw}
        if exact:
            kws['exact'] = True
        g.register(by_name[cname], **kws)
    oc = outcome(dec_o({'inst': ci}, klasses, {}), Lookup6(opn, rx), True, g.glom)
    del keep
    return strip_fn_names({k: v for k, v in oc.items() if k != 'log'})


_POOL = None


def fresh_pool():
    global _POOL
    if _POOL is None:
        ctx = multiprocessing.get_context('spawn')
        _POOL = ctx.Pool(processes=8, maxtasksperchild=1)
    return _POOL


def _jstr(v):
    return json.dumps(v, sort_keys=True, separators=(',', ':'))


def vars_observation(entry, key, target, oc):
    """the reads / writes of the variable holder in evaluation order, with what the implementation read"""
    vm = entry.get('vars_model')
    if vm is None or 'ok' not in oc or not isinstance(oc['ok'], dict) or 'd' not in oc['ok']:
        return None
    try:
        tv = _jstr(ic.enc(target))
    except ValueError:
        return None
    res = {k.get('s'): v for k, v in oc['ok']['d'] if isinstance(k, dict)}
    ops, reads = [], []
    for op in vm['ops']:
        if op[0] == 'w':
            ops.append(['w', op[1], tv])
        else:
            ops.append(['r', op[1]])
            got = res.get(op[2], {'s': UNSET})
            reads.append(None if got == {'s': UNSET} else _jstr(got))
    canon = lambda v: _jstr(ic.enc(ic.dec(v)))
    return {'key': key, 'base': [[n, canon(v)] for n, v in vm['base']],
            'defaults': [[n, canon(v)] for n, v in vm['defaults']], 'ops': ops, 'impl_reads': reads}


def run_impl(case):
    import glom
    import glom.core as gc
    from glom.core import Path
    case = {k: v for k, v in case.items() if not k.startswith('impl')}
    saved_cache, saved_star = Path._CACHE, gc.PATH_STAR
    saved_warned = Path._STAR_WARNED
    Path._CACHE = {True: {}, False: {}}
    gc.PATH_STAR = True
    registered = []                      # classes registered on the module-level registry (undone at the end)
    case['classes'] = [dict(d, virt=d.get('virt', []), dict=d.get('dict', None if d.get('abc') else True))
                       for d in case.get('classes', [])]
    klasses = _mk_classes(case['classes'])
    by_name = {c.__name__: c for c in klasses}
    n_regs = case.get('n_regs', 1)
    glommers = [glom.Glommer() for _ in range(n_regs - 1)]
    reg_hist = [[] for _ in range(n_regs)]        # per registry: (class, handlers) in registration order
    reg_json = [[] for _ in range(n_regs)]        # the same as JSON (class name, [[op, tag]…], exact): for a replay
    #                                               in another interpreter
    layout_jobs = []
    layout_budget = case.get('layout_budget', 2)

    arith_objs = {}

    def build_entry(entry):
        """-> (target, spec, caller's scope mapping or None, caller's path list or None)"""
        if 'py' in entry:
            tb, sb, _ = _py_pool()[entry['py']]
            return (tb(), sb(), None, None)
        if 'acc' in entry:
            t, sp, _ = build_acc(entry['acc'])
            return (t, sp, None, None)
        if 'arith' in entry:
            t, sp, aobjs, alits = build_arith(entry)
            arith_objs[id(sp)] = (aobjs, alits)  # (the spec object is kept alive by the caller)
            return (t, sp, None, None)
        fns = {}
        t = dec_o(entry['otarget'], klasses, fns) if 'otarget' in entry else ic.dec(entry['target'], fns)
        sc = {n: ic.dec(v, fns) for n, v in entry['scope']} if entry.get('scope') else None
        return (t, build06(entry['spec'], fns), sc, list(entry['cpath']) if 'cpath' in entry else None)
    objs = [build_entry(e) for e in case['pool']]
    first = {}
    fresh_jobs = []
    ops_out = []
    budget = case.get('fresh_budget', 4)
    try:
        for op in case['ops']:
            o = dict(op)
            if op['op'] == 'from_text':
                with warnings.catch_warnings():
                    warnings.simplefilter('ignore')
                    p = Path.from_text(op['text'])
                o['impl_path'] = [[a, (b if isinstance(b, str) else None)] for a, b in p.items()]
            elif op['op'] == 'fill':
                for k in range(op['n']):
                    Path.from_text('%s%d' % (op['prefix'], k))
            elif op['op'] == 'set_star':
                gc.PATH_STAR = op['v']
            elif op['op'] == 'register':
                r = op.get('reg', 0)
                o['reg'] = r
                o['cls'] = op.get('cls')
                o['kw'] = op.get('kw', [])
                o['exact'] = bool(op.get('exact'))
                if op.get('cls') is not None:     # (a fresh unrelated class matches no instance of the case)
                    reg_json[r].append([op['cls'], op.get('kw', []), bool(op.get('exact'))])
                if op.get('cls') is not None:
                    cls = by_name[op['cls']]
                    kw = {opn: tagged(opn, tag) for opn, tag in op.get('kw', [])}
                    if op.get('exact'):
                        kw['exact'] = True
                else:
                    cls = type('R%d' % sum(len(h) for h in reg_hist), (object,), {})
                    kw = {'get': getattr}
                if r == 0:
                    glom.register(cls, **kw)
                    registered.append(cls)
                else:
                    glommers[r - 1].register(cls, **kw)
                reg_hist[r].append((cls, kw))
            elif op['op'] == 'glom':
                entry = case['pool'][op['idx']]
                r = op.get('reg', 0)
                call = glom.glom if r == 0 else glommers[r - 1].glom
                t, s, sc, cp = objs[op['idx']]
                if 'tidx' in op:
                    t = objs[op['tidx']][0]          # the same spec object on another target
                o['reg'] = r
                for k in ('same_as_fresh_registry', 'same_as_expected', 'same_in_other_layouts', 'impl_star', 'vars', 'arith'):
                    o[k] = None
                o['impl_lookups'] = []
                if r != 0:
                    sc = None                        # Glommer.glom passes its own scope
                keys_before = {b: set(Path._CACHE[b]) for b in (True, False)}
                encf = tree6 if 'arith' in entry else None
                if 'arith' in entry:
                    # every object of the case (the target's containers, the containers the spec holds) by
                    # address = identity, as they are right now
                    enc6 = Enc6().preload(arith_objs[id(s)][0])
                    heap_before = enc6.heap()
                before = (snapshot(t), repr(s), snapshot(s) if isinstance(s, (list, tuple, dict)) else None,
                          deep_snapshot(t))
                g_before = deep_snapshot(s)
                sc_before = [deep_snapshot(sc), deep_snapshot(cp)]
                resbox = []
                oc = outcome(t, s, gc.PATH_STAR, call, sc, cp, encode=encf, keep=resbox)
                if 'arith' in entry:
                    o['arith'] = {'heap': heap_before, 'target': entry['arith']['target'], 'spec': entry['arith']['spec'],
                                  'impl_heap_after': enc6.heap(),
                                  'impl_out': {'ok': enc6.graph(resbox[0])} if resbox else {'err': oc.get('err')},
                                  # (identity of a *mutable* object: an immutable one may be shared freely)
                                  'impl_result_old': bool(resbox) and type(resbox[0]) not in (tuple, frozenset)
                                  and enc6.known(resbox[0]) is not None,
                                  # no list / dict / set literal of the spec may be reachable from the result
                                  'impl_spec_literal_in_result': bool(resbox) and any(
                                      any(o is l for l in arith_objs[id(s)][1]) for o in reachable6(resbox[0]).values())}
                if 'acc' in entry and 'tidx' not in op:
                    # the value the constructs document, whatever came before; then the caller uses its result
                    o['same_as_expected'] = (oc.get('ok') == ic.enc(build_acc(entry['acc'])[2]))
                    if resbox:
                        mutate_result(resbox[0], t)
                after = (snapshot(t), repr(s), snapshot(s) if isinstance(s, (list, tuple, dict)) else None,
                         deep_snapshot(t))
                o['inputs_unchanged'] = (before == after)
                o['spec_graph_unchanged'] = (g_before == deep_snapshot(s))
                o['scope_unchanged'] = (sc_before == [deep_snapshot(sc), deep_snapshot(cp)])
                # texts this call parsed and stored (the model replays them to stay in step)
                o['impl_new_keys'] = sorted([b, k] for b in (True, False)
                                            for k in set(Path._CACHE[b]) - keys_before[b])
                # outcome must not depend on the history of this spec *object*: compare with freshly
                # built, structurally identical objects evaluated right now
                t2 = build_entry(case['pool'][op.get('tidx', op['idx'])])[0]
                _, s2, sc2, cp2 = build_entry(entry)
                oc2 = outcome(t2, s2, gc.PATH_STAR, call, sc2 if r == 0 else None, cp2, encode=encf)
                o['same_as_rebuilt'] = (strip_fn_names(oc2) == strip_fn_names(oc))
                if 'py' in entry and 'tidx' not in op:
                    # a fixed (target, spec) pair: the result is known whatever came before
                    o['same_as_expected'] = (oc.get('ok') == ic.enc(_py_pool()[entry['py']][2]))
                keyf = (op['idx'], op.get('tidx'), gc.PATH_STAR, r, len(reg_hist[r]))
                if keyf not in first:
                    first[keyf] = oc
                o['same_as_first'] = (first[keyf] == oc)
                # ... nor on which lookups were made before the registrations in force: the same call in
                # a freshly built registry given the same registrations in the same order
                if sc is None and ('otarget' in entry or reg_hist[r]):
                    fg = glom.Glommer()
                    for cls, kw in reg_hist[r]:
                        fg.register(cls, **kw)
                    t3 = build_entry(case['pool'][op.get('tidx', op['idx'])])[0]
                    s3 = build_entry(entry)[1]
                    oc3 = outcome(t3, s3, gc.PATH_STAR, fg.glom, encode=encf)
                    o['same_as_fresh_registry'] = (strip_fn_names(oc3) == strip_fn_names(oc))
                    if not o['same_as_fresh_registry']:
                        o['here'], o['fresh_registry'] = oc, oc3
                if entry.get('lookup') and 'tidx' not in op:
                    # a direct lookup: the outcome is the handler (UnregisteredTarget: there is none)
                    (ty, opn), = entry['lookups']
                    rx = entry.get('rx', True)
                    if 'ok' in oc:
                        o['impl_lookups'] = [[ty, opn, oc['ok'].get('s', '?'), rx]]
                    elif oc.get('err') == 'UnregisteredTarget':
                        o['impl_lookups'] = [[ty, opn, '<none>', rx]]
                    else:
                        o['impl_lookups'] = [[ty, opn, '<error %s>' % oc.get('err'), rx]]
                    # the tie-break among candidates outside the MRO must be a function of the registrations:
                    # the same registrations and the same lookup in fresh interpreters with other memory layouts
                    ci = entry['otarget']['inst']
                    tie = ci in tie_classes(case['classes']) and opn in ('assign', 'delete')
                    if reg_json[r] and (tie or layout_budget > 1) and layout_budget > 0:
                        layout_budget -= 1
                        for pad in ((3, 7, 12) if tie else (5,)):
                            layout_jobs.append((len(ops_out), strip_fn_names({k: v for k, v in oc.items() if k != 'log'}),
                                                (os.environ.get('GLOM_REPO', '/repo'), case['classes'], list(reg_json[r]),
                                                 ci, opn, rx, pad)))
                elif 'lookups' in entry and 'tidx' not in op and 'ok' in oc:
                    ran = {(l['type'], l['op']): l['handler'] for l in oc['log'] if 'handler' in l}
                    o['impl_lookups'] = [[ty, opn, ran.get((ty, opn), 'default'), True] for ty, opn in entry['lookups']]
                if 'star' in entry and 'tidx' not in op and 'ok' in oc and (gc.PATH_STAR or not entry['star_text']):
                    o['impl_star'] = star_observation(entry, oc)
                vo = vars_observation(entry, 'e%d' % op['idx'], t, oc)
                if vo is not None:
                    o['vars'] = vo
                o['same_as_fresh'] = None
                if 'arith' in entry and resbox:
                    mutate_new6(resbox[0], enc6)     # the caller owns the result; later evaluations must not see it
                if budget > 0 and not reg_hist[0] and r == 0 and 'target' in entry and 'holder' not in entry \
                        and 'tidx' not in op:
                    budget -= 1
                    fresh_jobs.append((len(ops_out), oc,
                                       (os.environ.get('GLOM_REPO', '/repo'), entry['target'], entry['spec'], gc.PATH_STAR)))
                elif budget > 0 and not reg_hist[0] and r == 0 and 'arith' in entry:
                    budget -= 1
                    fresh_jobs.append((len(ops_out), oc,
                                       (os.environ.get('GLOM_REPO', '/repo'), 'ARITH-ENTRY', {'arith': entry['arith']}, gc.PATH_STAR)))
            if op['op'] != 'register' and op['op'] != 'set_star':
                o['impl_sizes'] = [len(Path._CACHE[True]), len(Path._CACHE[False])]
            ops_out.append(o)
    finally:
        Path._CACHE, gc.PATH_STAR = saved_cache, saved_star
        Path._STAR_WARNED = saved_warned
        reg = gc._DEFAULT_SCOPE[gc.TargetRegistry]
        for cls in registered:       # undo the module-level registrations
            for tmap in reg._op_type_map.values():
                tmap.pop(cls, None)
            for tree in reg._op_type_tree.values():
                _prune(tree, cls)
        reg._type_cache = {}
    if layout_jobs:
        results = fresh_pool().map(layout_outcome, [j[2] for j in layout_jobs])
        for (pos, oc, _), fr in zip(layout_jobs, results):
            same = (fr == oc)
            if ops_out[pos]['same_in_other_layouts'] is None or not same:
                ops_out[pos]['same_in_other_layouts'] = same
            if not same:
                ops_out[pos]['other_layout'] = fr
                ops_out[pos]['here'] = oc
    if fresh_jobs:
        results = fresh_pool().map(fresh_outcome, [j[2] for j in fresh_jobs])
        for (pos, oc, _), fr in zip(fresh_jobs, results):
            ops_out[pos]['same_as_fresh'] = (fr == oc)
            if fr != oc:
                ops_out[pos]['fresh'] = fr
                ops_out[pos]['here'] = oc
    out = dict(case)
    out['ops'] = ops_out
    out['impl'] = {'n_ops': len(ops_out)}
    return out


def _prune(tree, cls):
    for k in list(tree):
        if k is cls:
            sub = tree.pop(k)
            tree.update(sub)
        else:
            _prune(tree[k], cls)


OBSERVED = ('same_as_expected', 'same_as_first', 'same_as_fresh', 'same_as_rebuilt', 'inputs_unchanged', 'fresh', 'here',
            'same_as_fresh_registry', 'fresh_registry', 'spec_graph_unchanged', 'scope_unchanged', 'vars', 'arith',
            'same_in_other_layouts', 'other_layout')


def key(case):
    return {'ops': [{k: v for k, v in o.items() if not k.startswith('impl') and k not in OBSERVED}
                    for o in case['ops']],
            'pool': case['pool'], 'classes': case.get('classes', []), 'n_regs': case.get('n_regs', 1)}


def nontrivial(case, verdict):
    seen = set()
    changed = False
    for o in case['ops']:
        if o['op'] in ('fill', 'set_star', 'register', 'from_text'):
            changed = True
        if o['op'] == 'glom':
            if o['idx'] in seen and changed:
                return True
            seen.add(o['idx'])
    return False


def shrink(case):
    base = {k: v for k, v in case.items() if not k.startswith('impl')}
    ops = [{k: v for k, v in o.items() if k in ('op', 'text', 'prefix', 'n', 'v', 'idx', 'tidx', 'reg', 'cls', 'kw', 'exact')}
           for o in case['ops']]
    n = len(ops)
    step = max(n // 2, 1)
    while step >= 1:
        for i in range(0, n, step):
            c = dict(base)
            c['ops'] = ops[:i] + ops[i + step:]
            if c['ops']:
                yield c
        step //= 2
