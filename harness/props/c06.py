"""C06 — non-mutating specs are pure; outcome independent of history (caches, repeats, toggles)."""
import json
import multiprocessing
import os
import random
import warnings
from collections import ChainMap, OrderedDict

from harness import interp_common as ic
from harness.interp_gen import Gen

PROP = 'C06'
LEAN_MODULES = ['Glom.Props.C06']
FACT_FILES = ['C06Facts', 'c06']
READY = True
RULE = ('one case = one history of 20-200 operations on one interpreter whose caches are reset first: direct '
        'Path.from_text calls on a pool of texts (with "*" / "**" / empty / repeated segments), glom calls drawn from a '
        'pool of 12 (target, spec) pairs with repeats of the same spec object (string paths, dict/list/tuple specs, '
        'Coalesce, wildcard paths), PATH_STAR toggles, module-level registrations of a fresh class between calls, and in '
        'half of the histories a fill of 10 050 distinct path strings (cache overflow). After every operation the '
        'implementation reports the returned Path and len() of both sub-caches; for every glom call: outcome vs the first '
        'time that call was made in this history, vs the same call made first in a freshly spawned interpreter '
        '(spawned process per call; 60 per run quick, 2000 thorough), and a deep snapshot (structure + object ids) of '
        'target, spec and scope mapping before/after. The pool also holds (a) specs that hold caller-provided mutable '
        'objects which glom must copy: S(vv=Vars(<dict> | <OrderedDict> | <pairs> | {} | nothing, **defaults)) followed by '
        'a dict of A.vv.n writes / S.vv.n reads / A.globals.n / S.globals.n / A.n / S.n in random order (two holders may '
        'share one dict), binder chains, Spec(x, scope={..}), Fill shapes, container defaults/literals, with a caller '
        'scope mapping in half of them, containers with T leaves in argument position mapped over records targets and '
        'evaluated on each other\'s targets (the 8 fixed pairs built directly in Python are also compared with their '
        'documented result); observed: a deep snapshot (every attribute of every spec object, recursively, by '
        'structure and identity, incl. the mapping handed to Vars) of the spec graph and of the caller\'s scope mapping '
        '(and of the list passed as path=) before/after, the reads replayed through the Lean heap model of Vars; (b) instances of a generated class '
        'hierarchy (3-6 classes, chains / diamonds, MRO as Python computed it) reached by string paths, list specs and '
        'iteration, evaluated through the module-level registry and 0-2 Glommers, with registrations of tagged get / '
        'iterate handlers for a class, one of its bases or subclasses, or an unrelated class between the calls '
        '(type-directed: a lookup, a registration of a related type in the same registry, the same lookup again); '
        'observed: the tag of the handler that ran per (exact type, op), replayed through the memo model per registry, '
        'and the outcome of the same call in a freshly built Glommer given the same registrations in the same order; '
        '(c) wildcard specs over those instances ("*", "k.*", ["*"], "*.*", "**" as text and as T.__star__() / '
        'T.__starstar__(); roots of the hierarchy are slotted (no __dict__: children by iterate) or plain (children by '
        'keys + get)), with registrations of tagged keys / get / iterate handlers for the traversed class or a base in the '
        'same registry between two traversals (type-directed on the lookups _extend_children makes); observed per '
        'expanded instance: how the result shows its children were reached (keys+get / iterate / none) and the tagged '
        'handlers that ran, replayed as the strategy starStrategy through the memo model and against the uncached '
        'TReg.compute (refStar). '
        'non-trivial = history has a repeat of a call after a cache-changing operation; distinct = distinct op sequences')
TRUSTED = ['the uncached handler lookup is modelled as "nearest type of the MRO with a handler" (real subclasses only; the '
           'type-tree walk, virtual subclasses and exact= are C13\'s subject)']
ASSUMPTIONS = ['"inputs untouched" is observed (snapshots), not proved at heap level: the interpreter model has immutable '
               'values (except for Vars/ScopeVars: c06_vars_frame on a heap of dict objects)',
               'specs in the pool contain no Assign/Delete/scope assignment into target-owned objects; scope assignment '
               'into the per-call scope (A.n, A.v.n, A.globals.n) is in the domain']
MANIFEST = dict(
    text=("Lean 4 theorems about the two caches exactly as glom implements them (Path.from_text: membership test, "
          "overflow bypass when len > _MAX_CACHE, store, return; one dict per PATH_STAR value; get_handler memo reset by "
          "register/register_op): the cache invariant is preserved by every operation, every answer equals the uncached "
          "one on hit, miss and overflow, and for every finite history of calls (arbitrary adaptive query strategies), "
          "PATH_STAR toggles and registrations each call's outcome equals the cache-free reference (c06_history, "
          "c06_after_any_calls). Per-run facts obligation (decide) on the regenerated shape of from_text / get_handler / "
          "register; correspondence replays whole histories through the compiled model comparing returned paths and both "
          "cache sizes after every operation, plus fresh-interpreter outcomes and before/after snapshots. Wildcard "
          "traversals ('*' / '**') are the adaptive strategy starStrategy (keys, then get, else iterate, per visited item): "
          "c06_star_pure / c06_star_any_history / c06_star_register_star show that after any history the children of "
          "every item are reached by the handlers the registrations in force give; the facts obligation also requires "
          "that no function of glom keeps a handler obtained from get_handler outside the memo that register() resets "
          "(handlerStoredOutsideMemo = [], memoTouchedOutsideRegistry = []) and accepts either reset form."),
    note=("partial: the 'inputs untouched' half is observed by snapshots and holds by construction in the immutable-value "
          "interpreter model; no heap-level frame theorem. trusted: Lean kernel + {propext, Classical.choice, Quot.sound}; "
          "extractor; harness/driver; a call interacts with shared library state only through the two caches (that "
          "everything else is per call is C20/C07's subject)."),
    technique='Lean 4 invariant proof over operation histories (adaptive-strategy model of calls) + facts obligation by decide + differential correspondence incl. fresh-interpreter comparison',
    ref='DESIGN.md §3 C06')

TEXTS = ['a', 'a.b', 'a.*', '*', '**', '**.b', 'a.*.b', 'x.0.y', '', 'a..b', '0', 'k0.k1.k2', '*.*', 'a.**.c']
UNSET = '<unset>'
VNAMES = ['a', 'b', 'c']


def pool(rng):
    """(target, spec) pairs as JSON; specs lean on string paths so that the path cache matters"""
    out = []
    g = Gen(rng, {'extra': []})
    fixed = [
        ({'a': {'b': 1, 'c': [1, 2]}, 'k': 'v'}, {'k': 'str', 's': 'a.b'}),
        ({'a': {'b': 1, 'c': [1, 2]}, 'k': 'v'}, {'k': 'str', 's': 'a.*'}),
        ({'a': [{'k': 1}, {'k': 2}], 'k': 0}, {'k': 'str', 's': '**.k'}),
        ({'a': {'b': 1}}, {'k': 'dict', 'es': [[{'k': 'str', 's': 'x'}, {'k': 'str', 's': 'a.b'}],
                                              [{'k': 'str', 's': 'y'}, {'k': 'str', 's': 'a.zz'}]]}),
        ({'*': 5, 'a': {'*': 6}}, {'k': 'str', 's': 'a.*'}),
        ([{'a': 1}, {'a': 2}], {'k': 'list', 'xs': [{'k': 'str', 's': 'a'}]}),
        ({'a': {'b': 1}}, {'k': 'coalesce', 'subs': [{'k': 'str', 's': 'a.zz'}, {'k': 'str', 's': 'a.b'}],
                           'dflt': None, 'dflt_factory': None, 'skip': None, 'skip_exc': ['GlomError']}),
    ]
    for t, s in fixed:
        out.append((ic.enc(t), s))
    while len(out) < 12:
        t = g.target()
        out.append((ic.enc(t), g.spec(t, 2)))
    return out


# ------------------------------------------------------------------ specs holding caller-provided mutable objects
def holder_entry(rng, g):
    """S(vv=Vars(<mapping>, **defaults)) followed by a dict of writes / reads of the variable holder, of
    S.globals and of the plain scope, in random order.  `vars_model` lists the reads / writes of vv
    in evaluation order (every write stores the current target)."""
    jv = ic.enc
    kind = rng.choice(['dict', 'dict', 'dict', 'empty', 'none', 'odict', 'pairs'])
    base = []
    if kind in ('dict', 'odict', 'pairs'):
        for n in rng.sample(VNAMES + ['floor'], rng.randint(1, 2)):
            base.append([n, jv(rng.choice([0, 5, 'bv', None, [1, 2]]))])
    defaults = []
    if rng.random() < 0.35:
        defaults = [[rng.choice(VNAMES), jv(rng.choice([0, 'dv']))]]
    v06 = {'k': 'vars06', 'base_kind': kind, 'base': base, 'defaults': defaults, 'bid': 0}
    bs = [['vv', v06]]
    shared = kind in ('dict', 'empty', 'odict') and rng.random() < 0.15
    if shared:
        bs.append(['ww', dict(v06, defaults=[])])       # a second holder built on the same mapping object
    ops = []
    pre = []
    for _ in range(rng.randint(0, 2)):
        n = rng.choice(VNAMES)
        pre.append({'k': 'aVar', 'var': 'vv', 'name': n})
        ops.append(['w', n])
    es = []

    def rd(spec):
        return {'k': 'coalesce', 'subs': [spec], 'dflt': {'k': 'lit', 'v': jv(UNSET)}, 'dflt_factory': None,
                'skip': None, 'skip_exc': ['GlomError']}
    for i in range(rng.randint(2, 6)):
        n = rng.choice(VNAMES + (['floor'] if i % 3 == 0 else []))
        key = {'k': 'str', 's': 'e%d' % i}
        q = rng.random()
        if q < 0.3:
            es.append([key, rd({'k': 'sVarRead', 'var': 'vv', 'name': n})])
            ops.append(['r', n, 'e%d' % i])
        elif q < 0.55:
            es.append([key, {'k': 'aVar', 'var': 'vv', 'name': n}])
            ops.append(['w', n])
        elif q < 0.65:
            es.append([key, rd({'k': 'sGlobRead', 'name': n})])
        elif q < 0.75:
            es.append([key, {'k': 'aGlob', 'name': n}])
        elif q < 0.83:
            es.append([key, rd({'k': 'sRead', 'name': n, 'steps': [], 'item': rng.random() < 0.5})])
        elif q < 0.9:
            es.append([key, {'k': 'aBind', 'name': n}])
        elif shared:
            es.append([key, rd({'k': 'sVarRead', 'var': 'ww', 'name': n})] if rng.random() < 0.5 else
                      [key, {'k': 'aVar', 'var': 'ww', 'name': n}])
        else:
            es.append([key, g.leaf(0)])
    spec = {'k': rng.choice(['tuple', 'tuple', 'pipe']),
            'xs': [{'k': 'sBind', 'bs': bs}] + pre + [{'k': 'dict', 'es': es}]}
    t = rng.choice([0, 1, 7, 'x', 'tv', None, [1], {'a': 1}])
    entry = {'target': jv(t), 'spec': spec, 'holder': True}
    if not shared:
        entry['vars_model'] = {'base': base, 'defaults': defaults, 'ops': ops}
    if rng.random() < 0.4:
        entry['scope'] = [[rng.choice(VNAMES), jv(rng.choice([1, 'cs', [3]]))]]
    if rng.random() < 0.3:
        entry['cpath'] = rng.choice([[], ['p0'], ['p0', 1]])      # glom(..., path=<the caller's list>)
    return entry


def binder_entry(rng):
    """binder chains, Spec(x, scope={..}), Fill shapes, container literals / defaults (interp_gen), with a
    caller scope mapping in half of them"""
    g = Gen(rng, {'extra': ['binder', 'bindchain', 'bindchain', 'reader', 'fillshape', 'specW', 'val', 'coalesce'],
                  'scope': True})
    t = g.target()
    entry = {'target': ic.enc(t), 'spec': g.spec(t, 2), 'holder': True}
    if rng.random() < 0.5:
        entry['scope'] = [[n, ic.enc(rng.choice([1, 'cs', [3], {'m': 1}]))] for n in rng.sample(Gen.POOL, rng.randint(1, 2))]
    if rng.random() < 0.3:
        entry['cpath'] = rng.choice([[], ['p0'], ['p0', 1]])
    return entry


def argshape_entry(rng):
    """a container with T leaves in argument position (Coalesce default, Call args, S(k=..) value, Fill), mapped
    over the rows of a records target; evaluated on the other such entries' targets as well"""
    g = Gen(rng, {'extra': []})
    return {'target': ic.enc(Gen.rows_target(rng)), 'spec': g.s_argshape(None, 2), 'holder': True, 'rows': True}


def build06(j, fns):
    """interp_common.build + Vars over every kind of mapping (the mapping object is the caller's: kept in
    `fns` under its `bid`, shared by every Vars naming that bid)"""
    import glom
    k = j['k']
    B = lambda x: build06(x, fns)
    if k == 'vars06':
        kind = j['base_kind']
        dflt = {n: ic.dec(v, fns) for n, v in j['defaults']}
        if kind == 'none':
            return glom.Vars(**dflt)
        key = ('vars06-base', j.get('bid', 0))
        if key not in fns:
            items = [(n, ic.dec(v, fns)) for n, v in j['base']]
            fns[key] = {'dict': dict, 'empty': dict, 'odict': OrderedDict, 'pairs': list}[kind](items)
        return glom.Vars(fns[key], **dflt)
    if k == 'tuple':
        return tuple(B(x) for x in j['xs'])
    if k == 'pipe':
        return glom.Pipe(*[B(x) for x in j['xs']])
    if k == 'dict':
        return {B(a): B(b) for a, b in j['es']}
    if k == 'sBind':
        return glom.S(**OrderedDict((n, B(v)) for n, v in j['bs']))
    if k == 'tstar':                       # T with item / attribute steps and wildcards: T['k'].__star__() …
        t = glom.T
        for st in j['steps']:
            if st[0] == 'x':
                t = t.__star__()
            elif st[0] == 'X':
                t = t.__starstar__()
            elif st[0] == '[':
                t = t[st[1]]
            else:
                t = getattr(t, st[1])
        return t
    if k == 'list':
        return [B(x) for x in j['xs']]
    return ic.build(j, fns)


# ------------------------------------------------------------------ a class hierarchy and its instances
def _mk_classes(descs):
    out = []
    for d in descs:
        bases = tuple(out[b] for b in d['bases']) or (object,)

        def __init__(self, _n=d['name']):
            self.name = 'v' + _n
            self.items = [1, 2]

        def __iter__(self):
            return iter(self.items)

        def __repr__(self):
            return '<%s>' % type(self).__name__
        ns = {'__init__': __init__, '__iter__': __iter__, '__repr__': __repr__, '_c06_generated': True}
        if d.get('slots'):                 # no __dict__: '*' reaches the children by iteration, not by keys
            ns['__slots__'] = ('name', 'items') if not d['bases'] else ()
        out.append(type(d['name'], bases, ns))
    return out


def gen_classes(rng):
    """3-6 classes: mostly chains, some second bases (diamonds / mixins), some fresh roots"""
    descs = []
    for i in range(rng.randint(3, 6)):
        if i == 0 or rng.random() < 0.12:
            bases = []
        else:
            first = i - 1 if rng.random() < 0.6 else rng.randrange(i)
            bases = [first]
            if i >= 2 and rng.random() < 0.25:
                second = rng.randrange(i)
                if second != first:
                    bases.append(second)
        # a root is slotted (its instances have no __dict__) or not; a subclass follows its first base, and
        # its bases all agree (an unslotted base next to a slotted one would add an empty __dict__)
        if bases:
            slots = descs[bases[0]]['slots']
            bases = [b for b in bases if descs[b]['slots'] == slots]
        else:
            slots = rng.random() < 0.4
        d = {'name': 'K%d' % i, 'bases': bases, 'slots': slots}
        try:
            _mk_classes(descs + [d])
        except TypeError:                 # no consistent MRO / instance layout for these bases
            d['bases'] = bases[:1]
        descs.append(d)
    for d, c in zip(descs, _mk_classes(descs)):
        d['mro'] = [x.__name__ for x in c.__mro__]
        d['dict'] = hasattr(c(), '__dict__')          # as Python has it: the built-in `keys` handler needs one
    return descs


def star_entry(rng, classes):
    """a wildcard spec ('*', 'k.*', ['*'], '*.*', '**', T.__star__() …) over instances of the generated
    classes; `star` = the exact types of the generated-class instances the traversal expands, in order
    (the other visited items are built-in containers and atoms, whose handlers no generated registration
    changes); `star_mode` = how the result shows the children of each of them"""
    i = rng.randrange(len(classes))
    n = classes[i]['name']
    use_t = rng.random() < 0.5                         # T.__star__() (always a wildcard) or text (when PATH_STAR)
    p = rng.random()

    def spec(steps):
        if use_t:
            return {'k': 'tstar', 'steps': steps}
        return {'k': 'str', 's': '.'.join({'x': '*', 'X': '**'}.get(st[0], st[-1]) for st in steps)}
    if p < 0.3:
        e = {'otarget': {'inst': i}, 'spec': spec([['x']]), 'star': [n], 'star_mode': 'children'}
    elif p < 0.45:
        e = {'otarget': {'d': [[{'s': 'k'}, {'inst': i}]]}, 'spec': spec([['[', 'k'], ['x']]), 'star': [n],
             'star_mode': 'children'}
    elif p < 0.7:
        js = [i] + [rng.randrange(len(classes)) for _ in range(rng.randint(0, 2))]
        sp = spec([['x'], ['x']]) if rng.random() < 0.5 else {'k': 'list', 'xs': [spec([['x']])]}
        e = {'otarget': {'l': [{'inst': x} for x in js]}, 'spec': sp, 'star': [classes[x]['name'] for x in js],
             'star_mode': 'rows'}
    else:
        q = rng.random()
        js = [i] + ([rng.randrange(len(classes)) for _ in range(rng.randint(0, 2))] if q < 0.4 else [])
        t = {'l': [{'inst': x} for x in js]} if q < 0.4 else \
            ({'d': [[{'s': 'k'}, {'inst': i}]]} if q < 0.6 else {'inst': i})
        e = {'otarget': t, 'spec': spec([['X']]), 'star': [classes[x]['name'] for x in js], 'star_mode': 'log'}
    e['star_text'] = not use_t
    return e


def obj_entry(rng, classes):
    """a target made of instances of the generated classes + a spec whose handler lookups are known"""
    i = rng.randrange(len(classes))
    n = classes[i]['name']
    p = rng.random()
    if p < 0.35:
        return {'otarget': {'inst': i}, 'spec': {'k': 'str', 's': 'name'}, 'lookups': [[n, 'get']]}
    if p < 0.5:
        return {'otarget': {'inst': i}, 'spec': {'k': 'list', 'xs': [{'k': 't', 'steps': []}]}, 'lookups': [[n, 'iterate']]}
    if p < 0.65:
        return {'otarget': {'inst': i},
                'spec': {'k': 'dict', 'es': [[{'k': 'str', 's': 'n'}, {'k': 'str', 's': 'name'}],
                                             [{'k': 'str', 's': 'xs'}, {'k': 'list', 'xs': [{'k': 't', 'steps': []}]}]]},
                'lookups': [[n, 'get'], [n, 'iterate']]}
    if p < 0.85:
        js = [i] + [rng.randrange(len(classes)) for _ in range(rng.randint(0, 2))]
        return {'otarget': {'l': [{'inst': x} for x in js]}, 'spec': {'k': 'list', 'xs': [{'k': 'str', 's': 'name'}]},
                'lookups': [[classes[x]['name'], 'get'] for x in js]}
    return {'otarget': {'d': [[{'s': 'k'}, {'inst': i}]]}, 'spec': {'k': 'str', 's': 'k.name'}, 'lookups': [[n, 'get']]}


def dec_o(j, klasses, fns):
    if isinstance(j, dict) and 'inst' in j:
        return klasses[j['inst']]()
    if isinstance(j, dict) and 'l' in j:
        return [dec_o(x, klasses, fns) for x in j['l']]
    if isinstance(j, dict) and 'd' in j:
        return {dec_o(k, klasses, fns): dec_o(v, klasses, fns) for k, v in j['d']}
    return ic.dec(j, fns)


def tagged(op, tag):
    """a handler whose result shows that it ran"""
    if op == 'get':
        def h(o, n):
            ic.LOG.append({'handler': tag, 'op': 'get', 'type': type(o).__name__})
            return [tag, getattr(o, n)]
    elif op == 'keys':
        def h(o):
            ic.LOG.append({'handler': tag, 'op': 'keys', 'type': type(o).__name__})
            return ['items', 'name']                  # not the order of the instance dict
    else:
        def h(o):
            ic.LOG.append({'handler': tag, 'op': 'iterate', 'type': type(o).__name__})
            return iter([[tag, x] for x in list(o.items)])
    return h


def _py_pool():
    import glom as G
    from glom.grouping import Group
    return {
        # name -> (target builder, spec builder, the result the documentation of the constructs gives):
        # specs outside the interpreter model's AST, built directly
        'group_flatten': (lambda: [[1, 2], [3], [1, 4]], lambda: Group({G.T[0]: G.Flatten()}),
                          {1: [1, 2, 1, 4], 3: [3]}),
        'group_fold_list': (lambda: [[1], [2], [1, 3]], lambda: Group({len: G.Fold(G.T, init=list)}),
                            {1: [1, 2], 2: [1, 3]}),
        'flatten': (lambda: [[1, [2]], [3]], lambda: G.Flatten(), [1, [2], 3]),
        'merge': (lambda: [{'a': 1}, {'b': 2}, {'a': 3}], lambda: G.Merge(), {'a': 3, 'b': 2}),
        'sum_lists': (lambda: [[1], [2, 3]], lambda: G.Sum(init=list), [1, 2, 3]),
        'iter_all': (lambda: [3, 1, 2], lambda: G.Iter().map(G.T * 2).all(), [6, 2, 4]),
        'arg_list': (lambda: {'rows': [{'id': 1}, {'id': 2}]},
                     lambda: ('rows', [G.Coalesce('name', default=[G.T['id'], 'n/a'])]),
                     [[1, 'n/a'], [2, 'n/a']]),
        'arg_dict_call': (lambda: [1, 2, 3], lambda: [G.Call(dict, kwargs={'v': G.T})],
                          [{'v': 1}, {'v': 2}, {'v': 3}]),
    }


PY_NAMES = ['arg_dict_call', 'arg_list', 'flatten', 'group_flatten', 'group_fold_list', 'iter_all', 'merge', 'sum_lists']


def related(rng, classes, i):
    """a class related to class i: itself, one of its bases (any distance), or one of its subclasses"""
    name = classes[i]['name']
    ups = [k for k, c in enumerate(classes) if c['name'] in classes[i]['mro'][1:]]
    downs = [k for k, c in enumerate(classes) if name in c['mro'][1:]]
    p = rng.random()
    if ups and p < 0.6:
        return rng.choice(ups)
    if downs and p < 0.8:
        return rng.choice(downs)
    return i


def reg_op(rng, classes, reg, cls, counter):
    kw = []
    p = rng.random()
    for op, lo, hi in (('get', 0.0, 0.7), ('iterate', 0.5, 0.9)):
        if lo <= p < hi:
            counter[0] += 1
            kw.append([op, 'h%d' % counter[0]])
    if rng.random() < 0.3:
        counter[0] += 1
        kw.append(['keys', 'h%d' % counter[0]])
    return {'op': 'register', 'reg': reg, 'cls': classes[cls]['name'], 'kw': kw}


def star_ops(classes, ty):
    """the handlers a wildcard traversal can use for an instance of class `ty`"""
    c = next(c for c in classes if c['name'] == ty)
    return ['keys', 'get'] if c.get('dict', True) else ['keys', 'iterate', 'iterate']


def generate(rng, tier, scale, **focus):
    n = (28 if tier == 'quick' else 300) * scale
    for i in range(n):
        pl = pool(rng)
        g = Gen(rng, {'extra': []})
        classes = gen_classes(rng)
        n_regs = 1 + rng.randint(0, 2)                 # registry 0 = module-level, the others are Glommers
        holders = [holder_entry(rng, g) for _ in range(3)] + [binder_entry(rng) for _ in range(2)] + \
            [argshape_entry(rng) for _ in range(2)]
        objs = [star_entry(rng, classes) if rng.random() < 0.45 else obj_entry(rng, classes) for _ in range(5)]
        names = PY_NAMES
        entries = [{'target': t, 'spec': s} for t, s in pl] + [{'py': nm} for nm in names] + holders + objs
        i_py, i_hold, i_obj = len(pl), len(pl) + len(names), len(pl) + len(names) + len(holders)
        counter = [0]
        ops = []
        overflow_at = rng.randrange(5, 40) if (i % 2 == 0) else None
        length = rng.randint(20, 80 if tier == 'quick' else 200)
        for k in range(length):
            if overflow_at == k:
                ops.append({'op': 'fill', 'prefix': 'ovf%d_' % i, 'n': 10050})
            p = rng.random()
            if p < 0.3:
                ops.append({'op': 'from_text', 'text': rng.choice(TEXTS)})
            elif p < 0.82:
                o = {'op': 'glom'}
                q = rng.random()
                if q < 0.35:
                    o['idx'] = rng.randrange(len(pl))
                    if rng.random() < 0.3:
                        o['tidx'] = rng.randrange(len(pl))      # the same spec object on another entry's target
                elif q < 0.55:
                    o['idx'] = i_py + rng.randrange(len(names))
                elif q < 0.8:
                    o['idx'] = i_hold + rng.randrange(len(holders))
                    if entries[o['idx']].get('rows') and rng.random() < 0.6:
                        o['tidx'] = rng.choice([x for x in range(i_hold, i_obj) if entries[x].get('rows')])
                    elif rng.random() < 0.3:
                        o['tidx'] = rng.choice(list(range(len(pl))) + list(range(i_hold, i_obj)))
                else:
                    o['idx'] = i_obj + rng.randrange(len(objs))
                if (q >= 0.8 or rng.random() < 0.2) and n_regs > 1:
                    o['reg'] = rng.randrange(n_regs)
                ops.append(o)
            elif p < 0.9:
                ops.append({'op': 'set_star', 'v': rng.random() < 0.5})
            elif p < 0.93:
                ops.append({'op': 'register', 'reg': rng.randrange(n_regs)})     # an unrelated fresh class
            else:
                ops.append(reg_op(rng, classes, rng.randrange(n_regs), rng.randrange(len(classes)), counter))
        # type-directed: a lookup, a registration of a related type in the same registry, the same lookup
        for _ in range(rng.randint(0, 3)):
            e = rng.randrange(len(objs))
            # (a wildcard entry: one of the lookups `_extend_children` makes for one of the visited types)
            ty, opname = rng.choice(objs[e].get('lookups') or
                                    [[t, o] for t in objs[e]['star'] for o in star_ops(classes, t)])
            ci = next(k for k, c in enumerate(classes) if c['name'] == ty)
            reg = rng.randrange(n_regs)
            r = reg_op(rng, classes, reg, related(rng, classes, ci), counter)
            if rng.random() < 0.7 and not any(x[0] == opname for x in r['kw']):
                counter[0] += 1
                r['kw'].append([opname, 'h%d' % counter[0]])
            pos = sorted(rng.randrange(len(ops) + 1) for _ in range(3))
            call = {'op': 'glom', 'idx': i_obj + e}
            if reg:
                call['reg'] = reg
            for off, item in enumerate((dict(call), r, dict(call))):
                ops.insert(pos[off] + off, item)
        yield {'pool': entries, 'classes': classes, 'n_regs': n_regs, 'ops': ops,
               'fresh_budget': 4 if tier == 'quick' else 7}


def corpus():
    p = os.path.join(os.path.dirname(os.path.dirname(os.path.dirname(os.path.abspath(__file__)))),
                     'corpus', PROP + '.jsonl')
    out = []
    if os.path.exists(p):
        for line in open(p):
            if line.strip():
                out.append(json.loads(line))
    return out


def snapshot(obj, seen=None):
    """structure + identity of every container"""
    if seen is None:
        seen = {}
    if isinstance(obj, (list, tuple, set, frozenset)):
        if id(obj) in seen:
            return ('ref', seen[id(obj)])
        seen[id(obj)] = len(seen)
        items = list(obj) if not isinstance(obj, (set, frozenset)) else sorted(obj, key=repr)
        return (type(obj).__name__, id(obj), [snapshot(x, seen) for x in items])
    if isinstance(obj, dict):
        if id(obj) in seen:
            return ('ref', seen[id(obj)])
        seen[id(obj)] = len(seen)
        return (type(obj).__name__, id(obj), [(snapshot(k, seen), snapshot(v, seen)) for k, v in obj.items()])
    return repr(obj)


_ATOMS = (type(None), bool, int, float, complex, str, bytes)


def _attrs(obj):
    """every attribute stored on an object: instance dict + slots of every class of its MRO"""
    out = {}
    d = getattr(obj, '__dict__', None)
    if isinstance(d, dict):
        out.update(d)
    for c in type(obj).__mro__:
        sl = c.__dict__.get('__slots__', ())
        for n in ((sl,) if isinstance(sl, str) else sl):
            if n in ('__dict__', '__weakref__'):
                continue
            try:
                out[n] = object.__getattribute__(obj, n)
            except AttributeError:
                pass
    return out


def deep_snapshot(obj, seen=None):
    """the object graph reachable from a spec / target / mapping: containers by structure and identity,
    spec objects (and any other instance) by type, identity and every stored attribute, recursively
    (so the dict handed to `Vars`, the scope of a `Spec`, the `__ops__` of a T, the children of
    And / Or, the arguments of Call / Invoke … are all in it)"""
    if seen is None:
        seen = {}
    if isinstance(obj, _ATOMS):
        return repr(obj)
    if id(obj) in seen:
        return ('ref', seen[id(obj)])
    seen[id(obj)] = len(seen)
    tn = type(obj).__name__
    if isinstance(obj, (list, tuple)):
        return (tn, id(obj), [deep_snapshot(x, seen) for x in obj])
    if isinstance(obj, (set, frozenset)):
        return (tn, id(obj), sorted((deep_snapshot(x, seen) for x in obj), key=repr))
    if isinstance(obj, dict):
        items = [(deep_snapshot(k, seen), deep_snapshot(v, seen)) for k, v in list(obj.items())]
        extra = deep_snapshot(_attrs(obj), seen) if type(obj) not in (dict, OrderedDict) else None
        return (tn, id(obj), items, extra)
    if isinstance(obj, ChainMap):
        return (tn, id(obj), [deep_snapshot(m, seen) for m in obj.maps])
    if isinstance(obj, ic.Fn):
        return ('Fn', id(obj), obj.__name__, obj.kind)
    if isinstance(obj, type) or (callable(obj) and not hasattr(type(obj), 'glomit')
                                 and not type(obj).__module__.startswith('glom')):
        return ('callable', id(obj), getattr(obj, '__qualname__', tn))
    attrs = _attrs(obj)
    return (tn, id(obj), [(n, deep_snapshot(attrs[n], seen)) for n in sorted(attrs)])


def enc_o(v):
    """interp_common.enc + instances of the generated classes (by class name: '**' returns the visited objects)"""
    if type(v) in (list, tuple):
        return {'l' if type(v) is list else 't': [enc_o(x) for x in v]}
    if type(v) is dict:
        return {'d': [[enc_o(k), enc_o(x)] for k, x in v.items()]}
    if getattr(type(v), '_c06_generated', False):
        return {'inst': type(v).__name__}
    return ic.enc(v)


def star_observation(entry, oc):
    """per expanded instance: [exact type, how the result shows its children were reached, tagged handlers
    that ran for it (from the log, in the order keys / get / iterate)]"""
    ran = {}
    for l in oc['log']:
        if 'handler' in l:
            ran.setdefault(l['type'], {})[l['op']] = l['handler']
    mode = entry['star_mode']
    res = oc['ok']
    groups = None
    if mode == 'children':
        groups = [res]
    elif mode == 'rows':
        groups = res.get('l') if isinstance(res, dict) else None
        if groups is None or len(groups) != len(entry['star']):
            groups = [None] * len(entry['star'])
    out = []
    for k, ty in enumerate(entry['star']):
        tg = [[o, ran[ty][o]] for o in ('keys', 'get', 'iterate') if o in ran.get(ty, {})]
        out.append([ty, 'log' if groups is None else children_mode(ty, groups[k]), tg])
    return out


def children_mode(ty, enc):
    """'kg': the values of the attributes name / items (as they are, or wrapped by a tagged get handler);
    'it': the items (as they are, or wrapped by a tagged iterate handler); 'none': no children"""
    if not isinstance(enc, dict) or 'l' not in enc:
        return '?'
    xs = enc['l']

    def unwrap(x):
        if isinstance(x, dict) and 'l' in x and len(x['l']) == 2 and isinstance(x['l'][0], dict) \
                and str(x['l'][0].get('s', '')).startswith('h'):
            return x['l'][1]
        return x
    us = [unwrap(x) for x in xs]
    name_v, items_v = {'s': 'v' + ty}, {'l': [{'i': 1}, {'i': 2}]}
    if not xs:
        return 'none'
    if us == [{'i': 1}, {'i': 2}]:
        return 'it'
    if us in ([name_v, items_v], [items_v, name_v]):
        return 'kg'
    return '?'


def outcome(target, spec, star, call=None, scope=None, path=None):
    import glom
    import glom.core as gc
    gc.PATH_STAR = star
    del ic.LOG[:]
    kw = {}
    if scope is not None:
        kw['scope'] = scope
    if path is not None:
        kw['path'] = path
    try:
        with warnings.catch_warnings():
            warnings.simplefilter('ignore')
            res = (call or glom.glom)(target, spec, **kw)
        try:
            out = {'ok': ic.enc(res)}
        except ValueError:
            out = {'ok': enc_o(res)}
    except Exception as e:
        out = {'err': ic.exc_name(e)}
    out['log'] = list(ic.LOG)
    del ic.LOG[:]
    return out


def strip_fn_names(oc):
    return json.loads(json.dumps(oc))


def fresh_outcome(args):
    """runs in a freshly spawned interpreter: the call is the first glom call it ever makes"""
    import sys
    repo, tj, sj, star = args
    sys.path.insert(0, repo)
    from harness import interp_common as ic2
    fns = {}
    return outcome(ic2.dec(tj, fns), ic2.build(sj, fns), star)


_POOL = None


def fresh_pool():
    global _POOL
    if _POOL is None:
        ctx = multiprocessing.get_context('spawn')
        _POOL = ctx.Pool(processes=8, maxtasksperchild=1)
    return _POOL


def _jstr(v):
    return json.dumps(v, sort_keys=True, separators=(',', ':'))


def vars_observation(entry, key, target, oc):
    """the reads / writes of the variable holder in evaluation order, with what the implementation read"""
    vm = entry.get('vars_model')
    if vm is None or 'ok' not in oc or not isinstance(oc['ok'], dict) or 'd' not in oc['ok']:
        return None
    try:
        tv = _jstr(ic.enc(target))
    except ValueError:
        return None
    res = {k.get('s'): v for k, v in oc['ok']['d'] if isinstance(k, dict)}
    ops, reads = [], []
    for op in vm['ops']:
        if op[0] == 'w':
            ops.append(['w', op[1], tv])
        else:
            ops.append(['r', op[1]])
            got = res.get(op[2], {'s': UNSET})
            reads.append(None if got == {'s': UNSET} else _jstr(got))
    canon = lambda v: _jstr(ic.enc(ic.dec(v)))
    return {'key': key, 'base': [[n, canon(v)] for n, v in vm['base']],
            'defaults': [[n, canon(v)] for n, v in vm['defaults']], 'ops': ops, 'impl_reads': reads}


def run_impl(case):
    import glom
    import glom.core as gc
    from glom.core import Path
    case = {k: v for k, v in case.items() if not k.startswith('impl')}
    saved_cache, saved_star = Path._CACHE, gc.PATH_STAR
    saved_warned = Path._STAR_WARNED
    Path._CACHE = {True: {}, False: {}}
    gc.PATH_STAR = True
    registered = []                      # classes registered on the module-level registry (undone at the end)
    klasses = _mk_classes(case.get('classes', []))
    by_name = {c.__name__: c for c in klasses}
    n_regs = case.get('n_regs', 1)
    glommers = [glom.Glommer() for _ in range(n_regs - 1)]
    reg_hist = [[] for _ in range(n_regs)]        # per registry: (class, handlers) in registration order

    def build_entry(entry):
        """-> (target, spec, caller's scope mapping or None, caller's path list or None)"""
        if 'py' in entry:
            tb, sb, _ = _py_pool()[entry['py']]
            return (tb(), sb(), None, None)
        fns = {}
        t = dec_o(entry['otarget'], klasses, fns) if 'otarget' in entry else ic.dec(entry['target'], fns)
        sc = {n: ic.dec(v, fns) for n, v in entry['scope']} if entry.get('scope') else None
        return (t, build06(entry['spec'], fns), sc, list(entry['cpath']) if 'cpath' in entry else None)
    objs = [build_entry(e) for e in case['pool']]
    first = {}
    fresh_jobs = []
    ops_out = []
    budget = case.get('fresh_budget', 4)
    try:
        for op in case['ops']:
            o = dict(op)
            if op['op'] == 'from_text':
                with warnings.catch_warnings():
                    warnings.simplefilter('ignore')
                    p = Path.from_text(op['text'])
                o['impl_path'] = [[a, (b if isinstance(b, str) else None)] for a, b in p.items()]
            elif op['op'] == 'fill':
                for k in range(op['n']):
                    Path.from_text('%s%d' % (op['prefix'], k))
            elif op['op'] == 'set_star':
                gc.PATH_STAR = op['v']
            elif op['op'] == 'register':
                r = op.get('reg', 0)
                if 'cls' in op:
                    cls = by_name[op['cls']]
                    kw = {opn: tagged(opn, tag) for opn, tag in op.get('kw', [])}
                else:
                    cls = type('R%d' % sum(len(h) for h in reg_hist), (object,), {})
                    kw = {'get': getattr}
                if r == 0:
                    glom.register(cls, **kw)
                    registered.append(cls)
                else:
                    glommers[r - 1].register(cls, **kw)
                reg_hist[r].append((cls, kw))
            elif op['op'] == 'glom':
                entry = case['pool'][op['idx']]
                r = op.get('reg', 0)
                call = glom.glom if r == 0 else glommers[r - 1].glom
                t, s, sc, cp = objs[op['idx']]
                if 'tidx' in op:
                    t = objs[op['tidx']][0]          # the same spec object on another target
                if r != 0:
                    sc = None                        # Glommer.glom passes its own scope
                keys_before = {b: set(Path._CACHE[b]) for b in (True, False)}
                before = (snapshot(t), repr(s), snapshot(s) if isinstance(s, (list, tuple, dict)) else None,
                          deep_snapshot(t))
                g_before = deep_snapshot(s)
                sc_before = [deep_snapshot(sc), deep_snapshot(cp)]
                oc = outcome(t, s, gc.PATH_STAR, call, sc, cp)
                after = (snapshot(t), repr(s), snapshot(s) if isinstance(s, (list, tuple, dict)) else None,
                         deep_snapshot(t))
                o['inputs_unchanged'] = (before == after)
                o['spec_graph_unchanged'] = (g_before == deep_snapshot(s))
                o['scope_unchanged'] = (sc_before == [deep_snapshot(sc), deep_snapshot(cp)])
                # texts this call parsed and stored (the model replays them to stay in step)
                o['impl_new_keys'] = sorted([b, k] for b in (True, False)
                                            for k in set(Path._CACHE[b]) - keys_before[b])
                # outcome must not depend on the history of this spec *object*: compare with freshly
                # built, structurally identical objects evaluated right now
                t2 = build_entry(case['pool'][op.get('tidx', op['idx'])])[0]
                _, s2, sc2, cp2 = build_entry(entry)
                oc2 = outcome(t2, s2, gc.PATH_STAR, call, sc2 if r == 0 else None, cp2)
                o['same_as_rebuilt'] = (strip_fn_names(oc2) == strip_fn_names(oc))
                if 'py' in entry and 'tidx' not in op:
                    # a fixed (target, spec) pair: the result is known whatever came before
                    o['same_as_expected'] = (oc.get('ok') == ic.enc(_py_pool()[entry['py']][2]))
                keyf = (op['idx'], op.get('tidx'), gc.PATH_STAR, r, len(reg_hist[r]))
                if keyf not in first:
                    first[keyf] = oc
                o['same_as_first'] = (first[keyf] == oc)
                # ... nor on which lookups were made before the registrations in force: the same call in
                # a freshly built registry given the same registrations in the same order
                if sc is None and ('otarget' in entry or reg_hist[r]):
                    fg = glom.Glommer()
                    for cls, kw in reg_hist[r]:
                        fg.register(cls, **kw)
                    t3 = build_entry(case['pool'][op.get('tidx', op['idx'])])[0]
                    s3 = build_entry(entry)[1]
                    oc3 = outcome(t3, s3, gc.PATH_STAR, fg.glom)
                    o['same_as_fresh_registry'] = (strip_fn_names(oc3) == strip_fn_names(oc))
                    if not o['same_as_fresh_registry']:
                        o['here'], o['fresh_registry'] = oc, oc3
                if 'lookups' in entry and 'tidx' not in op and 'ok' in oc:
                    ran = {(l['type'], l['op']): l['handler'] for l in oc['log'] if 'handler' in l}
                    o['impl_lookups'] = [[ty, opn, ran.get((ty, opn), 'default')] for ty, opn in entry['lookups']]
                if 'star' in entry and 'tidx' not in op and 'ok' in oc and (gc.PATH_STAR or not entry['star_text']):
                    o['impl_star'] = star_observation(entry, oc)
                vo = vars_observation(entry, 'e%d' % op['idx'], t, oc)
                if vo is not None:
                    o['vars'] = vo
                o['same_as_fresh'] = None
                if budget > 0 and not reg_hist[0] and r == 0 and 'target' in entry and 'holder' not in entry \
                        and 'tidx' not in op:
                    budget -= 1
                    fresh_jobs.append((len(ops_out), oc,
                                       (os.environ.get('GLOM_REPO', '/repo'), entry['target'], entry['spec'], gc.PATH_STAR)))
            if op['op'] != 'register' and op['op'] != 'set_star':
                o['impl_sizes'] = [len(Path._CACHE[True]), len(Path._CACHE[False])]
            ops_out.append(o)
    finally:
        Path._CACHE, gc.PATH_STAR = saved_cache, saved_star
        Path._STAR_WARNED = saved_warned
        reg = gc._DEFAULT_SCOPE[gc.TargetRegistry]
        for cls in registered:       # undo the module-level registrations
            for tmap in reg._op_type_map.values():
                tmap.pop(cls, None)
            for tree in reg._op_type_tree.values():
                _prune(tree, cls)
        reg._type_cache = {}
    if fresh_jobs:
        results = fresh_pool().map(fresh_outcome, [j[2] for j in fresh_jobs])
        for (pos, oc, _), fr in zip(fresh_jobs, results):
            ops_out[pos]['same_as_fresh'] = (fr == oc)
            if fr != oc:
                ops_out[pos]['fresh'] = fr
                ops_out[pos]['here'] = oc
    out = dict(case)
    out['ops'] = ops_out
    out['impl'] = {'n_ops': len(ops_out)}
    return out


def _prune(tree, cls):
    for k in list(tree):
        if k is cls:
            sub = tree.pop(k)
            tree.update(sub)
        else:
            _prune(tree[k], cls)


OBSERVED = ('same_as_expected', 'same_as_first', 'same_as_fresh', 'same_as_rebuilt', 'inputs_unchanged', 'fresh', 'here',
            'same_as_fresh_registry', 'fresh_registry', 'spec_graph_unchanged', 'scope_unchanged', 'vars')


def key(case):
    return {'ops': [{k: v for k, v in o.items() if not k.startswith('impl') and k not in OBSERVED}
                    for o in case['ops']],
            'pool': case['pool'], 'classes': case.get('classes', []), 'n_regs': case.get('n_regs', 1)}


def nontrivial(case, verdict):
    seen = set()
    changed = False
    for o in case['ops']:
        if o['op'] in ('fill', 'set_star', 'register', 'from_text'):
            changed = True
        if o['op'] == 'glom':
            if o['idx'] in seen and changed:
                return True
            seen.add(o['idx'])
    return False


def shrink(case):
    base = {k: v for k, v in case.items() if not k.startswith('impl')}
    ops = [{k: v for k, v in o.items() if k in ('op', 'text', 'prefix', 'n', 'v', 'idx', 'tidx', 'reg', 'cls', 'kw')}
           for o in case['ops']]
    n = len(ops)
    step = max(n // 2, 1)
    while step >= 1:
        for i in range(0, n, step):
            c = dict(base)
            c['ops'] = ops[:i] + ops[i + step:]
            if c['ops']:
                yield c
        step //= 2
