"""C06 — non-mutating specs are pure; outcome independent of history (caches, repeats, toggles)."""
import json
import multiprocessing
import os
import random
import warnings

from harness import interp_common as ic
from harness.interp_gen import Gen

PROP = 'C06'
LEAN_MODULES = ['Glom.Props.C06']
FACT_FILES = ['C06Facts', 'c06']
READY = True
RULE = ('one case = one history of 20-200 operations on one interpreter whose caches are reset first: direct '
        'Path.from_text calls on a pool of texts (with "*" / "**" / empty / repeated segments), glom calls drawn from a '
        'pool of 12 (target, spec) pairs with repeats of the same spec object (string paths, dict/list/tuple specs, '
        'Coalesce, wildcard paths), PATH_STAR toggles, module-level registrations of a fresh class between calls, and in '
        'half of the histories a fill of 10 050 distinct path strings (cache overflow). After every operation the '
        'implementation reports the returned Path and len() of both sub-caches; for every glom call: outcome vs the first '
        'time that call was made in this history, vs the same call made first in a freshly spawned interpreter '
        '(spawned process per call; 60 per run quick, 2000 thorough), and a deep snapshot (structure + object ids) of '
        'target, spec and scope mapping before/after. non-trivial = history has a repeat of a call after a cache-changing '
        'operation; distinct = distinct op sequences')
TRUSTED = ['the handler memo of TargetRegistry is proved in the abstract model (c06_handler_memo) and in C13 '
           '(c13_lookup_pure); here it is exercised through glom calls only']
ASSUMPTIONS = ['"inputs untouched" is observed (snapshots), not proved at heap level: the interpreter model has immutable '
               'values', 'specs in the pool contain no Assign/Delete/scope assignment into target-owned objects']
MANIFEST = dict(
    text=("Lean 4 theorems about the two caches exactly as glom implements them (Path.from_text: membership test, "
          "overflow bypass when len > _MAX_CACHE, store, return; one dict per PATH_STAR value; get_handler memo reset by "
          "register/register_op): the cache invariant is preserved by every operation, every answer equals the uncached "
          "one on hit, miss and overflow, and for every finite history of calls (arbitrary adaptive query strategies), "
          "PATH_STAR toggles and registrations each call's outcome equals the cache-free reference (c06_history, "
          "c06_after_any_calls). Per-run facts obligation (decide) on the regenerated shape of from_text / get_handler / "
          "register; correspondence replays whole histories through the compiled model comparing returned paths and both "
          "cache sizes after every operation, plus fresh-interpreter outcomes and before/after snapshots."),
    note=("partial: the 'inputs untouched' half is observed by snapshots and holds by construction in the immutable-value "
          "interpreter model; no heap-level frame theorem. trusted: Lean kernel + {propext, Classical.choice, Quot.sound}; "
          "extractor; harness/driver; a call interacts with shared library state only through the two caches (that "
          "everything else is per call is C20/C07's subject)."),
    technique='Lean 4 invariant proof over operation histories (adaptive-strategy model of calls) + facts obligation by decide + differential correspondence incl. fresh-interpreter comparison',
    ref='DESIGN.md §3 C06')

TEXTS = ['a', 'a.b', 'a.*', '*', '**', '**.b', 'a.*.b', 'x.0.y', '', 'a..b', '0', 'k0.k1.k2', '*.*', 'a.**.c']


def pool(rng):
    """(target, spec) pairs as JSON; specs lean on string paths so that the path cache matters"""
    out = []
    g = Gen(rng, {'extra': []})
    fixed = [
        ({'a': {'b': 1, 'c': [1, 2]}, 'k': 'v'}, {'k': 'str', 's': 'a.b'}),
        ({'a': {'b': 1, 'c': [1, 2]}, 'k': 'v'}, {'k': 'str', 's': 'a.*'}),
        ({'a': [{'k': 1}, {'k': 2}], 'k': 0}, {'k': 'str', 's': '**.k'}),
        ({'a': {'b': 1}}, {'k': 'dict', 'es': [[{'k': 'str', 's': 'x'}, {'k': 'str', 's': 'a.b'}],
                                              [{'k': 'str', 's': 'y'}, {'k': 'str', 's': 'a.zz'}]]}),
        ({'*': 5, 'a': {'*': 6}}, {'k': 'str', 's': 'a.*'}),
        ([{'a': 1}, {'a': 2}], {'k': 'list', 'xs': [{'k': 'str', 's': 'a'}]}),
        ({'a': {'b': 1}}, {'k': 'coalesce', 'subs': [{'k': 'str', 's': 'a.zz'}, {'k': 'str', 's': 'a.b'}],
                           'dflt': None, 'dflt_factory': None, 'skip': None, 'skip_exc': ['GlomError']}),
    ]
    for t, s in fixed:
        out.append((ic.enc(t), s))
    while len(out) < 12:
        t = g.target()
        out.append((ic.enc(t), g.spec(t, 2)))
    return out


def _py_pool():
    import glom as G
    from glom.grouping import Group
    return {
        # name -> (target builder, spec builder): specs outside the interpreter model's AST, built directly
        'group_flatten': (lambda: [[1, 2], [3], [1, 4]], lambda: Group({G.T[0]: G.Flatten()})),
        'group_fold_list': (lambda: [[1], [2], [1, 3]], lambda: Group({len: G.Fold(G.T, init=list)})),
        'flatten': (lambda: [[1, [2]], [3]], lambda: G.Flatten()),
        'merge': (lambda: [{'a': 1}, {'b': 2}, {'a': 3}], lambda: G.Merge()),
        'sum_lists': (lambda: [[1], [2, 3]], lambda: G.Sum(init=list)),
        'iter_all': (lambda: [3, 1, 2], lambda: G.Iter().map(G.T * 2).all()),
        'arg_list': (lambda: {'rows': [{'id': 1}, {'id': 2}]},
                     lambda: ('rows', [G.Coalesce('name', default=[G.T['id'], 'n/a'])])),
        'arg_dict_call': (lambda: [1, 2, 3], lambda: [G.Call(dict, kwargs={'v': G.T})]),
    }


PY_NAMES = ['arg_dict_call', 'arg_list', 'flatten', 'group_flatten', 'group_fold_list', 'iter_all', 'merge', 'sum_lists']


def generate(rng, tier, scale, **focus):
    n = (16 if tier == 'quick' else 300) * scale
    for i in range(n):
        pl = pool(rng)
        ops = []
        overflow_at = rng.randrange(5, 40) if (i % 2 == 0) else None
        length = rng.randint(20, 80 if tier == 'quick' else 200)
        for k in range(length):
            if overflow_at == k:
                ops.append({'op': 'fill', 'prefix': 'ovf%d_' % i, 'n': 10050})
            p = rng.random()
            if p < 0.35:
                ops.append({'op': 'from_text', 'text': rng.choice(TEXTS)})
            elif p < 0.85:
                ops.append({'op': 'glom', 'idx': rng.randrange(len(pl))})
            elif p < 0.95:
                ops.append({'op': 'set_star', 'v': rng.random() < 0.5})
            else:
                ops.append({'op': 'register'})
        names = PY_NAMES
        entries = [{'target': t, 'spec': s} for t, s in pl] + [{'py': n} for n in names]
        # cross evaluations: the same spec object on another pool entry's target
        for o in ops:
            if o['op'] == 'glom':
                if rng.random() < 0.35:
                    o['idx'] = len(pl) + rng.randrange(len(names))
                elif rng.random() < 0.3:
                    o['tidx'] = rng.randrange(len(pl))
        yield {'pool': entries, 'ops': ops, 'fresh_budget': 4 if tier == 'quick' else 7}


def corpus():
    p = os.path.join(os.path.dirname(os.path.dirname(os.path.dirname(os.path.abspath(__file__)))),
                     'corpus', PROP + '.jsonl')
    out = []
    if os.path.exists(p):
        for line in open(p):
            if line.strip():
                out.append(json.loads(line))
    return out


def snapshot(obj, seen=None):
    """structure + identity of every container"""
    if seen is None:
        seen = {}
    if isinstance(obj, (list, tuple, set, frozenset)):
        if id(obj) in seen:
            return ('ref', seen[id(obj)])
        seen[id(obj)] = len(seen)
        items = list(obj) if not isinstance(obj, (set, frozenset)) else sorted(obj, key=repr)
        return (type(obj).__name__, id(obj), [snapshot(x, seen) for x in items])
    if isinstance(obj, dict):
        if id(obj) in seen:
            return ('ref', seen[id(obj)])
        seen[id(obj)] = len(seen)
        return (type(obj).__name__, id(obj), [(snapshot(k, seen), snapshot(v, seen)) for k, v in obj.items()])
    return repr(obj)


def outcome(target, spec, star):
    import glom
    import glom.core as gc
    gc.PATH_STAR = star
    del ic.LOG[:]
    try:
        with warnings.catch_warnings():
            warnings.simplefilter('ignore')
            res = glom.glom(target, spec)
        out = {'ok': ic.enc(res)}
    except Exception as e:
        out = {'err': ic.exc_name(e)}
    out['log'] = list(ic.LOG)
    del ic.LOG[:]
    return out


def strip_fn_names(oc):
    return json.loads(json.dumps(oc))


def fresh_outcome(args):
    """runs in a freshly spawned interpreter: the call is the first glom call it ever makes"""
    import sys
    repo, tj, sj, star = args
    sys.path.insert(0, repo)
    from harness import interp_common as ic2
    fns = {}
    return outcome(ic2.dec(tj, fns), ic2.build(sj, fns), star)


_POOL = None


def fresh_pool():
    global _POOL
    if _POOL is None:
        ctx = multiprocessing.get_context('spawn')
        _POOL = ctx.Pool(processes=8, maxtasksperchild=1)
    return _POOL


def run_impl(case):
    import glom
    import glom.core as gc
    from glom.core import Path
    case = {k: v for k, v in case.items() if not k.startswith('impl')}
    saved_cache, saved_star = Path._CACHE, gc.PATH_STAR
    saved_warned = Path._STAR_WARNED
    Path._CACHE = {True: {}, False: {}}
    gc.PATH_STAR = True
    registered = []
    def build_entry(entry):
        if 'py' in entry:
            tb, sb = _py_pool()[entry['py']]
            return (tb(), sb())
        fns = {}
        return (ic.dec(entry['target'], fns), ic.build(entry['spec'], fns))
    objs = [build_entry(e) for e in case['pool']]
    first = {}
    fresh_jobs = []
    ops_out = []
    budget = case.get('fresh_budget', 4)
    try:
        for op in case['ops']:
            o = dict(op)
            if op['op'] == 'from_text':
                with warnings.catch_warnings():
                    warnings.simplefilter('ignore')
                    p = Path.from_text(op['text'])
                o['impl_path'] = [[a, (b if isinstance(b, str) else None)] for a, b in p.items()]
            elif op['op'] == 'fill':
                for k in range(op['n']):
                    Path.from_text('%s%d' % (op['prefix'], k))
            elif op['op'] == 'set_star':
                gc.PATH_STAR = op['v']
            elif op['op'] == 'register':
                cls = type('R%d' % len(registered), (object,), {})
                glom.register(cls, get=getattr)
                registered.append(cls)
            elif op['op'] == 'glom':
                t, s = objs[op['idx']]
                if 'tidx' in op:
                    t = objs[op['tidx']][0]          # the same spec object on another target
                keys_before = {b: set(Path._CACHE[b]) for b in (True, False)}
                before = (snapshot(t), repr(s), snapshot(s) if isinstance(s, (list, tuple, dict)) else None)
                oc = outcome(t, s, gc.PATH_STAR)
                after = (snapshot(t), repr(s), snapshot(s) if isinstance(s, (list, tuple, dict)) else None)
                o['inputs_unchanged'] = (before == after)
                # texts this call parsed and stored (the model replays them to stay in step)
                o['impl_new_keys'] = sorted([b, k] for b in (True, False)
                                            for k in set(Path._CACHE[b]) - keys_before[b])
                # outcome must not depend on the history of this spec *object*: compare with freshly
                # built, structurally identical objects evaluated right now
                t2 = build_entry(case['pool'][op.get('tidx', op['idx'])])[0]
                s2 = build_entry(case['pool'][op['idx']])[1]
                oc2 = outcome(t2, s2, gc.PATH_STAR)
                o['same_as_rebuilt'] = (strip_fn_names(oc2) == strip_fn_names(oc))
                keyf = (op['idx'], op.get('tidx'), gc.PATH_STAR)
                if keyf not in first:
                    first[keyf] = oc
                o['same_as_first'] = (first[keyf] == oc)
                o['same_as_fresh'] = None
                if budget > 0 and len(registered) == 0 and 'py' not in case['pool'][op['idx']] and 'tidx' not in op:
                    budget -= 1
                    entry = case['pool'][op['idx']]
                    fresh_jobs.append((len(ops_out), oc,
                                       (os.environ.get('GLOM_REPO', '/repo'), entry['target'], entry['spec'], gc.PATH_STAR)))
            if op['op'] != 'register' and op['op'] != 'set_star':
                o['impl_sizes'] = [len(Path._CACHE[True]), len(Path._CACHE[False])]
            ops_out.append(o)
    finally:
        Path._CACHE, gc.PATH_STAR = saved_cache, saved_star
        Path._STAR_WARNED = saved_warned
        reg = gc._DEFAULT_SCOPE[gc.TargetRegistry]
        for cls in registered:       # undo the module-level registrations
            for tmap in reg._op_type_map.values():
                tmap.pop(cls, None)
            for tree in reg._op_type_tree.values():
                _prune(tree, cls)
        reg._type_cache = {}
    if fresh_jobs:
        results = fresh_pool().map(fresh_outcome, [j[2] for j in fresh_jobs])
        for (pos, oc, _), fr in zip(fresh_jobs, results):
            ops_out[pos]['same_as_fresh'] = (fr == oc)
            if fr != oc:
                ops_out[pos]['fresh'] = fr
                ops_out[pos]['here'] = oc
    out = dict(case)
    out['ops'] = ops_out
    out['impl'] = {'n_ops': len(ops_out)}
    return out


def _prune(tree, cls):
    for k in list(tree):
        if k is cls:
            sub = tree.pop(k)
            tree.update(sub)
        else:
            _prune(tree[k], cls)


def key(case):
    return {'ops': [{k: v for k, v in o.items() if not k.startswith('impl') and k not in
                     ('same_as_first', 'same_as_fresh', 'same_as_rebuilt', 'inputs_unchanged', 'fresh', 'here')} for o in case['ops']],
            'pool': case['pool']}


def nontrivial(case, verdict):
    seen = set()
    changed = False
    for o in case['ops']:
        if o['op'] in ('fill', 'set_star', 'register', 'from_text'):
            changed = True
        if o['op'] == 'glom':
            if o['idx'] in seen and changed:
                return True
            seen.add(o['idx'])
    return False


def shrink(case):
    base = {k: v for k, v in case.items() if not k.startswith('impl')}
    ops = [{k: v for k, v in o.items() if k in ('op', 'text', 'prefix', 'n', 'v', 'idx', 'tidx')} for o in case['ops']]
    n = len(ops)
    step = max(n // 2, 1)
    while step >= 1:
        for i in range(0, n, step):
            c = dict(base)
            c['ops'] = ops[:i] + ops[i + step:]
            if c['ops']:
                yield c
        step //= 2
