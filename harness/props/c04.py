"""C04 — exceptions keep their class; glom failures are GlomErrors; default is selective.

Generators, implementation runner, shrinker.  The catalogue of exception classes is
generated from the same constructor-shape data the Lean model interprets
(lean/Glom/Model/C04Shape.lean `Shape.construct` <-> `make_class` below)."""
import itertools
import json
import os

PROP = 'C04'
LEAN_MODULES = ['Glom.Props.C04']
FACT_FILES = ['ExcFacts', 'C04Facts', 'TFacts', 'c04']
READY = True
THEOREMS_PER_MODULE = {'Glom.Props.C04': 36}

# ---------------------------------------------------------------------------------------------------
# KNOWN FINDINGS (KNOWN_FINDINGS.txt; counter-example theorems c04_class_counterexample_frozen / _bool_raises /
# _foreign_copy in Props/C04.lean) — generated like every other class, classified by `classify` below:
#   glomerror_refuses_setattr   a GlomError subclass whose `__setattr__` raises (frozen dataclass), or an exception
#            whose `__bool__` raises: `err._set_wrapped(e)` / `err._finalize()` (which formats the traceback of `e`
#            and so evaluates bool(e)) in glom()'s handler are unguarded; the AttributeError / RuntimeError leaves glom()
#   copy_returns_other_class    a user `__copy__` returning an object of another class with the same args: glom()
#            raises the copy
# (the third kind reported with them — a class that refuses to be subclassed — was repaired by 205945c: `type(...)`
#  now stands inside GlomError.wrap's try; `c04_facts_wf` demands it, the revert is caught by sealed classes)
KNOWN_CLASSIFIERS = ('glomerror_refuses_setattr', 'copy_returns_other_class')
#
# SWITCH — a frame kind on which the UNCHANGED glom breaks the property (reported to the lead; gated until repaired):
#   SAssign  `S(v=Spec(x))` as a step of a tuple.  `_handle_tuple` appends the S-rooted step to scope[Path];
#            when a LATER step of that tuple is a list spec whose target cannot be iterated (`__iter__` / the
#            registered `iterate` raises), `_handle_list` renders its TypeError message with `Path(*scope[Path])`,
#            which refuses an S-rooted segment after the first: ValueError('path segment must be path from T, not S')
#            leaves glom() in place of the TypeError the `raise` names (c04_conv_outcome / c04_internal_subtypes).
S_SEGMENT_IN_PATH = os.environ.get('C04_SSEG', '') == '1'
# ---------------------------------------------------------------------------------------------------

MANIFEST = dict(
    text="Lean 4 theorems over a code-shaped model of glom()'s keyword defaulting, its two nested try blocks, "
         "copy.copy of GlomErrors (incl. user __reduce__/__copy__ and AttributeError's state-carrying reduce), "
         "GlomError.wrap with the C3 linearisation of the class it creates, _set_wrapped/_finalize: for EVERY "
         "exception class (any MRO, any constructor Args -> Option Args, truthy or falsy), every .args and every "
         "(default, skip_exc, glom_debug): what leaves glom() is an instance of the original class — and of every "
         "class the original was an instance of, so every except clause keeps working (c04_class, "
         "c04_except_clauses) — with the same args (c04_args), is also a GlomError when the class is an Exception "
         "subclass rebuildable from its args (c04_glomerror), the default object itself is returned exactly for "
         "errors matching skip_exc at their origin (c04_selective; what was selected stays selected further out: "
         "c04_selected_monotone), glom_debug propagates the original object with its __cause__/__context__ "
         "(c04_debug_identity), otherwise the original stays reachable as __wrapped, the wrapper's own chain being "
         "empty (c04_chain, c04_wrapper_fresh_chain), BaseException-only classes pass untouched; the C3 merge is "
         "modelled for arbitrary hierarchies and proved to keep every base catchable and every given order "
         "(c04_c3_sound, c04_c3_order, c04_c3_single, c04_wrapper_catchable) and to succeed with GlomError directly before "
         "Exception for every consistent exception MRO (c04_wrapper_mro); a wrapped error wrapped again keeps its "
         "MRO, an outer glom() keeps class and args of what an inner one raised (c04_wrap_of_wrapped, "
         "c04_rewrap_stable, c04_wrap_idempotent); a fault at any depth under any nesting of "
         "tuple/dict/list/Spec/Call/Invoke/Iter frames reaches the handler unchanged (c04_plain_frames), passes a "
         "Coalesce exactly when it does not match its skip_exc (c04_coalesce_selective), is converted by glom's own "
         "try blocks — seen from outside the whole call — exactly for the classes they name (c04_conv_outcome), and for EVERY nesting of plain / "
         "iterator / Coalesce / nested glom(default=, skip_exc=) levels the level that replaces it is the first "
         "whose skip_exc matches what reaches it, what gets through keeps every class of the original "
         "(c04_levels, c04_levels_faithful, c04_nested_selective: induction over the nesting; c04_origin_sound: "
         "mutual induction over specs). Per-run facts obligations by `decide` on tables regenerated from /repo "
         "(c04_facts_wf, c04_internal_subtypes). Eight counter-example theorems: the five pre-repair shapes and the "
         "three class kinds of the two known findings. Model tied to the code by differential execution "
         "on generated classes x fault sources x fault positions x the keyword matrix x entry points x histories.",
    note="trusted: Lean kernel + {propext, Classical.choice, Quot.sound}; extractor (AST patterns of glom(), "
         "GlomError.wrap, _glom, Coalesce.glomit, _handle_list, Spec.glom/Glommer.glom, _t_eval branches, __copy__ "
         "overrides of glom's exception classes, raise statements); harness/driver; CPython's exception "
         "construction, BaseException.__reduce_ex__ / AttributeError.__reduce__ / copy.copy, raise/except (context "
         "chaining), the C constructors of OSError/UnicodeDecodeError/ExceptionGroup as modelled in "
         "Glom/Model/C04*.lean and validated by the correspondence only (the C3 merge is modelled, proved sound and "
         "validated against type.__mro__ on generated multiple-inheritance hierarchies). Args are "
         "None/int/str/bytes/opaque objects/lists of exceptions (no bool/float, so == is structural); constructors "
         "that raise raise Exception subclasses; repr() of the exception does not raise; no user __new__; an "
         "exception whose __bool__ raises is not in the __context__ chain of another handled exception. KNOWN "
         "FINDINGS (generated, classified only when the implementation behaves like the model of the current code; "
         "counter-example theorems c04_class_counterexample_frozen / _bool_raises / _foreign_copy): "
         "glomerror_refuses_setattr (_set_wrapped/_finalize in glom() unguarded), copy_returns_other_class. "
         "Repaired and mirrored: 205945c (type() inside wrap's try: demanded by c04_facts_wf, revert caught by "
         "classes that refuse subclassing). Gated (S_SEGMENT_IN_PATH): an S-rooted tuple step before a list spec "
         "whose target cannot be iterated makes _handle_list's message unrenderable (ValueError leaves).",
    technique='Lean 4 proof over exception classes as data (case analysis of the handler, C3 merge by induction, '
              'induction over frame contexts / nesting levels / mutual induction over specs) + facts obligations '
              'by decide + differential correspondence with self-contained (hermetic) histories',
    ref='DESIGN.md §3 C04, §6 reading 3')
RULE = ('type-directed: an exception class is drawn from a catalogue generated from constructor-shape data '
        '(builtins incl. OSError/UnicodeDecodeError/ExceptionGroup whose C constructors rewrite or validate args, '
        'glom\'s own classes, user classes over one or SEVERAL bases (Exception/builtin/GlomError/TypeMatchError/'
        'KeyboardInterrupt, GlomError as a mix-in before or after a builtin) with store-all, no-super, prefix, len '
        '(arity-changing), const, reversing, validating (ValueError), keyword-only, fixed-arity constructors, falsy instances, '
        '__eq__/__hash__ overridden, __slots__, classes that refuse subclassing, refuse setattr, whose __bool__ raises, a user '
        '__reduce__ / __copy__, two-level subclasses), built with arguments that fit its signature (sometimes '
        '.args reassigned afterwards, __cause__/__context__ set, or the CLASS raised instead of an instance); the '
        'fault is raised by a callable spec, the function of Call/Invoke/T(...), a default_factory, a Coalesce '
        'skip predicate, __next__/__iter__/__getitem__/__getattr__ of the target or a registered iterate/get '
        'handler; a spec tree of tuple/dict/list/Spec/Auto/Pipe/Ref/Call-arg/Invoke-spec/Fill/Check/S frames, '
        'First/Iter().first/map/filter steps, Coalesce nodes and nested glom()/Spec.glom()/Glommer.glom() calls '
        'with their own default/skip_exc/glom_debug is generated with the fault at a random position and '
        'mostly-returning siblings; a one-edit mutation stream moves the fault, changes its source, plants a '
        'failing path / Match before it, wraps it in a Coalesce or a nested glom call whose skip_exc does / does '
        'not match; keywords from default in {absent, a fresh object, a list / dict / tuple / set, a T / S / Spec object} '
        '(returned by identity; for a list also: a later append reaches the caller) x skip_exc in {absent, the class, a base, an '
        'unrelated class, a tuple, (), GlomError} x glom_debug in {absent, False, True} x entry point in '
        '{glom, Spec.glom, Glommer.glom}; thorough also enumerates catalogue x keyword matrix x contexts. '
        'non-trivial = an exception reached glom()\'s handler and (it was raised below the top level, or a '
        'keyword was given, or its class is not a plain store-all builtin); '
        'every fifth case carries a HISTORY (earlier faults raised through glom() in the same process: the same '
        'class with other, often non-rebuildable, args, or another class under the same name); '
        'distinct = distinct (classes, exception, spec, settings, entry, history)')
TRUSTED = ['generated user classes define __copy__/__reduce__ only as the case says; args are None/int/str/bytes/'
           'opaque objects / lists of exceptions; GLOM_DEBUG is not set in the environment of the check']
ASSUMPTIONS = ['default registry (plus the handlers a case registers on its own Glommer); specs limited to the node '
               'kinds listed in RULE', 'GLOM_DEBUG unset',
               'READING (conversions): an exception raised by a method of the TARGET (or a registered handler) inside '
               "one of glom's own try blocks is a failure detected by glom itself for exactly the classes the except "
               "clause names, and must then leave as the class the `raise` in that handler names (PathAccessError; "
               "TypeError for iterate); for every other class the user's exception keeps its class",
               'READING (also a GlomError): demanded only of classes a subclass of which can be created and whose '
               'instances accept new attributes and can have their traceback formatted (`extensible`)',
               'READING (original object under glom_debug): the same object with its __cause__ and __context__ '
               'unchanged',
               'READING (exception raised by the __repr__ of a user exception while glom renders one of its own '
               "messages): user code raised it, it keeps ITS class — not a violation; such exceptions are outside the "
               'generated domain (impl kind repr_error)']

PLAIN_BASES = ['Exception', 'KeyError', 'ValueError', 'ZeroDivisionError', 'IndexError', 'AttributeError',
               'TypeError', 'LookupError', 'StopIteration', 'RuntimeError', 'GlomError', 'BadSpec', 'FoldError',
               'KeyboardInterrupt', 'SystemExit', 'BaseException']
SPECIAL_BASES = ['OSError', 'FileNotFoundError', 'UnicodeDecodeError', 'TypeMatchError', 'MatchError',
                 'PathAccessError', 'CoalesceError', 'GeneratorExit', 'CheckError', 'PathAssignError',
                 'PathDeleteError', 'UnregisteredTarget', 'ExceptionGroup', 'BaseExceptionGroup']
GLOM_NAMES = ['GlomError', 'BadSpec', 'FoldError', 'TypeMatchError', 'MatchError', 'PathAccessError',
              'CoalesceError', 'CheckError', 'PathAssignError', 'PathDeleteError', 'UnregisteredTarget']
ARITY = {'TypeMatchError': 2, 'PathAccessError': 3, 'CoalesceError': 3, 'CheckError': 3, 'PathAssignError': 3,
         'PathDeleteError': 3, 'UnregisteredTarget': 4}
UNRELATED = ['ZeroDivisionError', 'FloatingPointError', 'BufferError', 'CheckError', 'EOFError']
# second / third bases of a multiple-inheritance class: no C-level fields of their own (no lay-out conflict),
# no __init__ of their own
MIXINS = ['GlomError', 'KeyError', 'ValueError', 'LookupError', 'IndexError', 'TypeError', 'RuntimeError',
          'ArithmeticError', 'ZeroDivisionError', 'BadSpec', 'FoldError']

FAULT_DIRECT = ['fn', 'call', 'invoke', 'tcall', 'factory', 'skipfunc']
FAULT_ITER = ['next']
FAULT_CONV = {'iter': 'iter', 'reg_iter': 'iter', 'getitem': 'getitem', 'getattr': 'getattr', 'path': 'path',
              'reg_get': 'path'}
FAULT_KINDS = FAULT_DIRECT + FAULT_ITER + sorted(FAULT_CONV)
FRAME_KINDS = ['Spec', 'Auto', 'Pipe', 'Ref', 'CallArg', 'InvokeSpec', 'FillAuto'] + (['SAssign'] if S_SEGMENT_IN_PATH else [])

FIRST_KINDS = ['First', 'IterFirst', 'IterMap', 'IterFilter', 'IterMapFirst']
ENTRIES = ['glom', 'spec', 'glommer']


# ------------------------------------------------------------------ classes from shape data
def real_class(name):
    import builtins
    import glom
    import glom.matching
    import glom.mutation
    import glom.reduction
    for mod in (builtins, glom, glom.core, glom.matching, glom.mutation, glom.reduction):
        v = getattr(mod, name, None)
        if isinstance(v, type) and issubclass(v, BaseException):
            return v
    raise KeyError(name)


def make_class(name, bases, shape, falsy, copy_kind='args', sealed=False, frozen=False, eqhash=False, slots=False,
               boolraises=False):
    """Python class from the shape data (the Lean reading of the same data is `Shape.construct`)."""
    ns = {}
    if falsy:
        ns['__bool__'] = lambda self: False
    if boolraises:
        def bool_(self):
            raise RuntimeError('bool')
        ns['__bool__'] = bool_
    if eqhash:          # never equal to anything (itself included), unhashable: glom must go by identity
        ns['__eq__'] = lambda self, other: False
        ns['__ne__'] = lambda self, other: True
        ns['__hash__'] = None
    if slots:
        ns['__slots__'] = ('extra',)
    if copy_kind == 'self':
        ns['__copy__'] = lambda self: self
    elif copy_kind == 'foreign':
        def foreign_copy(self):
            import glom
            return glom.GlomError(*self.args)
        ns['__copy__'] = foreign_copy
    elif copy_kind == 'init':
        ns['__reduce__'] = lambda self: (type(self), self._init)
    if sealed:
        def refuse(cls, **kw):
            raise TypeError('%s is final' % name)
        ns['__init_subclass__'] = classmethod(refuse)
    if frozen:
        def setattr_(self, k, v):
            raise AttributeError('setattr')
        ns['__setattr__'] = setattr_
    if shape is not None:
        lo, hi, kwreq, store = shape['sig']
        params = ['a%d' % i for i in range(lo)]
        sig = ['self'] + params
        if hi is None:
            sig.append('*rest')
        elif kwreq:
            sig.append('*')
        if kwreq:
            sig.append('code')
        allargs = '(%s)%s' % (''.join(p + ', ' for p in params), ' + rest' if hi is None else '')
        body = ['args = ' + allargs]
        if store == 'all':
            body.append('super(K, self).__init__(*args)')
        elif store == 'nosuper':
            pass
        elif store == 'needint':       # a validating constructor: raises something other than TypeError
            body.append("if not args or type(args[0]) is not int: raise ValueError('need an int')")
            body.append('super(K, self).__init__(*args)')
        elif store == 'len':
            body.append('super(K, self).__init__(len(args))')
        elif store == 'rev':
            body.append('super(K, self).__init__(*reversed(args))')
        elif isinstance(store, dict) and 'pre' in store:
            body.append('super(K, self).__init__(*args[:%d])' % store['pre'])
        elif isinstance(store, dict) and 'const' in store:
            body.append('super(K, self).__init__(%r)' % store['const'])
        else:
            raise ValueError(store)
        body.append("object.__setattr__(self, 'first', args[0] if args else None)")
        body.append("object.__setattr__(self, '_init', args)")
        if kwreq:
            body.append("object.__setattr__(self, 'code', code)")
        src = 'def __init__(%s):\n%s\n' % (', '.join(sig), ''.join('    ' + b + '\n' for b in body))
        cell = {}
        g = {'K': None}
        exec(src, g, cell)
        ns['__init__'] = cell['__init__']
        K = type(name, tuple(bases), ns)
        g['K'] = K
        return K
    return type(name, tuple(bases), ns)


def bases_of(c):
    return c['bases'] if 'bases' in c else [c['base']]


def norm_class(c):
    """every field the driver reads, spelled out (the driver rejects a case with a missing field)"""
    out = {'name': c['name'], 'bases': list(bases_of(c)), 'shape': c.get('shape'), 'falsy': bool(c.get('falsy')),
           'copy': c.get('copy', 'args'), 'sealed': bool(c.get('sealed')), 'frozen': bool(c.get('frozen')),
           'boolraises': bool(c.get('boolraises'))}
    for k in ('eqhash', 'slots'):       # Python-only variety: the model does not depend on them
        if c.get(k):
            out[k] = True
    return out


def norm_exc(e):
    return {'cls': e['cls'], 'init': e['init'], 'kw': bool(e.get('kw')), 'set_args': e.get('set_args'),
            'raise_class': bool(e.get('raise_class')), 'cause': bool(e.get('cause')), 'context': bool(e.get('context'))}


_CLASS_MEMO = {}


def build_classes(specs):
    """name -> class.  The same list of class specs yields the SAME class objects for the whole process (so that
    successive cases, and the `before` history of a case, raise instances of one class through glom() again and
    again); different specs yield distinct classes, often under the same __name__ / __qualname__."""
    memo_key = json.dumps(specs, sort_keys=True)
    if memo_key in _CLASS_MEMO:
        return _CLASS_MEMO[memo_key]
    table = _build_classes(specs)
    if len(_CLASS_MEMO) < 20000:
        _CLASS_MEMO[memo_key] = table
    return table


def _build_classes(specs):
    table = {}
    for c in specs:
        bases = [table.get(b) or real_class(b) for b in bases_of(c)]
        table[c['name']] = make_class(c['name'], bases, c.get('shape'), c.get('falsy', False),
                                      c.get('copy', 'args'), c.get('sealed', False), c.get('frozen', False),
                                      c.get('eqhash', False), c.get('slots', False), c.get('boolraises', False))
    return table


class Opaque:
    __slots__ = ('n',)

    def __init__(self, n):
        self.n = n

    def __repr__(self):
        return 'Opaque(%d)' % self.n


class ArgCodec:
    """AVal <-> Python; every non-immediate object is named by identity"""

    def __init__(self):
        self.by_id = {}
        self.objs = {}
        self.next = 100

    def dec(self, j):
        if j is None:
            return None
        if 'i' in j:
            return j['i']
        if 's' in j:
            return j['s']
        if 'y' in j:
            return bytes.fromhex(j['y'])
        if 'x' in j:        # a non-empty list of exception instances
            n = 1000 + j['x']
            if n not in self.objs:
                o = [ValueError(j['x']), KeyError('sub')] + ([KeyboardInterrupt()] if j['x'] >= 10 else [])
                self.objs[n] = o
                self.by_id[id(o)] = n
            return self.objs[n]
        n = j['o']
        if n not in self.objs:
            o = Opaque(n)
            self.objs[n] = o
            self.by_id[id(o)] = n
        return self.objs[n]

    def enc(self, v):
        if v is None:
            return None
        if type(v) is int:
            return {'i': v}
        if type(v) is str:
            return {'s': v}
        if type(v) is bytes:
            return {'y': v.hex()}
        k = self.by_id.get(id(v))
        if k is None:
            k = self.next
            self.next += 1
            self.by_id[id(v)] = k
            self.objs[k] = v        # keep alive: ids must not be reused
        if type(v) is list and k >= 1000:
            return {'x': k - 1000}
        return {'o': k}

    def enc_args(self, args):
        return [self.enc(a) for a in args]


def mro_names(cls):
    return [k.__name__ for k in cls.__mro__]


# ------------------------------------------------------------------ specs
class Recorder:
    """a plain frame around the whole spec that records what reaches glom()'s handler"""

    def __init__(self, inner):
        self.inner = inner
        self.seen = None
        self.cause = None
        self.context = None

    def glomit(self, target, scope):
        import glom
        try:
            return scope[glom.glom](target, self.inner, scope)
        except BaseException as ex:
            self.seen = ex
            self.cause = ex.__cause__
            self.context = ex.__context__
            raise


class RegIter:
    """target class known only to the case's Glommer: its registered `iterate` raises"""


class RegGet:
    """target class known only to the case's Glommer: its registered `get` raises"""


# what the object passed as `default=` is: the property says it comes back ITSELF, whatever it is — a container
# (not an equal copy: the caller appends to it later), a T / S / Spec object (not its evaluation)
DEFAULT_KINDS = ['obj', 'obj', 'list0', 'list', 'dict', 'tuple', 'set', 'frozenset', 'nested', 'T', 'Tpath', 'S', 'Spec']


def make_default(kind):
    import glom
    if kind == 'list0':
        return []
    if kind == 'list':
        return [1, 2]
    if kind == 'dict':
        return {'k': 'v'}
    if kind == 'tuple':
        return (1, [2])
    if kind == 'set':
        return {1, 2}
    if kind == 'frozenset':
        return frozenset([3])
    if kind == 'nested':
        return {'rows': [], 'meta': {}}
    # (T and S themselves are module singletons: a FRESH expression each, so that `is` identifies this call's default)
    if kind == 'T':
        return glom.T[0]
    if kind == 'Tpath':
        return glom.T['fallback']
    if kind == 'S':
        return glom.S[glom.T]
    if kind == 'Spec':
        return glom.Spec(glom.T)
    return object()


def glom_kwargs(st, env, sentinel):
    kw = {}
    if st['default']:
        kw['default'] = sentinel
    if st.get('skip') is not None:
        classes = tuple(env['cls'](n) for n in st['skip'])
        kw['skip_exc'] = classes[0] if (len(classes) == 1 and not st.get('skip_tuple')) else classes
    if st.get('debug') is not None:
        kw['glom_debug'] = st['debug']
    return kw


def call_entry(entry, env, target, spec, kw):
    import glom
    if entry == 'spec':
        return glom.Spec(spec).glom(target, **kw)
    if entry == 'glommer':
        return env['glommer'].glom(target, spec, **kw)
    return glom.glom(target, spec, **kw)


def compile_fault(kind, env):
    import glom
    fault, fault0, raiser = env['fault'], env['fault0'], env['raiser']
    T, Val = glom.T, glom.Val
    if kind == 'fn':
        return fault
    if kind == 'call':
        return glom.Call(fault, args=(T,))
    if kind == 'invoke':
        return glom.Invoke(fault).specs(T)
    if kind == 'tcall':
        return (Val(fault), T(1))
    if kind == 'factory':
        return glom.Coalesce('zz', default_factory=fault0)
    if kind == 'skipfunc':
        return glom.Coalesce(env['ok'], skip=fault)

    class NextRaises:
        def __init__(self):
            self.n = 1

        def __iter__(self):
            return self

        def __next__(self):
            if self.n == 0:
                raiser()
            self.n -= 1
            return env['cyc']

    class IterRaises:
        def __iter__(self):
            raiser()

    class GetItemRaises:
        def __getitem__(self, k):
            raiser()

    class GetAttrRaises:
        def __getattr__(self, k):
            if k.startswith('__'):
                raise AttributeError(k)
            raiser()
    if kind == 'next':
        return (Val(NextRaises()), [env['ok']])
    if kind == 'iter':
        return (Val(IterRaises()), [env['ok']])
    if kind == 'getitem':
        return (Val(GetItemRaises()), T['k'])
    if kind == 'getattr':
        return (Val(GetAttrRaises()), T.k)
    if kind == 'path':
        return (Val(GetAttrRaises()), 'k')
    if kind == 'reg_iter':
        return (Val(RegIter()), [env['ok']])
    if kind == 'reg_get':
        return (Val(RegGet()), 'k')
    raise ValueError(kind)


def compile_spec(sp, env):
    import glom
    if sp == 'ok':
        return env['ok']
    if sp == 'fault':
        return compile_fault('fn', env)
    if sp == 'badPath':
        return 'zz'
    if sp == 'badMatch':
        return glom.Match(str)
    if 'fault' in sp:
        return compile_fault(sp['fault'], env)
    if 'tup' in sp:
        return tuple(compile_spec(x, env) for x in sp['tup'])
    if 'dct' in sp:
        return {'k%d' % i: compile_spec(x, env) for i, x in enumerate(sp['dct'])}
    if 'lst' in sp:
        return (env['ok'], [compile_spec(sp['lst'], env)])
    if 'frame' in sp:
        x = compile_spec(sp['frame'], env)
        k = sp.get('kind', 'Spec')
        ident = env['ident']
        if k == 'Spec':
            return glom.Spec(x)
        if k == 'Auto':
            return glom.Auto(x)
        if k == 'Pipe':
            return glom.Pipe(x)
        if k == 'Ref':
            return glom.Ref('r%d' % env['fresh'](), x)
        if k == 'CallArg':
            return glom.Call(ident, args=(glom.Spec(x),))
        if k == 'InvokeSpec':
            return glom.Invoke(ident).specs(x)
        if k == 'FillAuto':
            return glom.Fill(glom.Auto(x))
        if k == 'SAssign':
            return glom.S(v=glom.Spec(x))
        raise ValueError(k)
    if 'first' in sp:       # the key of First / Iter steps, as a tuple step (run on the items of the list)
        x = compile_spec(sp['first'], env)
        import glom.streaming
        k = sp.get('kind') or ('First' if env['first_style'](sp) else 'IterFirst')
        ok = env['ok']
        if k == 'First':
            return (ok, glom.streaming.First(x, default=0))
        if k == 'IterFirst':
            return (ok, glom.Iter().first(x, default=0))
        if k == 'IterMap':
            return (ok, glom.Iter().map(x).all())
        if k == 'IterFilter':
            return (ok, glom.Iter().filter(x).all())
        if k == 'IterMapFirst':
            return (ok, glom.Iter().map(x).first(default=0))
        raise ValueError(k)
    if 'coal' in sp:
        kw = {}
        if sp.get('skip') is not None:
            kw['skip_exc'] = tuple(env['cls'](n) for n in sp['skip'])
        if sp.get('dflt'):
            dk = sp.get('dkind', 0)
            if dk == 2:
                kw['default_factory'] = lambda: 0
            else:
                kw['default'] = 1 if dk == 1 else 0      # never a str: `badMatch` must keep failing on it
        return glom.Coalesce(*[compile_spec(x, env) for x in sp['coal']], **kw)
    if 'nest' in sp:
        inner = compile_spec(sp['nest'], env)
        st = sp['settings']
        kw = glom_kwargs(st, env, make_default(st.get('dkind', 'obj')))
        entry = sp.get('entry', 'glom')

        def nested(t):
            r = call_entry(entry, env, t, inner, dict(kw))
            # the inner call's implicit default (None) is a value like any other for the outer call; the
            # observation of the OUTER call distinguishes its own None default from a computed value
            return env['cyc'] if r is None else r
        return nested
    raise ValueError(sp)


_HISTORY = []        # every call made so far in this process (slim cases, bounded)


def _purge_glom():
    """forget glom (and every class built on it): the next import executes the source afresh"""
    import sys
    for m in [m for m in sys.modules if m == 'glom' or m.startswith('glom.')]:
        del sys.modules[m]
    _CLASS_MEMO.clear()


def _slim(case):
    """a case as an entry of a history: what determines the call, nothing else"""
    return {k: case[k] for k in ('classes', 'exc', 'spec', 'settings', 'entry', 'recorder') if k in case}


def run_impl(case):
    if case.get('hermetic'):
        # a shrinking candidate / a replayed case must fail on its own: state that earlier cases left in
        # glom's modules (caches keyed by class or by name, ...) is discarded, the case's `before` history is all
        # that precedes the observed call
        _purge_glom()
    out = dict(case)
    if not case.get('hermetic'):
        out['impl_pos'] = len(_HISTORY)       # what preceded this case in the process
        if len(_HISTORY) < 30000:
            _HISTORY.extend(_slim(b) for b in case.get('before') or [])
            _HISTORY.append(_slim(case))
    # the history: earlier calls of this process (glom() has no state of its own: the model ignores them)
    for b in case.get('before') or []:
        try:
            _execute(b)
        except Exception:
            pass
    out['impl'] = _execute(case)
    return out


def _execute(case):
    """build the objects of the case, make the call, observe -> impl"""
    import glom
    try:
        table = build_classes(case['classes'])
    except TypeError:
        return {'kind': 'class_error'}

    def cls_of(n):
        return table.get(n) or real_class(n)

    codec = ArgCodec()
    ex = case['exc']
    K = cls_of(ex['cls'])
    init = [codec.dec(a) for a in ex['init']]
    C1, C2 = ValueError('cause'), LookupError('context')
    holder = []
    if ex.get('raise_class'):
        orig = None
    else:
        try:
            orig = K(*init, **({'code': 1} if ex.get('kw') else {}))
        except Exception:
            return {'kind': 'ctor_error'}
        if ex.get('set_args') is not None:
            object.__setattr__(orig, 'args', tuple(codec.dec(a) for a in ex['set_args']))
        if ex.get('cause'):
            object.__setattr__(orig, '__cause__', C1)
        if ex.get('context'):
            object.__setattr__(orig, '__context__', C2)
        try:
            repr(orig)
        except Exception:
            return {'kind': 'repr_error'}     # glom renders the exception in messages of its own
    cyc = []
    cyc.append(cyc)
    cyc.append(cyc)

    def ok(t):
        return cyc

    def raiser():
        if orig is None:
            try:
                raise K
            except BaseException as e:
                holder.append(e)
                raise
        raise orig

    def fault(t):
        raiser()

    def fault0():
        raiser()

    gm = glom.Glommer()
    gm.register(RegIter, iterate=lambda t: raiser())
    gm.register(RegGet, get=lambda t, k: raiser())
    counter = itertools.count()
    env = {'ok': ok, 'fault': fault, 'fault0': fault0, 'raiser': raiser, 'cls': cls_of, 'cyc': cyc,
           'ident': lambda v: v, 'glommer': gm, 'fresh': lambda: next(counter), 'inner_sentinel': object(),
           'first_style': lambda sp: len(json.dumps(sp)) % 2 == 0}
    spec = compile_spec(case['spec'], env)
    rec = None
    if case.get('recorder'):
        rec = Recorder(spec)
        spec = rec
    st = case['settings']
    sentinel = make_default(st.get('dkind', 'obj'))
    kw = glom_kwargs(st, env, sentinel)
    try:
        ret = call_entry(case.get('entry', 'glom'), env, cyc, spec, kw)
    except BaseException as e:
        res = e
        raised = True
    else:
        raised = False
    if orig is None:
        # the class was raised: the instance Python created (if the fault was reached at all)
        orig = holder[0] if holder else K()
    try:
        rebuilt = codec.enc_args(type(orig)(*orig.args).args)
    except Exception:
        rebuilt = None
    try:
        falsy = not bool(orig)
    except Exception:
        falsy = False
    impl = {'kind': 'ran',
            'orig': {'mro': mro_names(type(orig)), 'args': codec.enc_args(orig.args), 'rebuild': rebuilt,
                     'falsy': falsy}}

    def rel(o, cause, context):
        return {'same': res is o, 'inst': isinstance(res, type(o)),
                'cause': res.__cause__ is cause, 'context': res.__context__ is context,
                'reach': res is o or getattr(res, '_GlomError__wrapped', None) is o}
    inj_cause = C1 if ex.get('cause') else None
    inj_context = C2 if ex.get('context') else None
    if rec is None:
        impl['origin'] = 'unknown'
    elif rec.seen is None:
        impl['origin'] = None
    else:
        impl['origin'] = {'isInj': rec.seen is orig, 'mro': mro_names(type(rec.seen)),
                          'args': codec.enc_args(rec.seen.args)}
    if raised:
        r = {'mro': mro_names(type(res)), 'args': codec.enc_args(res.args),
             'instGlom': isinstance(res, glom.GlomError), 'inj': rel(orig, inj_cause, inj_context)}
        if rec is not None and rec.seen is not None:
            r['rec'] = rel(rec.seen, rec.cause, rec.context)
        impl['obs'] = {'raised': r}
    else:
        kind = 'default' if ret is sentinel else 'none' if ret is None else 'value'
        if kind == 'default' and isinstance(sentinel, list):
            # "the default object itself": what the caller appends to the result later is in HIS list
            token = object()
            ret.append(token)
            if not (sentinel and sentinel[-1] is token):
                kind = 'value'
            else:
                sentinel.pop()
        impl['obs'] = {'returned': kind}
    return impl


# ------------------------------------------------------------------ generators
def gen_aval(rng):
    p = rng.random()
    if p < 0.35:
        return {'i': rng.choice([0, 1, 2, 3, 7, -1, 404])}
    if p < 0.7:
        return {'s': rng.choice(['', 'k', 'msg', 'boom', 'a b'])}
    if p < 0.8:
        return None
    if p < 0.88:
        return {'y': rng.choice(['', 'ff', '00ab'])}
    return {'o': rng.randrange(1, 6)}


USER_STORES = ['all', 'all', 'nosuper', 'len', 'rev', {'pre': 0}, {'pre': 1}, {'pre': 2}, {'const': 'boom'}, 'needint']


def gen_shape(rng):
    lo = rng.choice([0, 0, 1, 2, 2, 3])
    hi = rng.choice([None, lo, lo])
    kw = rng.random() < 0.18
    return {'sig': [lo, hi, kw, rng.choice(USER_STORES)]}


def class_mro(name, classes):
    """MRO (names) of a class of the case — from the real Python classes"""
    by = {c['name'] for c in classes}
    if name in by:
        return mro_names(build_classes(classes)[name])
    return mro_names(real_class(name))


def ctor_root(name, classes):
    """(shape, root): the user shape that constructs instances of `name`, or the first repo class on the MRO
    whose constructor is special"""
    by = {c['name']: c for c in classes}
    for n in class_mro(name, classes):
        if n in by:
            if by[n].get('shape') is not None:
                return by[n]['shape'], n
            continue
        if n in ARITY or n in ('OSError', 'UnicodeDecodeError', 'MatchError', 'BaseExceptionGroup'):
            return None, n
    return None, 'Exception'


def init_for(rng, name, classes, mismatch=False):
    """arguments that fit the signature of class `name` (user or real)"""
    shape, root = ctor_root(name, classes)
    if shape is not None:
        lo, hi, kw, _ = shape['sig']
        k = lo if hi is not None else lo + rng.choice([0, 0, 1, 2, 3])
        if mismatch:
            k = max(0, k + rng.choice([-1, 1]))
        init = [gen_aval(rng) for _ in range(k)]
        if shape['sig'][3] == 'needint':
            if not init:
                init = [None]
            if not mismatch:
                init[0] = {'i': rng.choice([0, 1, 7])}
        return init, kw
    if root == 'OSError':
        k = rng.choice([0, 1, 2, 3, 3, 4, 5, 6])
        base = [{'i': 0}, {'s': 'msg'}, rng.choice([{'s': 'file'}, {'s': 'file'}, None]), {'i': 0}, {'s': 'file2'},
                {'i': 9}]
        return base[:k], False
    if root == 'UnicodeDecodeError':
        good = [{'s': 'utf-8'}, {'y': 'ff00'}, {'i': 0}, {'i': 1}, {'s': 'bad byte'}]
        return (good[:4] if mismatch else good), False
    if root == 'BaseExceptionGroup':     # members of a BaseExceptionGroup (ids >= 10) include a KeyboardInterrupt
        base_only = 'Exception' not in class_mro(name, classes)
        good = [{'s': 'several'}, {'x': rng.randrange(1, 4) + (10 if base_only else 0)}]
        return (good[:1] if mismatch else good), False
    if root in ARITY:
        k = ARITY[root] + (rng.choice([-1, 1]) if mismatch else 0)
        return [rng.choice([{'o': rng.randrange(1, 6)}, {'i': rng.randrange(3)}, {'s': 'p'}]) for _ in range(k)], False
    if root == 'MatchError':
        return [{'s': 'fmt {}'}] + [gen_aval(rng) for _ in range(rng.choice([0, 1, 2]))], False
    return [gen_aval(rng) for _ in range(rng.choice([0, 1, 1, 2, 3]))], False


def accepts_no_args(name, classes):
    shape, root = ctor_root(name, classes)
    if shape is not None:
        return shape['sig'][0] == 0 and not shape['sig'][2] and shape['sig'][3] != 'needint'
    return root not in ARITY and root not in ('UnicodeDecodeError', 'MatchError', 'BaseExceptionGroup')


def gen_exception(rng):
    """-> (classes, exc)"""
    classes = []
    p = rng.random()
    if p < 0.22:
        name = rng.choice(PLAIN_BASES + SPECIAL_BASES)
    else:
        q = rng.random()
        copy_kind = 'args'
        if q < 0.55:
            bases = [rng.choice(PLAIN_BASES)]
            shape = gen_shape(rng) if rng.random() < 0.85 else None
        elif q < 0.75:          # multiple inheritance: GlomError (or another plain class) mixed in, in either order
            first = rng.choice(['KeyError', 'ValueError', 'Exception', 'RuntimeError', 'GlomError', 'IndexError',
                                'LookupError', 'TypeError', 'BadSpec'])
            rest = [m for m in MIXINS if m != first]
            bases = [first] + rng.sample(rest, rng.choice([1, 1, 1, 2]))
            if rng.random() < 0.4 and 'GlomError' not in bases:
                bases[rng.randrange(1, len(bases))] = 'GlomError'
            bases = consistent_bases(bases)
            shape = gen_shape(rng) if rng.random() < 0.5 else None
        else:
            bases = [rng.choice(SPECIAL_BASES)]
            shape = None
        if shape is not None and not shape['sig'][2] and rng.random() < 0.15:
            copy_kind = 'init'
        elif rng.random() < 0.05:
            copy_kind = 'self'
        c1 = {'name': 'U1', 'bases': bases, 'shape': shape, 'falsy': rng.random() < 0.08, 'copy': copy_kind}
        if rng.random() < 0.08:
            c1['eqhash'] = True
        if rng.random() < 0.08:
            c1['slots'] = True
        classes.append(c1)
        name = 'U1'
        if rng.random() < 0.2:
            b2 = ['U1']
            if rng.random() < 0.3:
                b2 = consistent_bases(['U1', rng.choice(MIXINS)], classes)
            classes.append({'name': 'U2', 'bases': b2, 'shape': None, 'falsy': rng.random() < 0.05, 'copy': 'args'})
            name = 'U2'
        if rng.random() < 0.12:       # classes that resist what glom()'s handler does with an exception
            last = classes[-1]
            k = rng.choice(['sealed', 'sealed', 'frozen', 'foreign', 'boolraises'])
            if k == 'foreign':
                last['copy'] = 'foreign'
            elif k == 'boolraises':
                if not any(c.get('falsy') for c in classes):
                    last['boolraises'] = True
            else:
                last[k] = True
            if last.get('frozen') and ctor_root(name, classes)[1] in ARITY:
                last['frozen'] = False      # glom's own __init__ assigns attributes: such a subclass cannot be built
    init, kw = init_for(rng, name, classes, mismatch=rng.random() < 0.03)
    exc = {'cls': name, 'init': init, 'kw': kw, 'set_args': None}
    r = rng.random()
    shape0, _ = ctor_root(name, classes)
    if shape0 is not None and shape0['sig'][3] == 'needint' and r < 0.5:
        # the validating constructor refuses the args the instance has now: re-creation raises ValueError
        exc['set_args'] = [{'s': 'not an int'}] + [gen_aval(rng) for _ in range(rng.choice([0, 1]))]
    elif r < 0.08:
        exc['set_args'] = [gen_aval(rng) for _ in range(rng.choice([0, 1, 2, 3]))]
    elif r < 0.16 and accepts_no_args(name, classes):
        exc['raise_class'] = True
        exc['init'] = []
    if not exc.get('raise_class'):
        if rng.random() < 0.12:
            exc['cause'] = True
        if rng.random() < 0.12:
            exc['context'] = True
    return classes, exc


def consistent_bases(bases, classes=()):
    """drop bases until Python can create the class (no MRO / lay-out conflict)"""
    bases = list(dict.fromkeys(bases))
    table = build_classes(list(classes)) if classes else {}
    while len(bases) > 1:
        try:
            type('Probe', tuple(table.get(b) or real_class(b) for b in bases), {})
            return bases
        except TypeError:
            bases = bases[:-1]
    return bases


def gen_skip(rng, mro):
    """a skip_exc value: None (absent) or list of class names"""
    p = rng.random()
    real = [m for m in mro if m != 'object']
    if p < 0.3:
        return None, False
    if p < 0.45:
        return [real[0]], rng.random() < 0.3
    if p < 0.6:
        return [rng.choice(real)], False
    if p < 0.72:
        return [rng.choice([u for u in UNRELATED if u not in mro])], False
    if p < 0.84:
        cs = [rng.choice([u for u in UNRELATED if u not in mro])]
        if rng.random() < 0.6:
            cs.insert(rng.randrange(2), rng.choice(real))
        return cs + ([rng.choice(['KeyError', 'GlomError'])] if rng.random() < 0.3 else []), True
    if p < 0.9:
        return [], True
    return [rng.choice(['GlomError', 'Exception', 'BaseException', 'PathAccessError', 'MatchError', 'TypeError'])], False


def gen_settings(rng, mro):
    if rng.random() < 0.4:       # no replacement asked for: the class / args / GlomError clauses
        return {'default': False, 'skip': None, 'skip_tuple': False,
                'debug': rng.choice([None, None, None, False, True, None])}
    skip, tup = gen_skip(rng, mro)
    return {'default': rng.random() < 0.45, 'skip': skip, 'skip_tuple': tup,
            'debug': rng.choice([None, None, None, False, True]), 'dkind': rng.choice(DEFAULT_KINDS)}


def gen_fault(rng, exotic):
    if rng.random() >= exotic:
        return 'fault'
    return {'fault': rng.choice(FAULT_KINDS)}


def gen_ctx(rng, inner, depth, mro, noise, exotic=0.5):
    """wrap `inner` in `depth` frames"""
    sp = inner
    for _ in range(depth):
        k = rng.random()

        def sib():
            if rng.random() < noise:
                return rng.choice(['badPath', 'badMatch', {'coal': ['badPath'], 'skip': None, 'dflt': False}])
            return rng.choice(['ok', 'ok', 'ok', {'tup': []}, {'dct': ['ok']}, {'lst': 'ok'},
                               {'coal': ['badPath', 'ok'], 'skip': None, 'dflt': False},
                               {'coal': ['badMatch'], 'skip': None, 'dflt': True, 'dkind': rng.randrange(3)},
                               {'frame': 'ok', 'kind': rng.choice(FRAME_KINDS)},
                               {'nest': 'badPath', 'settings': {'default': True, 'skip': None, 'skip_tuple': False,
                                                                 'debug': None}, 'entry': rng.choice(ENTRIES)}])
        pre = [sib() for _ in range(rng.choice([0, 0, 1, 2]))]
        post = [sib() for _ in range(rng.choice([0, 0, 1]))]
        if k < 0.2:
            sp = {'tup': pre + [sp] + post}
        elif k < 0.36:
            sp = {'dct': pre + [sp] + post}
        elif k < 0.44:
            sp = {'lst': sp}
        elif k < 0.56:
            sp = {'frame': sp, 'kind': rng.choice(FRAME_KINDS) if rng.random() < exotic + 0.2 else 'Spec'}
        elif k < 0.64:
            sp = {'first': sp}
            if rng.random() < exotic + 0.2:
                sp['kind'] = rng.choice(FIRST_KINDS)
        elif k < 0.82:
            skip, _ = gen_skip(rng, mro)
            cpre = [rng.choice(['badPath', 'badMatch'])] * rng.choice([0, 0, 1])
            if skip is not None and cpre and not any(x in skip for x in ('GlomError', 'Exception', 'BaseException',
                                                                         'PathAccessError', 'MatchError')):
                cpre = []       # the earlier alternative would not be skipped: keep the fault reachable
            cpost = [rng.choice(['ok', 'badPath'])] * rng.choice([0, 0, 1])
            sp = {'coal': cpre + [sp] + cpost, 'skip': skip, 'dflt': rng.random() < 0.3, 'dkind': rng.randrange(3)}
        else:
            sp = {'nest': sp, 'settings': gen_settings(rng, mro), 'entry': rng.choice(ENTRIES)}
    return sp


def kids_of(sp):
    if isinstance(sp, str) or 'fault' in sp:
        return []
    for k in ('tup', 'dct', 'coal'):
        if k in sp:
            return list(sp[k])
    for k in ('lst', 'frame', 'first', 'nest'):
        if k in sp:
            return [sp[k]]
    return []


def has_internal(sp):
    """may an exception object other than the prepared one reach the top handler?"""
    if isinstance(sp, str):
        return sp in ('badPath', 'badMatch')
    if 'fault' in sp:
        return sp['fault'] in FAULT_CONV
    if 'coal' in sp or 'nest' in sp:
        return True
    return any(has_internal(x) for x in kids_of(sp))


def needs_glommer(sp):
    """does the spec (up to the next nested glom call) use a handler registered on the case's Glommer?"""
    if isinstance(sp, str):
        return False
    if 'fault' in sp:
        return sp['fault'] in ('reg_iter', 'reg_get')
    if 'nest' in sp:
        return False
    return any(needs_glommer(x) for x in kids_of(sp))


def fix_entries(sp):
    """a spec that uses a registered handler is evaluated through the Glommer it is registered on"""
    if isinstance(sp, str) or 'fault' in sp:
        return sp
    sp = dict(sp)
    for k in ('tup', 'dct', 'coal'):
        if k in sp:
            sp[k] = [fix_entries(x) for x in sp[k]]
    for k in ('lst', 'frame', 'first', 'nest'):
        if k in sp:
            sp[k] = fix_entries(sp[k])
    if 'nest' in sp and needs_glommer(sp['nest']):
        sp['entry'] = 'glommer'
    return sp


def depth_of_fault(sp, d=0):
    if sp == 'fault' or (isinstance(sp, dict) and 'fault' in sp):
        return d
    if isinstance(sp, str):
        return None
    for x in kids_of(sp):
        r = depth_of_fault(x, d + 1)
        if r is not None:
            return r
    return None


def gen_before(rng, classes, exc):
    """earlier calls: the same class with other (often non-rebuildable) args, or another class under the same name,
    raised by a bare callable spec"""
    out = []
    for _ in range(rng.choice([1, 1, 2])):
        if rng.random() < 0.6:
            c2 = classes
            e2 = dict(exc, set_args=None)
            e2.pop('raise_class', None)
            init, kw = init_for(rng, exc['cls'], classes, mismatch=rng.random() < 0.2)
            e2['init'], e2['kw'] = init, kw
            if rng.random() < 0.6:
                e2['set_args'] = [gen_aval(rng) for _ in range(rng.choice([0, 1, 2, 3, 4]))]
        else:
            c2, e2 = gen_exception(rng)
        out.append({'classes': c2, 'exc': e2, 'spec': 'fault', 'settings': dict(NONE_ST), 'entry': 'glom',
                    'recorder': bool(e2.get('raise_class'))})
    return out


def rehandled(sp):
    """is an exception that glom raised while handling the fault (so: with the fault as its __context__) handled by
    glom again — by the handler of an enclosing glom() call, or created by `_handle_list`'s except block?"""
    if isinstance(sp, str):
        return False
    if 'fault' in sp:
        return sp['fault'] in ('iter', 'reg_iter')
    if 'nest' in sp:
        return True
    return any(rehandled(x) for x in kids_of(sp))


def mk_case(classes, exc, spec, settings, rng=None, recorder=None, entry=None, before=None):
    spec = fix_entries(spec)
    if rehandled(spec) and any(c.get('boolraises') for c in classes):
        # `_finalize` formats the traceback of the exception being handled WITH its __context__ chain, evaluating
        # bool() of every member: the model knows __context__ by identity only, so an exception whose __bool__
        # raises is kept out of the chains of other handled exceptions (Limits)
        classes = [dict(c, boolraises=False) for c in classes]
    if entry is None:
        entry = rng.choice(ENTRIES) if rng is not None and rng.random() < 0.4 else 'glom'
    if needs_glommer(spec):
        entry = 'glommer'
    if recorder is None:
        recorder = has_internal(spec) or (rng is not None and rng.random() < 0.3)
    if before is None and rng is not None and rng.random() < 0.2:
        before = gen_before(rng, classes, exc)
    before = [dict(b, classes=[norm_class(c) for c in b['classes']], exc=norm_exc(b['exc'])) for b in before or []]
    return {'classes': [norm_class(c) for c in classes], 'exc': norm_exc(exc), 'spec': spec, 'settings': settings,
            'entry': entry, 'recorder': bool(recorder or has_internal(spec) or exc.get('raise_class')),
            'before': before}


def map_fault(sp, f):
    if sp == 'fault' or (isinstance(sp, dict) and 'fault' in sp):
        return f(sp)
    if isinstance(sp, str):
        return sp
    sp = dict(sp)
    for k in ('tup', 'dct', 'coal'):
        if k in sp:
            sp[k] = [map_fault(x, f) for x in sp[k]]
    for k in ('lst', 'frame', 'first', 'nest'):
        if k in sp:
            sp[k] = map_fault(sp[k], f)
    return sp


def mutate(rng, case):
    """one edit"""
    c = json.loads(json.dumps({k: v for k, v in case.items() if not k.startswith('impl')}))
    mro = class_mro(c['exc']['cls'], c['classes'])
    k = rng.randrange(10)
    if k == 0:
        c['settings']['default'] = not c['settings']['default']
        c['settings']['dkind'] = rng.choice(DEFAULT_KINDS)
    elif k == 1:
        c['settings']['skip'], c['settings']['skip_tuple'] = gen_skip(rng, mro)
    elif k == 2:
        c['settings']['debug'] = rng.choice([None, False, True])
    elif k == 3:       # plant a failing spec in front of everything
        c['spec'] = {'tup': [rng.choice(['badPath', 'badMatch']), c['spec']]}
    elif k == 4:       # absorb / do not absorb in a Coalesce
        skip, _ = gen_skip(rng, mro)
        c['spec'] = {'coal': [c['spec']], 'skip': skip, 'dflt': rng.random() < 0.5, 'dkind': rng.randrange(3)}
    elif k == 5:       # the fault comes from another source
        kind = rng.choice(FAULT_KINDS)
        c['spec'] = map_fault(c['spec'], lambda _: {'fault': kind})
    elif k == 6:       # replace / do not replace in a nested glom call
        c['spec'] = {'nest': c['spec'], 'settings': gen_settings(rng, mro), 'entry': rng.choice(ENTRIES)}
    elif k == 7:
        if rng.random() < 0.5:
            c['entry'] = rng.choice(ENTRIES)
        else:
            c['before'] = gen_before(rng, c['classes'], c['exc'])
    elif k == 8:
        c['spec'] = {rng.choice(['frame', 'first']): c['spec']}
        if 'frame' in c['spec']:
            c['spec']['kind'] = rng.choice(FRAME_KINDS)
        else:
            c['spec']['kind'] = rng.choice(FIRST_KINDS)
    else:
        if c['classes'] and c['classes'][0].get('shape') is not None:
            c['classes'][0]['shape'] = {'sig': c['classes'][0]['shape']['sig'][:3] + [rng.choice(USER_STORES)]}
        elif not c['exc'].get('raise_class'):
            c['exc']['set_args'] = [gen_aval(rng) for _ in range(rng.choice([0, 1, 2]))]
    return mk_case(c['classes'], c['exc'], c['spec'], c['settings'], recorder=c.get('recorder'), entry=c.get('entry'),
                   before=c.get('before'))


def generate(rng, tier, scale, **focus):
    n = (3400 if tier == 'quick' else 30000) * scale
    maxdepth = 4 if tier == 'quick' else 8
    last = None
    for i in range(n):
        if last is not None and rng.random() < 0.3:
            last = mutate(rng, last)
            yield last
            continue
        classes, exc = gen_exception(rng)
        mro = class_mro(exc['cls'], classes)
        depth = rng.choice([0, 1, 1, 2, 2, 3, maxdepth])
        spec = gen_ctx(rng, gen_fault(rng, 0.45), depth, mro, noise=0.08)
        last = mk_case(classes, exc, spec, gen_settings(rng, mro), rng)
        yield last
    if not focus:
        yield from exhaustive(tier)


def catalogue():
    """every class of the catalogue once, with fitting arguments (deterministic)"""
    import random
    rng = random.Random(4242)
    out = []
    for b in PLAIN_BASES + SPECIAL_BASES:
        init, kw = init_for(rng, b, [])
        out.append(([], {'cls': b, 'init': init, 'kw': kw, 'set_args': None}))
    shapes = [{'sig': [lo, hi, kw, st]} for (lo, hi) in ((0, None), (2, 2), (1, None))
              for kw in (False, True) for st in ('all', 'nosuper', 'len', 'rev', {'pre': 1}, {'const': 'boom'}, 'needint')]
    for base in ('Exception', 'KeyError', 'GlomError', 'KeyboardInterrupt'):
        for sh in shapes:
            for falsy in ((False, True) if sh['sig'][3] == 'all' and not sh['sig'][2] else (False,)):
                for ck in (('args', 'init') if not sh['sig'][2] and not falsy else ('args',)):
                    cl = [{'name': 'U1', 'bases': [base], 'shape': sh, 'falsy': falsy, 'copy': ck}]
                    init, kw = init_for(rng, 'U1', cl)
                    out.append((cl, {'cls': 'U1', 'init': init, 'kw': kw, 'set_args': None}))
    for base in SPECIAL_BASES:
        cl = [{'name': 'U1', 'bases': [base], 'shape': None, 'falsy': False, 'copy': 'args'}]
        init, kw = init_for(rng, 'U1', cl)
        out.append((cl, {'cls': 'U1', 'init': init, 'kw': kw, 'set_args': None}))
    for bases in (['KeyError', 'GlomError'], ['GlomError', 'KeyError'], ['ValueError', 'KeyError', 'GlomError'],
                  ['BadSpec', 'ValueError'], ['IndexError', 'KeyError']):
        for ck in ('args', 'self'):
            cl = [{'name': 'U1', 'bases': bases, 'shape': None, 'falsy': False, 'copy': ck}]
            init, kw = init_for(rng, 'U1', cl)
            out.append((cl, {'cls': 'U1', 'init': init, 'kw': kw, 'set_args': None}))
            out.append((cl, {'cls': 'U1', 'init': [], 'kw': False, 'set_args': None, 'raise_class': True}))
    return out


NONE_ST = {'default': False, 'skip': None, 'skip_tuple': False, 'debug': None}
CONTEXTS = ['fault',
            {'tup': ['ok', 'fault', 'ok']},
            {'dct': ['ok', {'lst': {'frame': 'fault'}}]},
            {'tup': ['ok', {'first': 'fault'}]},
            {'coal': ['fault'], 'skip': None, 'dflt': False},
            {'coal': ['badPath', 'fault', 'ok'], 'skip': ['Exception'], 'dflt': False},
            {'tup': [{'coal': ['badMatch', 'fault'], 'skip': ['BaseException'], 'dflt': False}]},
            {'tup': ['badMatch', 'fault']},
            {'nest': 'fault', 'settings': NONE_ST, 'entry': 'glom'},
            {'nest': {'nest': 'fault', 'settings': NONE_ST, 'entry': 'spec'},
             'settings': {'default': True, 'skip': None, 'skip_tuple': False, 'debug': None}, 'entry': 'glommer'},
            {'tup': ['ok', {'nest': {'coal': ['fault'], 'skip': None, 'dflt': False},
                            'settings': {'default': False, 'skip': None, 'skip_tuple': False, 'debug': True},
                            'entry': 'glom'}]}] + [{'fault': k} for k in FAULT_KINDS if k != 'fn'] + \
           [{'frame': 'fault', 'kind': k} for k in FRAME_KINDS] + [{'first': 'fault', 'kind': k} for k in FIRST_KINDS]


N_CORE_CONTEXTS = 11       # the contexts of CONTEXTS that get the full keyword matrix


def exhaustive(tier):
    cat = catalogue()
    thorough = tier == 'thorough'
    core = CONTEXTS[:N_CORE_CONTEXTS] if thorough else [CONTEXTS[0], CONTEXTS[1], CONTEXTS[3], CONTEXTS[9]]
    extra = CONTEXTS[N_CORE_CONTEXTS:]         # one context per fault source / frame kind / iterator step
    step = 3 if thorough else 97
    i = 0
    for classes, exc in cat:
        mro = class_mro(exc['cls'], classes)
        real = [m for m in mro if m != 'object']
        skips = [(None, False), ([real[0]], False), ([real[min(1, len(real) - 1)]], False),
                 (['ZeroDivisionError' if 'ZeroDivisionError' not in mro else 'EOFError'], False),
                 (['EOFError', real[-1]], True), ([], True), (['GlomError'], False)]
        for spec in core:
            for d, (skip, tup), dbg in itertools.product((False, True), skips, (None, False, True)):
                i += 1
                if i % step:
                    continue
                yield mk_case(classes, exc, spec, {'default': d, 'skip': skip, 'skip_tuple': tup, 'debug': dbg,
                                                   'dkind': DEFAULT_KINDS[i // step % len(DEFAULT_KINDS)]},
                              entry=ENTRIES[i // step % 3])
        few = [(False, (None, False), None), (True, (None, False), None), (False, ([real[0]], False), None),
               (True, (['EOFError', real[-1]], True), False), (False, (None, False), True), (True, ([], True), None)]
        for spec in extra:
            for d, (skip, tup), dbg in few:
                i += 1
                if i % (2 if thorough else 97):
                    continue
                yield mk_case(classes, exc, spec, {'default': d, 'skip': skip, 'skip_tuple': tup, 'debug': dbg,
                                                   'dkind': DEFAULT_KINDS[i % len(DEFAULT_KINDS)]},
                              entry=ENTRIES[i % 3])


def corpus():
    """the four repaired defects, one witness each (DESIGN.md F5, F6 and the two found while building this check)"""
    none = dict(NONE_ST)

    def U(name, base, shape=None, falsy=False, **kw):
        return dict({'name': name, 'bases': base if isinstance(base, list) else [base], 'shape': shape,
                     'falsy': falsy, 'copy': 'args'}, **kw)
    out = [
        mk_case([U('G2', 'GlomError', {'sig': [2, 2, False, {'pre': 1}]})],
                {'cls': 'G2', 'init': [{'i': 1}, {'i': 2}], 'kw': False, 'set_args': None}, 'fault', none),
        mk_case([U('L', 'Exception', {'sig': [0, None, False, 'len']})],
                {'cls': 'L', 'init': [{'i': 5}, {'i': 6}], 'kw': False, 'set_args': None}, 'fault', none),
        mk_case([U('G3', 'GlomError', {'sig': [0, None, False, 'rev']})],
                {'cls': 'G3', 'init': [{'i': 5}, {'i': 6}], 'kw': False, 'set_args': None}, 'fault', none),
        mk_case([U('TM', 'TypeMatchError')],
                {'cls': 'TM', 'init': [{'o': 1}, {'o': 2}], 'kw': False, 'set_args': None}, 'fault', none),
        mk_case([U('FalsyG', 'GlomError', falsy=True)],
                {'cls': 'FalsyG', 'init': [{'i': 1}], 'kw': False, 'set_args': None}, 'fault', none),
        mk_case([U('Falsy', 'KeyError', falsy=True)],
                {'cls': 'Falsy', 'init': [{'s': 'k'}], 'kw': False, 'set_args': None},
                {'tup': ['ok', {'dct': ['fault']}]}, none),
    ]
    # the counter-examples that justify the hypotheses of the theorems (Props/C04.lean), on the real glom
    key_err = {'cls': 'KeyError', 'init': [{'s': 'k'}], 'kw': False, 'set_args': None}
    ki = [U('KI', 'KeyboardInterrupt')]
    ki_exc = {'cls': 'KI', 'init': [{'i': 1}], 'kw': False, 'set_args': None}
    dflt = {'default': True, 'skip': None, 'skip_tuple': False, 'debug': None}
    out += [
        # c04_glomerror without `rebuildable`: U(a, b) stores (a,) -> the original leaves, not a GlomError
        mk_case([U('U', 'Exception', {'sig': [2, 2, False, {'pre': 1}]})],
                {'cls': 'U', 'init': [{'i': 1}, {'i': 2}], 'kw': False, 'set_args': None}, 'fault', none),
        # … without `Exception`: a KeyboardInterrupt subclass is never wrapped
        mk_case(ki, ki_exc, 'fault', none),
        # … without `debug off`
        mk_case([], key_err, 'fault', dict(none, debug=True)),
        # c04_debug_identity / c04_baseexception_untouched without `selected = false`
        mk_case(ki, ki_exc, 'fault', {'default': True, 'skip': ['KI'], 'skip_tuple': False, 'debug': True}),
        # c04_plain_frames without the StopIteration clause: First's key raising StopIteration ends the iteration
        mk_case([], {'cls': 'StopIteration', 'init': [{'i': 3}], 'kw': False, 'set_args': None},
                {'first': 'fault'}, none, recorder=True),
        # … without `PreOk`: an earlier sibling fails first
        mk_case([], key_err, {'tup': ['badPath', 'fault']}, none),
        # a user __reduce__ makes a GlomError subclass with an arity-changing constructor copyable
        mk_case([U('R', 'GlomError', {'sig': [2, 2, False, {'pre': 1}]}, copy='init')],
                {'cls': 'R', 'init': [{'i': 1}, {'i': 2}], 'kw': False, 'set_args': None}, 'fault', none),
        # the class raised, GlomError mixed in after KeyError, __cause__ set, two nested glom calls
        mk_case([U('M', ['KeyError', 'GlomError'])],
                {'cls': 'M', 'init': [], 'kw': False, 'set_args': None, 'raise_class': True}, 'fault', none),
        mk_case([], dict(key_err, cause=True, context=True),
                {'nest': {'nest': 'fault', 'settings': none, 'entry': 'spec'}, 'settings': none, 'entry': 'glommer'},
                dict(none, debug=True)),
        # default= of an outer glom call catches what an inner one wrapped (a KeyError became a GlomError)
        mk_case([], key_err, {'nest': 'fault', 'settings': none, 'entry': 'glom'}, dflt),
        # the conversions: __iter__ -> TypeError, __getitem__ -> PathAccessError only for the named classes
        mk_case([], key_err, {'fault': 'iter'}, none),
        mk_case([], {'cls': 'ZeroDivisionError', 'init': [], 'kw': False, 'set_args': None}, {'fault': 'getitem'}, none),
        mk_case([], key_err, {'fault': 'getitem'}, dflt),
        mk_case([], {'cls': 'ExceptionGroup', 'init': [{'s': 'g'}, {'x': 1}], 'kw': False, 'set_args': None},
                {'fault': 'call'}, none),
        mk_case([], {'cls': 'BaseExceptionGroup', 'init': [{'s': 'g'}, {'x': 11}], 'kw': False, 'set_args': None},
                {'fault': 'invoke'}, dflt),
    ]
    out += [
        # repaired by 205945c: a class that refuses to be subclassed leaves glom() as itself
        mk_case([U('Final', 'Exception', sealed=True)],
                {'cls': 'Final', 'init': [{'i': 1}], 'kw': False, 'set_args': None}, 'fault', none),
        mk_case([U('FinalK', ['KeyError', 'ValueError'], sealed=True)],
                {'cls': 'FinalK', 'init': [{'s': 'k'}], 'kw': False, 'set_args': None},
                {'nest': {'fault': 'call'}, 'settings': none, 'entry': 'spec'}, dflt),
        # the two known findings, one witness per shape
        mk_case([U('Fz', 'GlomError', {'sig': [1, 1, False, 'all']}, frozen=True)],
                {'cls': 'Fz', 'init': [{'i': 1}], 'kw': False, 'set_args': None}, 'fault', none),
        mk_case([U('Bo', 'KeyError', boolraises=True)],
                {'cls': 'Bo', 'init': [{'s': 'k'}], 'kw': False, 'set_args': None}, {'tup': ['ok', 'fault']}, none),
        mk_case([U('Cp', 'GlomError', copy='foreign')],
                {'cls': 'Cp', 'init': [{'i': 1}], 'kw': False, 'set_args': None}, 'fault', none),
    ]
    # the default object itself, whatever it is (container, T / S / Spec object), through every entry point
    for dk in sorted(set(DEFAULT_KINDS)):
        for en in ENTRIES:
            out.append(mk_case([], key_err, {'fault': 'call'}, {'default': True, 'skip': ['LookupError'],
                                                                'skip_tuple': False, 'debug': None, 'dkind': dk}, entry=en))
            out.append(mk_case([], key_err, 'badPath', dict(dflt, dkind=dk), entry=en))
    # a returning frame of every kind, as an earlier step of the tuple, before every fault source (the frames leave
    # their traces in the scope — scope[Path], chained child scopes — which glom's own error paths read)
    for fk in FRAME_KINDS:
        for kind in FAULT_KINDS:
            out.append(mk_case([], key_err, {'tup': ['ok', {'frame': 'ok', 'kind': fk}, {'fault': kind}]}, none))
    p = os.path.join(os.path.dirname(os.path.dirname(os.path.dirname(os.path.abspath(__file__)))),
                     'corpus', 'C04.jsonl')
    if os.path.exists(p):
        for line in open(p):
            if line.strip():
                out.append(json.loads(line))
    return out


def key(case):
    return {k: case.get(k) for k in ('classes', 'exc', 'spec', 'settings', 'entry', 'recorder', 'before')}


def nontrivial(case, verdict):
    b = verdict.get('branch', '')
    if b in ('no-exception', 'ctor-disagreement', ''):
        return False
    st = case['settings']
    ex = case['exc']
    plain = (not case['classes'] and ex['cls'] in PLAIN_BASES and ex.get('set_args') is None
             and not ex.get('raise_class') and not ex.get('cause') and not ex.get('context'))
    return bool(case['spec'] != 'fault' or st['default'] or st.get('skip') is not None
                or st.get('debug') is not None or not plain or case.get('entry', 'glom') != 'glom')


def shrink(case):
    base = {k: v for k, v in case.items() if not k.startswith('impl')}
    if not base.get('hermetic'):
        # first make the case self-contained: with its own history only, else with the history of the whole run
        # (every later candidate is evaluated on a freshly imported glom)
        c = dict(base, hermetic=True)
        yield c
        c = dict(base, hermetic=True)
        c['before'] = list(_HISTORY[:case.get('impl_pos', 0)]) + list(base.get('before') or [])
        yield c
        return
    bf0 = base.get('before') or []
    if len(bf0) > 2:       # halve a long history first
        h = len(bf0) // 2
        for part in (bf0[h:], bf0[:h]):
            c = dict(base)
            c['before'] = part
            yield c

    def with_spec(sp):
        return dict(mk_case(base['classes'], base['exc'], sp, base['settings'], recorder=False, entry=base.get('entry'),
                            before=base.get('before')), hermetic=True)
    sp = case['spec']
    if not isinstance(sp, str) and 'fault' not in sp:
        for x in kids_of(sp):
            yield with_spec(x)
        for k in ('tup', 'dct', 'coal'):
            if k in sp:
                for i in range(len(sp[k])):
                    s2 = dict(sp)
                    s2[k] = sp[k][:i] + sp[k][i + 1:]
                    yield with_spec(s2)
        if 'kind' in sp:
            s2 = dict(sp)
            del s2['kind']
            yield with_spec(s2)
    if isinstance(sp, dict) and 'fault' in sp:
        yield with_spec('fault')
    bf = case.get('before') or []
    for i in range(len(bf)):
        c = dict(base)
        c['before'] = bf[:i] + bf[i + 1:]
        yield c
    st = case['settings']
    for k, v in (('default', False), ('skip', None), ('debug', None)):
        if st.get(k) != v:
            c = dict(base)
            c['settings'] = dict(st, **{k: v})
            yield c
    if case.get('entry', 'glom') != 'glom' and not needs_glommer(sp):
        c = dict(base)
        c['entry'] = 'glom'
        yield c
    for k in ('set_args', 'cause', 'context'):
        if case['exc'].get(k):
            c = dict(base)
            c['exc'] = {kk: vv for kk, vv in case['exc'].items() if kk != k}
            c['exc'].setdefault('set_args', None)
            yield c
    if len(case['classes']) == 2 and case['exc']['cls'] == 'U2':
        c = dict(base)
        c['classes'] = case['classes'][:1]
        c['exc'] = dict(case['exc'], cls='U1')
        yield c
    if base.get('recorder') and not has_internal(sp) and not case['exc'].get('raise_class'):
        c = dict(base)
        c['recorder'] = False
        yield c


def classify(case, verdict):
    """a failure is one of the known findings only if the case has that shape (the driver says which), the
    implementation behaves exactly like the Lean model of the current code on it, and that model breaks the property"""
    ks = verdict.get('known_shape')
    if ks in KNOWN_CLASSIFIERS and verdict.get('agree') is True and verdict.get('model_holds') is False:
        return ks
    return None


def focus(disagreements, facts_changed):
    return {'focus': True}
