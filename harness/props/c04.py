"""C04 — exceptions keep their class; glom failures are GlomErrors; default is selective.

Generators, implementation runner, shrinker.  The catalogue of exception classes is
generated from the same constructor-shape data the Lean model interprets
(lean/Glom/Model/C04Shape.lean `Shape.construct` <-> `make_class` below)."""
import itertools
import json
import os

PROP = 'C04'
LEAN_MODULES = ['Glom.Props.C04']
FACT_FILES = ['ExcFacts', 'C04Facts', 'c04']
READY = True
THEOREMS_PER_MODULE = {'Glom.Props.C04': 19}
MANIFEST = dict(
    text="Lean 4 theorems over a code-shaped model of glom()'s keyword defaulting, its two nested try blocks, "
         "copy.copy of GlomErrors and GlomError.wrap: for EVERY exception class (any MRO, any constructor "
         "Args -> Option Args, truthy or falsy), every .args and every (default, skip_exc, glom_debug): what leaves "
         "glom() is an instance of the original class with the same args (c04_class, c04_args), is also a GlomError "
         "when the class is an Exception subclass rebuildable from its args (c04_glomerror), the default object "
         "itself is returned exactly for errors matching skip_exc at their origin (c04_selective), glom_debug "
         "propagates the original object (c04_debug_identity), BaseException-only classes pass untouched; a fault "
         "at any depth under any nesting of tuple/dict/list/Spec frames reaches the handler unchanged and passes a "
         "Coalesce exactly when it does not match its skip_exc (c04_plain_frames, c04_coalesce_selective). Per-run "
         "facts obligations by `decide` on tables regenerated from /repo: the shape of glom()/wrap/_glom/Coalesce "
         "handlers (c04_facts_wf) and every `raise` in glom's modules names a GlomError subclass or a store-all "
         "builtin, with the documented multiple bases (c04_internal_subtypes). Model tied to the code by "
         "differential execution on generated classes x fault positions x the keyword matrix.",
    note="trusted: Lean kernel + {propext, Classical.choice, Quot.sound}; extractor (AST patterns of glom(), "
         "GlomError.wrap, _glom, Coalesce.glomit, __copy__ overrides, raise statements); harness/driver; CPython's "
         "exception construction, BaseException.__reduce_ex__/copy.copy, C3 MRO of the wrapper class and the C "
         "constructors of OSError/UnicodeDecodeError as modelled in Glom/Model/C04*.lean and validated by the "
         "correspondence only. Args are None/int/str/bytes/opaque objects (no bool/float, so == is structural); "
         "constructors that raise raise Exception subclasses; user classes do not override __copy__/__reduce__/"
         "__new__; the type(...) call creating the wrapper class is assumed to succeed.",
    technique='Lean 4 proof over exception classes as data (case analysis of the handler, induction over frame '
              'contexts / mutual induction over specs) + facts obligations by decide + differential correspondence',
    ref='DESIGN.md §3 C04, §6 reading 3')
RULE = ('type-directed: an exception class is drawn from a catalogue generated from constructor-shape data '
        '(builtins incl. OSError/UnicodeDecodeError whose C constructors rewrite args, glom\'s own classes, user '
        'classes over Exception/builtin/GlomError/TypeMatchError/KeyboardInterrupt bases with store-all, no-super, '
        'prefix, len (arity-changing), const, reversing, keyword-only, fixed-arity constructors, falsy instances, '
        'two-level subclasses), built with arguments that fit its signature (sometimes .args reassigned '
        'afterwards); a spec tree of tuple/dict/list/Spec/First(key)/Coalesce nodes is generated with the faulting callable '
        'at a random position and mostly-returning siblings; a one-edit mutation stream moves the fault, plants a '
        'failing path / Match before it, or wraps it in a Coalesce whose skip_exc does / does not match; keywords '
        'from default in {absent, sentinel} x skip_exc in {absent, the class, a base, an unrelated class, a tuple, '
        '(), GlomError} x glom_debug in {absent, False, True}; thorough also enumerates catalogue x keyword '
        'matrix x 8 contexts. non-trivial = an exception reached glom()\'s handler and (it was raised below the '
        'top level, or a keyword was given, or its class is not a plain store-all builtin); '
        'distinct = distinct (classes, exception, spec, settings)')
TRUSTED = ['generated user classes do not define __copy__/__reduce__/__new__; args are None/int/str/bytes/opaque '
           'objects; GLOM_DEBUG is not set in the environment of the check']
ASSUMPTIONS = ['default registry; specs limited to callables, failing paths, Match(str), tuple/dict/list/Spec/Coalesce',
               'GLOM_DEBUG unset']

PLAIN_BASES = ['Exception', 'KeyError', 'ValueError', 'ZeroDivisionError', 'IndexError', 'AttributeError',
               'TypeError', 'LookupError', 'StopIteration', 'RuntimeError', 'GlomError', 'BadSpec', 'FoldError',
               'KeyboardInterrupt', 'SystemExit', 'BaseException']
SPECIAL_BASES = ['OSError', 'FileNotFoundError', 'UnicodeDecodeError', 'TypeMatchError', 'MatchError',
                 'PathAccessError', 'CoalesceError', 'GeneratorExit', 'CheckError', 'PathAssignError',
                 'PathDeleteError', 'UnregisteredTarget']
GLOM_NAMES = ['GlomError', 'BadSpec', 'FoldError', 'TypeMatchError', 'MatchError', 'PathAccessError',
              'CoalesceError', 'CheckError', 'PathAssignError', 'PathDeleteError', 'UnregisteredTarget']
ARITY = {'TypeMatchError': 2, 'PathAccessError': 3, 'CoalesceError': 3, 'CheckError': 3, 'PathAssignError': 3,
         'PathDeleteError': 3, 'UnregisteredTarget': 4}
UNRELATED = ['ZeroDivisionError', 'FloatingPointError', 'BufferError', 'CheckError', 'EOFError']


# ------------------------------------------------------------------ classes from shape data
def real_class(name):
    import builtins
    import glom
    import glom.matching
    import glom.mutation
    import glom.reduction
    for mod in (builtins, glom, glom.core, glom.matching, glom.mutation, glom.reduction):
        v = getattr(mod, name, None)
        if isinstance(v, type) and issubclass(v, BaseException):
            return v
    raise KeyError(name)


def make_class(name, base, shape, falsy):
    """Python class from the shape data (the Lean reading of the same data is `Shape.construct`)."""
    ns = {}
    if falsy:
        ns['__bool__'] = lambda self: False
    if shape is not None:
        lo, hi, kwreq, store = shape['sig']
        params = ['a%d' % i for i in range(lo)]
        sig = ['self'] + params
        if hi is None:
            sig.append('*rest')
        elif kwreq:
            sig.append('*')
        if kwreq:
            sig.append('code')
        allargs = '(%s)%s' % (''.join(p + ', ' for p in params), ' + rest' if hi is None else '')
        body = ['args = ' + allargs]
        if store == 'all':
            body.append('super(K, self).__init__(*args)')
        elif store == 'nosuper':
            pass
        elif store == 'len':
            body.append('super(K, self).__init__(len(args))')
        elif store == 'rev':
            body.append('super(K, self).__init__(*reversed(args))')
        elif isinstance(store, dict) and 'pre' in store:
            body.append('super(K, self).__init__(*args[:%d])' % store['pre'])
        elif isinstance(store, dict) and 'const' in store:
            body.append('super(K, self).__init__(%r)' % store['const'])
        else:
            raise ValueError(store)
        body.append('self.first = args[0] if args else None')
        if kwreq:
            body.append('self.code = code')
        src = 'def __init__(%s):\n%s\n' % (', '.join(sig), ''.join('    ' + b + '\n' for b in body))
        cell = {}
        g = {'K': None}
        exec(src, g, cell)
        ns['__init__'] = cell['__init__']
        K = type(name, (base,), ns)
        g['K'] = K
        return K
    return type(name, (base,), ns)


def build_classes(specs):
    table = {}
    for c in specs:
        base = table.get(c['base']) or real_class(c['base'])
        table[c['name']] = make_class(c['name'], base, c.get('shape'), c.get('falsy', False))
    return table


class Opaque:
    __slots__ = ('n',)

    def __init__(self, n):
        self.n = n

    def __repr__(self):
        return 'Opaque(%d)' % self.n


class ArgCodec:
    """AVal <-> Python; every non-immediate object is named by identity"""

    def __init__(self):
        self.by_id = {}
        self.objs = {}
        self.next = 100

    def dec(self, j):
        if j is None:
            return None
        if 'i' in j:
            return j['i']
        if 's' in j:
            return j['s']
        if 'y' in j:
            return bytes.fromhex(j['y'])
        n = j['o']
        if n not in self.objs:
            o = Opaque(n)
            self.objs[n] = o
            self.by_id[id(o)] = n
        return self.objs[n]

    def enc(self, v):
        if v is None:
            return None
        if type(v) is int:
            return {'i': v}
        if type(v) is str:
            return {'s': v}
        if type(v) is bytes:
            return {'y': v.hex()}
        k = self.by_id.get(id(v))
        if k is None:
            k = self.next
            self.next += 1
            self.by_id[id(v)] = k
            self.objs[k] = v        # keep alive: ids must not be reused
        return {'o': k}

    def enc_args(self, args):
        return [self.enc(a) for a in args]


def mro_names(cls):
    return [k.__name__ for k in cls.__mro__]


# ------------------------------------------------------------------ specs
class Recorder:
    """a plain frame around the whole spec that records what reaches glom()'s handler"""

    def __init__(self, inner):
        self.inner = inner
        self.seen = None

    def glomit(self, target, scope):
        import glom
        try:
            return scope[glom.glom](target, self.inner, scope)
        except BaseException as ex:
            self.seen = ex
            raise


def compile_spec(sp, env):
    import glom
    if sp == 'ok':
        return env['ok']
    if sp == 'fault':
        return env['fault']
    if sp == 'badPath':
        return 'zz'
    if sp == 'badMatch':
        return glom.Match(str)
    if 'tup' in sp:
        return tuple(compile_spec(x, env) for x in sp['tup'])
    if 'dct' in sp:
        return {'k%d' % i: compile_spec(x, env) for i, x in enumerate(sp['dct'])}
    if 'lst' in sp:
        return (env['ok'], [compile_spec(sp['lst'], env)])
    if 'frame' in sp:
        return glom.Spec(compile_spec(sp['frame'], env))
    if 'first' in sp:       # the key of First / Iter().first, as a tuple step (run on the items of the list)
        k = compile_spec(sp['first'], env)
        import glom.streaming
        return ((env['ok'], glom.streaming.First(k, default=0)) if env['first_style'](sp)
                else (env['ok'],) + glom.Iter().first(k, default=0))
    if 'coal' in sp:
        kw = {}
        if sp.get('skip') is not None:
            kw['skip_exc'] = tuple(env['cls'](n) for n in sp['skip'])
        if sp.get('dflt'):
            kw['default'] = 0
        return glom.Coalesce(*[compile_spec(x, env) for x in sp['coal']], **kw)
    raise ValueError(sp)


def run_impl(case):
    import glom
    out = dict(case)
    table = build_classes(case['classes'])

    def cls_of(n):
        return table.get(n) or real_class(n)

    codec = ArgCodec()
    ex = case['exc']
    K = cls_of(ex['cls'])
    init = [codec.dec(a) for a in ex['init']]
    try:
        orig = K(*init, **({'code': 1} if ex.get('kw') else {}))
    except Exception:
        out['impl'] = {'ctor_error': True}
        return out
    if ex.get('set_args') is not None:
        orig.args = tuple(codec.dec(a) for a in ex['set_args'])
    try:
        rebuilt = codec.enc_args(type(orig)(*orig.args).args)
    except Exception:
        rebuilt = None
    impl = {'orig': {'mro': mro_names(type(orig)), 'args': codec.enc_args(orig.args), 'rebuild': rebuilt,
                     'falsy': not bool(orig)}}
    cyc = []
    cyc.append(cyc)
    cyc.append(cyc)

    def ok(t):
        return cyc

    def fault(t):
        raise orig

    spec = compile_spec(case['spec'], {'ok': ok, 'fault': fault, 'cls': cls_of,
                                       'first_style': lambda sp: len(json.dumps(sp)) % 2 == 0})
    rec = None
    if case.get('recorder'):
        rec = Recorder(spec)
        spec = rec
    st = case['settings']
    sentinel = object()
    kw = {}
    if st['default']:
        kw['default'] = sentinel
    if st.get('skip') is not None:
        classes = tuple(cls_of(n) for n in st['skip'])
        kw['skip_exc'] = classes[0] if (len(classes) == 1 and not st.get('skip_tuple')) else classes
    if st.get('debug') is not None:
        kw['glom_debug'] = st['debug']
    try:
        ret = glom.glom(cyc, spec, **kw)
    except BaseException as e:
        res = e
        raised = True
    else:
        raised = False
    origin_obj = orig
    if rec is None:
        impl['origin'] = 'unknown'
    elif rec.seen is None:
        impl['origin'] = None
    elif rec.seen is orig:
        impl['origin'] = {'injected': True}
    else:
        origin_obj = rec.seen
        impl['origin'] = {'internal': type(rec.seen).__name__, 'args': codec.enc_args(rec.seen.args)}
    if raised:
        impl['obs'] = {'raised': {'mro': mro_names(type(res)), 'args': codec.enc_args(res.args),
                                  'sameInj': res is orig, 'instInj': isinstance(res, type(orig)),
                                  'sameRec': res is origin_obj, 'instRec': isinstance(res, type(origin_obj)),
                                  'instGlom': isinstance(res, glom.GlomError)}}
    else:
        impl['obs'] = {'returned': 'default' if ret is sentinel else 'none' if ret is None else 'value'}
    out['impl'] = impl
    return out


# ------------------------------------------------------------------ generators
def gen_aval(rng):
    p = rng.random()
    if p < 0.35:
        return {'i': rng.choice([0, 1, 2, 3, 7, -1, 404])}
    if p < 0.7:
        return {'s': rng.choice(['', 'k', 'msg', 'boom', 'a b'])}
    if p < 0.8:
        return None
    if p < 0.88:
        return {'y': rng.choice(['', 'ff', '00ab'])}
    return {'o': rng.randrange(1, 6)}


USER_STORES = ['all', 'all', 'nosuper', 'len', 'rev', {'pre': 0}, {'pre': 1}, {'pre': 2}, {'const': 'boom'}]


def gen_shape(rng):
    lo = rng.choice([0, 0, 1, 2, 2, 3])
    hi = rng.choice([None, lo, lo])
    kw = rng.random() < 0.18
    return {'sig': [lo, hi, kw, rng.choice(USER_STORES)]}


def init_for(rng, name, classes, mismatch=False):
    """arguments that fit the signature of class `name` (user or real)"""
    by = {c['name']: c for c in classes}
    n = name
    kw = False
    shape = None
    while n in by:
        if by[n].get('shape') is not None:
            shape = by[n]['shape']
            break
        n = by[n]['base']
    if shape is not None:
        lo, hi, kw, _ = shape['sig']
        k = lo if hi is not None else lo + rng.choice([0, 0, 1, 2, 3])
        if mismatch:
            k = max(0, k + rng.choice([-1, 1]))
        return [gen_aval(rng) for _ in range(k)], kw
    root = n
    if root in ('OSError', 'FileNotFoundError') or 'OSError' in mro_names(real_class(root)):
        k = rng.choice([0, 1, 2, 3, 3, 4, 5, 6])
        base = [{'i': 0}, {'s': 'msg'}, rng.choice([{'s': 'file'}, {'s': 'file'}, None]), {'i': 0}, {'s': 'file2'},
                {'i': 9}]
        return base[:k], False
    if root == 'UnicodeDecodeError':
        good = [{'s': 'utf-8'}, {'y': 'ff00'}, {'i': 0}, {'i': 1}, {'s': 'bad byte'}]
        return (good[:4] if mismatch else good), False
    if root in ARITY:
        k = ARITY[root] + (rng.choice([-1, 1]) if mismatch else 0)
        return [rng.choice([{'o': rng.randrange(1, 6)}, {'i': rng.randrange(3)}, {'s': 'p'}]) for _ in range(k)], False
    if root == 'MatchError':
        return [{'s': 'fmt {}'}] + [gen_aval(rng) for _ in range(rng.choice([0, 1, 2]))], False
    return [gen_aval(rng) for _ in range(rng.choice([0, 1, 1, 2, 3]))], False


def gen_exception(rng):
    """-> (classes, exc)"""
    classes = []
    p = rng.random()
    if p < 0.25:
        name = rng.choice(PLAIN_BASES + SPECIAL_BASES)
    else:
        q = rng.random()
        if q < 0.7:
            base = rng.choice(PLAIN_BASES)
            shape = gen_shape(rng) if rng.random() < 0.85 else None
        else:
            base = rng.choice(SPECIAL_BASES)
            shape = None
        classes.append({'name': 'U1', 'base': base, 'shape': shape, 'falsy': rng.random() < 0.08})
        name = 'U1'
        if rng.random() < 0.2:
            classes.append({'name': 'U2', 'base': 'U1', 'shape': None, 'falsy': rng.random() < 0.05})
            name = 'U2'
    init, kw = init_for(rng, name, classes, mismatch=rng.random() < 0.03)
    exc = {'cls': name, 'init': init, 'kw': kw, 'set_args': None}
    if rng.random() < 0.08:
        exc['set_args'] = [gen_aval(rng) for _ in range(rng.choice([0, 1, 2, 3]))]
    return classes, exc


def class_mro(name, classes):
    by = {c['name']: c for c in classes}
    out = []
    while name in by:
        out.append(name)
        name = by[name]['base']
    return out + mro_names(real_class(name))


def gen_skip(rng, mro):
    """a skip_exc value: None (absent) or list of class names"""
    p = rng.random()
    real = [m for m in mro if m != 'object']
    if p < 0.3:
        return None, False
    if p < 0.45:
        return [real[0]], rng.random() < 0.3
    if p < 0.6:
        return [rng.choice(real)], False
    if p < 0.72:
        return [rng.choice([u for u in UNRELATED if u not in mro])], False
    if p < 0.84:
        cs = [rng.choice([u for u in UNRELATED if u not in mro])]
        if rng.random() < 0.6:
            cs.insert(rng.randrange(2), rng.choice(real))
        return cs + ([rng.choice(['KeyError', 'GlomError'])] if rng.random() < 0.3 else []), True
    if p < 0.9:
        return [], True
    return [rng.choice(['GlomError', 'Exception', 'BaseException', 'PathAccessError', 'MatchError'])], False


def gen_ctx(rng, inner, depth, mro, noise):
    """wrap `inner` in `depth` frames"""
    sp = inner
    for _ in range(depth):
        k = rng.random()

        def sib():
            if rng.random() < noise:
                return rng.choice(['badPath', 'badMatch', {'coal': ['badPath'], 'skip': None, 'dflt': False}])
            return rng.choice(['ok', 'ok', 'ok', {'tup': []}, {'dct': ['ok']}, {'lst': 'ok'},
                               {'coal': ['badPath', 'ok'], 'skip': None, 'dflt': False},
                               {'coal': ['badMatch'], 'skip': None, 'dflt': True}])
        pre = [sib() for _ in range(rng.choice([0, 0, 1, 2]))]
        post = [sib() for _ in range(rng.choice([0, 0, 1]))]
        if k < 0.28:
            sp = {'tup': pre + [sp] + post}
        elif k < 0.5:
            sp = {'dct': pre + [sp] + post}
        elif k < 0.62:
            sp = {'lst': sp}
        elif k < 0.70:
            sp = {'frame': sp}
        elif k < 0.78:
            sp = {'first': sp}
        else:
            skip, _ = gen_skip(rng, mro)
            cpre = [rng.choice(['badPath', 'badMatch'])] * rng.choice([0, 0, 1])
            if skip is not None and cpre and not any(x in skip for x in ('GlomError', 'Exception', 'BaseException',
                                                                         'PathAccessError', 'MatchError')):
                cpre = []       # the earlier alternative would not be skipped: keep the fault reachable
            cpost = [rng.choice(['ok', 'badPath'])] * rng.choice([0, 0, 1])
            sp = {'coal': cpre + [sp] + cpost, 'skip': skip, 'dflt': rng.random() < 0.3}
    return sp


def has_internal(sp):
    if isinstance(sp, str):
        return sp in ('badPath', 'badMatch')
    if 'coal' in sp:
        return True
    for k in ('tup', 'dct'):
        if k in sp:
            return any(has_internal(x) for x in sp[k])
    return has_internal(sp.get('lst') or sp.get('frame') or sp.get('first'))


def depth_of_fault(sp, d=0):
    if sp == 'fault':
        return d
    if isinstance(sp, str):
        return None
    kids = sp.get('tup') or sp.get('dct') or sp.get('coal') or [sp.get('lst') or sp.get('frame') or sp.get('first')]
    for x in kids:
        if x is None:
            continue
        r = depth_of_fault(x, d + 1)
        if r is not None:
            return r
    return None


def gen_settings(rng, mro):
    if rng.random() < 0.4:       # no replacement asked for: the class / args / GlomError clauses
        return {'default': False, 'skip': None, 'skip_tuple': False,
                'debug': rng.choice([None, None, None, False, True, None])}
    skip, tup = gen_skip(rng, mro)
    return {'default': rng.random() < 0.45, 'skip': skip, 'skip_tuple': tup,
            'debug': rng.choice([None, None, None, False, True])}


def mk_case(classes, exc, spec, settings, rng=None, recorder=None):
    if recorder is None:
        recorder = has_internal(spec) or (rng is not None and rng.random() < 0.3)
    return {'classes': classes, 'exc': exc, 'spec': spec, 'settings': settings,
            'recorder': bool(recorder or has_internal(spec))}


def mutate(rng, case):
    """one edit"""
    c = json.loads(json.dumps({k: v for k, v in case.items() if not k.startswith('impl')}))
    mro = class_mro(c['exc']['cls'], c['classes'])
    k = rng.randrange(6)
    if k == 0:
        c['settings']['default'] = not c['settings']['default']
    elif k == 1:
        c['settings']['skip'], c['settings']['skip_tuple'] = gen_skip(rng, mro)
    elif k == 2:
        c['settings']['debug'] = rng.choice([None, False, True])
    elif k == 3:       # plant a failing spec in front of everything
        c['spec'] = {'tup': [rng.choice(['badPath', 'badMatch']), c['spec']]}
    elif k == 4:       # absorb / do not absorb in a Coalesce
        skip, _ = gen_skip(rng, mro)
        c['spec'] = {'coal': [c['spec']], 'skip': skip, 'dflt': rng.random() < 0.5}
    else:
        if c['classes'] and c['classes'][0].get('shape') is not None:
            c['classes'][0]['shape']['sig'][3] = rng.choice(USER_STORES)
        else:
            c['exc']['set_args'] = [gen_aval(rng) for _ in range(rng.choice([0, 1, 2]))]
    c['recorder'] = bool(c.get('recorder') or has_internal(c['spec']))
    return c


def generate(rng, tier, scale, **focus):
    n = (1400 if tier == 'quick' else 30000) * scale
    maxdepth = 4 if tier == 'quick' else 8
    last = None
    for i in range(n):
        if last is not None and rng.random() < 0.3:
            last = mutate(rng, last)
            yield last
            continue
        classes, exc = gen_exception(rng)
        mro = class_mro(exc['cls'], classes)
        depth = rng.choice([0, 1, 1, 2, 2, 3, maxdepth])
        spec = gen_ctx(rng, 'fault', depth, mro, noise=0.08)
        last = mk_case(classes, exc, spec, gen_settings(rng, mro), rng)
        yield last
    if not focus:
        yield from exhaustive(tier)


def catalogue():
    """every class of the catalogue once, with fitting arguments (deterministic)"""
    import random
    rng = random.Random(4242)
    out = []
    for b in PLAIN_BASES + SPECIAL_BASES:
        init, kw = init_for(rng, b, [])
        out.append(([], {'cls': b, 'init': init, 'kw': kw, 'set_args': None}))
    shapes = [{'sig': [lo, hi, kw, st]} for (lo, hi) in ((0, None), (2, 2), (1, None))
              for kw in (False, True) for st in ('all', 'nosuper', 'len', 'rev', {'pre': 1}, {'const': 'boom'})]
    for base in ('Exception', 'KeyError', 'GlomError', 'KeyboardInterrupt'):
        for sh in shapes:
            for falsy in ((False, True) if sh['sig'][3] == 'all' and not sh['sig'][2] else (False,)):
                cl = [{'name': 'U1', 'base': base, 'shape': sh, 'falsy': falsy}]
                init, kw = init_for(rng, 'U1', cl)
                out.append((cl, {'cls': 'U1', 'init': init, 'kw': kw, 'set_args': None}))
    for base in SPECIAL_BASES:
        cl = [{'name': 'U1', 'base': base, 'shape': None, 'falsy': False}]
        init, kw = init_for(rng, 'U1', cl)
        out.append((cl, {'cls': 'U1', 'init': init, 'kw': kw, 'set_args': None}))
    return out


CONTEXTS = ['fault',
            {'tup': ['ok', 'fault', 'ok']},
            {'dct': ['ok', {'lst': {'frame': 'fault'}}]},
            {'tup': ['ok', {'first': 'fault'}]},
            {'coal': ['fault'], 'skip': None, 'dflt': False},
            {'coal': ['badPath', 'fault', 'ok'], 'skip': ['Exception'], 'dflt': False},
            {'tup': [{'coal': ['badMatch', 'fault'], 'skip': ['BaseException'], 'dflt': False}]},
            {'tup': ['badMatch', 'fault']}]


def exhaustive(tier):
    cat = catalogue()
    ctxs = CONTEXTS if tier == 'thorough' else [CONTEXTS[0], CONTEXTS[1], CONTEXTS[3]]
    step = 1 if tier == 'thorough' else 7
    i = 0
    for classes, exc in cat:
        mro = class_mro(exc['cls'], classes)
        real = [m for m in mro if m != 'object']
        skips = [(None, False), ([real[0]], False), ([real[min(1, len(real) - 1)]], False),
                 (['ZeroDivisionError' if 'ZeroDivisionError' not in mro else 'EOFError'], False),
                 (['EOFError', real[-1]], True), ([], True), (['GlomError'], False)]
        for spec in ctxs:
            for d, (skip, tup), dbg in itertools.product((False, True), skips, (None, False, True)):
                i += 1
                if i % step:
                    continue
                yield mk_case(classes, exc, spec, {'default': d, 'skip': skip, 'skip_tuple': tup, 'debug': dbg})


def corpus():
    """the four repaired defects, one witness each (DESIGN.md F5, F6 and the two found while building this check)"""
    none = {'default': False, 'skip': None, 'skip_tuple': False, 'debug': None}
    out = [
        mk_case([{'name': 'G2', 'base': 'GlomError', 'shape': {'sig': [2, 2, False, {'pre': 1}]}, 'falsy': False}],
                {'cls': 'G2', 'init': [{'i': 1}, {'i': 2}], 'kw': False, 'set_args': None}, 'fault', none),
        mk_case([{'name': 'L', 'base': 'Exception', 'shape': {'sig': [0, None, False, 'len']}, 'falsy': False}],
                {'cls': 'L', 'init': [{'i': 5}, {'i': 6}], 'kw': False, 'set_args': None}, 'fault', none),
        mk_case([{'name': 'G3', 'base': 'GlomError', 'shape': {'sig': [0, None, False, 'rev']}, 'falsy': False}],
                {'cls': 'G3', 'init': [{'i': 5}, {'i': 6}], 'kw': False, 'set_args': None}, 'fault', none),
        mk_case([{'name': 'TM', 'base': 'TypeMatchError', 'shape': None, 'falsy': False}],
                {'cls': 'TM', 'init': [{'o': 1}, {'o': 2}], 'kw': False, 'set_args': None}, 'fault', none),
        mk_case([{'name': 'FalsyG', 'base': 'GlomError', 'shape': None, 'falsy': True}],
                {'cls': 'FalsyG', 'init': [{'i': 1}], 'kw': False, 'set_args': None}, 'fault', none),
        mk_case([{'name': 'Falsy', 'base': 'KeyError', 'shape': None, 'falsy': True}],
                {'cls': 'Falsy', 'init': [{'s': 'k'}], 'kw': False, 'set_args': None},
                {'tup': ['ok', {'dct': ['fault']}]}, none),
    ]
    # the counter-examples that justify the hypotheses of the theorems (Props/C04.lean), on the real glom
    key_err = {'cls': 'KeyError', 'init': [{'s': 'k'}], 'kw': False, 'set_args': None}
    out += [
        # c04_glomerror without `rebuildable`: U(a, b) stores (a,) -> the original leaves, not a GlomError
        mk_case([{'name': 'U', 'base': 'Exception', 'shape': {'sig': [2, 2, False, {'pre': 1}]}, 'falsy': False}],
                {'cls': 'U', 'init': [{'i': 1}, {'i': 2}], 'kw': False, 'set_args': None}, 'fault', none),
        # … without `Exception`: a KeyboardInterrupt subclass is never wrapped
        mk_case([{'name': 'KI', 'base': 'KeyboardInterrupt', 'shape': None, 'falsy': False}],
                {'cls': 'KI', 'init': [{'i': 1}], 'kw': False, 'set_args': None}, 'fault', none),
        # … without `debug off`
        mk_case([], key_err, 'fault', dict(none, debug=True)),
        # c04_debug_identity / c04_baseexception_untouched without `selected = false`
        mk_case([{'name': 'KI', 'base': 'KeyboardInterrupt', 'shape': None, 'falsy': False}],
                {'cls': 'KI', 'init': [{'i': 1}], 'kw': False, 'set_args': None}, 'fault',
                {'default': True, 'skip': ['KI'], 'skip_tuple': False, 'debug': True}),
        # c04_plain_frames without the StopIteration clause: First's key raising StopIteration ends the iteration
        mk_case([], {'cls': 'StopIteration', 'init': [{'i': 3}], 'kw': False, 'set_args': None},
                {'first': 'fault'}, none, recorder=True),
        # … without `PreOk`: an earlier sibling fails first
        mk_case([], key_err, {'tup': ['badPath', 'fault']}, none),
    ]
    p = os.path.join(os.path.dirname(os.path.dirname(os.path.dirname(os.path.abspath(__file__)))),
                     'corpus', 'C04.jsonl')
    if os.path.exists(p):
        for line in open(p):
            if line.strip():
                out.append(json.loads(line))
    return out


def key(case):
    return {k: case[k] for k in ('classes', 'exc', 'spec', 'settings', 'recorder')}


def nontrivial(case, verdict):
    b = verdict.get('branch', '')
    if b in ('no-exception', 'ctor-disagreement', ''):
        return False
    st = case['settings']
    plain = (not case['classes'] and case['exc']['cls'] in PLAIN_BASES and case['exc'].get('set_args') is None)
    return bool(case['spec'] != 'fault' or st['default'] or st.get('skip') is not None
                or st.get('debug') is not None or not plain)


def shrink(case):
    base = {k: v for k, v in case.items() if not k.startswith('impl')}

    def with_spec(sp):
        c = dict(base)
        c['spec'] = sp
        c['recorder'] = bool(has_internal(sp))
        return c
    sp = case['spec']
    if not isinstance(sp, str):
        kids = sp.get('tup') or sp.get('dct') or sp.get('coal') or [sp.get('lst') or sp.get('frame') or sp.get('first')]
        for x in kids:
            if x is not None:
                yield with_spec(x)
        for k in ('tup', 'dct', 'coal'):
            if k in sp:
                for i in range(len(sp[k])):
                    s2 = dict(sp)
                    s2[k] = sp[k][:i] + sp[k][i + 1:]
                    yield with_spec(s2)
    st = case['settings']
    for k, v in (('default', False), ('skip', None), ('debug', None)):
        if st.get(k) != v:
            c = dict(base)
            c['settings'] = dict(st, **{k: v})
            yield c
    if case['exc'].get('set_args') is not None:
        c = dict(base)
        c['exc'] = dict(case['exc'], set_args=None)
        yield c
    if len(case['classes']) == 2 and case['exc']['cls'] == 'U2':
        c = dict(base)
        c['classes'] = case['classes'][:1]
        c['exc'] = dict(case['exc'], cls='U1')
        yield c
    if base.get('recorder') and not has_internal(sp):
        c = dict(base)
        c['recorder'] = False
        yield c


def focus(disagreements, facts_changed):
    return {'focus': True}
