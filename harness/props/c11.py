"""C11 — assign obeys the lens laws and fails atomically: generators, implementation runner."""
import json

from harness import pyobjs
from harness.props import mutobjs as M

PROP = 'C11'
LEAN_MODULES = ['Glom.Props.C11']
FACT_FILES = ['TFacts', 'ExcFacts', 'RegFacts', 'MutFacts', 'c11']
READY = True
MANIFEST = dict(
    text="Lean 4 theorems about an executable model of Assign.__init__/glomit, _assign_op, _apply_for_each and the `assign` registry op on a heap with object identity: for every heap (sharing, cycles), target, wildcard-free destination of any length, value and `missing` factory the model's outcome IS the plain-Python nested assignment (same object returned; result heap equal to `pySet`; every other pre-existing cell untouched; on any failure every pre-existing cell unchanged; with `missing` exactly one factory call per absent segment, the attach is the last and only write to a pre-existing cell); put-get under the hypothesis the proof forces (counter-example kept); wildcard destinations assign at every match in order. Facts obligation by `decide` on the branch table of _assign_op regenerated from /repo; model tied to the code by differential execution (full heap snapshot, exception class chain, factory call count).",
    note="trusted: Lean kernel + {propext, Classical.choice, Quot.sound}; extractor (extract/facts/c11.py); harness/driver; CPython's setitem/setattr/delitem/delattr on dict/list/tuple/set/plain instances and the fault classes of harness/props/mutobjs.py as modelled in Glom/Model/C11.lean (validated by the correspondence only); default registry (C13 covers registration); `**` destinations and container *literals* as values are outside the model (arg-mode rebuilding is C08); the wildcard theorem covers destinations whose parent exists (a wildcard path that also needs `missing` is covered by the correspondence only).",
    technique='Lean 4 refinement proof (Assign model = plain nested assignment on a heap, frame + atomicity lemmas) + facts obligation by decide + differential correspondence',
    ref='DESIGN.md §3 C11')
RULE = ('type-directed: a nested target (dict/OrderedDict/dict subclass with __dict__/list/tuple/set/'
        'attribute objects incl. read-only-property, raising-__setattr__/__setitem__ classes; shared '
        'sub-objects, cycles) is generated as a heap graph; a destination is derived by walking it '
        '(length 1-5 quick / 1-8 thorough) and ends in an existing or a new slot, or stops existing 1-3 '
        'segments before the end; spelled as dotted text, Path(...), T[..]/T.attr, mixtures, S-rooted, '
        'with 0-2 `*` wildcards; values: scalars, plain objects, T / T-paths into the target (sharing, '
        'self-reference), failing T-paths; missing in {None, dict, list, object factory, tuple, raising '
        'factory}; a one-edit mutation stream plants a bad segment / wrong access kind at every position. '
        'non-trivial = path length >= 2, or an error, or a factory call, or a wildcard; distinct = '
        'distinct (heap, target, scope, root, spelling, value, missing)')
TRUSTED = ['mutation primitives of CPython and the fault classes of harness/props/mutobjs.py as modelled in '
           'lean/Glom/Model/C11.lean (per-class flags computed by introspection)',
           'segments stay in the int() subset [+-]?[0-9]+; attribute names disjoint from real attributes '
           'of builtin types and of ChainMap']
ASSUMPTIONS = ['default registry (no user registrations): C13 covers registration', 'PATH_STAR = True',
               '`**` destinations are skipped (enumeration order of `**` is C14)']

MISSING = [None] * 8 + ['dict'] * 5 + ['list', 'obj', 'obj', 'raise']


def gen_value(rng, heap, root):
    p = rng.random()
    if p < 0.5:
        return {'lit': M.jval(rng.choice(M.SCALARS + [42, 'new']))}
    if p < 0.62:
        insts = [a for a, c in enumerate(heap) if c['k'] == 'inst']
        if insts:
            return {'lit': {'r': rng.choice(insts)}}
        return {'lit': {'i': 42}}
    if p < 0.72:
        return {'t': []}                              # T itself: self-reference
    walk, _ = M.valid_walk(rng, heap, root, rng.randint(1, 3), prefer_deep=False)
    steps = [['.' if k == 'attr' else '[', key] for k, key in walk]
    if p > 0.95:
        steps.append(['[', {'s': 'zz'}])              # failing value path
    return {'t': steps}


def one_case(rng, tier, classes, cflags, force=None):
    force = force or {}
    if rng.random() < force.get('deep_star_p', 0.04):
        heap, root, steps = M.gen_star_case(rng, present=rng.random() < 0.8)
        style = M.choose_style(rng, steps, False)
        return {'classes': classes, 'cflags': [f for f in cflags if f[0] != 'Scope'], 'heap': heap,
                'target': root, 'scope': None, 'root': 'T', 'spelling': M.spell(rng, steps, style),
                'style': style, 'value': {'lit': M.jval(rng.choice([42, 'new', None]))}, 'missing': rng.choice([None, None, 'dict']),
                'api': rng.choice(['assign', 'Assign'])}
    maxlen = 5 if tier == 'quick' else 8
    heap, root = M.gen_target(rng, rng.choice([2, 3, 4]))
    sroot = force.get('sroot', rng.random() < 0.12)
    scope = None
    start = root
    if sroot or rng.random() < 0.05:
        scope = M.make_scope(rng, heap, root)
    missing = force.get('missing', rng.choice(MISSING))
    mode = rng.random()
    absent = 0
    if missing is not None and mode < 0.7:
        absent = rng.choice([1, 1, 2, 3])
    elif missing is None and mode < 0.12:
        absent = rng.choice([1, 2])
    if sroot:
        start = scope
    # (an S-rooted destination whose absent tail starts with `*` would enumerate — and write into —
    # glom's own scope maps, including the process-global default scope: never generated)
    steps = M.gen_dest(rng, heap, start, maxlen, want_present=rng.random() < 0.5, absent_tail=absent,
                       star_p=0 if (sroot and missing) else force.get('star_p', 0.15))
    if sroot and steps and steps[0][0] != 'key':
        steps[0] = ('key', {'s': 'd'})
    if rng.random() < force.get('mut_p', 0.25):
        steps = M.mutate_dest(rng, steps)
    style = M.choose_style(rng, steps, sroot)
    sp = M.spell(rng, steps, style)
    if scope is None:
        cflags = [f for f in cflags if f[0] != 'Scope']
    return {'classes': classes, 'cflags': cflags, 'heap': heap, 'target': root, 'scope': scope,
            'root': 'S' if sroot else 'T', 'spelling': sp, 'style': style,
            'value': gen_value(rng, heap, root), 'missing': missing,
            'warmup': rng.choice([1, 2, 2]) if rng.random() < force.get('warm_p', 0.15) else 0,
            'api': rng.choice(['assign', 'Assign'])}


def generate(rng, tier, scale, **focus):
    n = (4000 if tier == 'quick' else 100000) * scale
    classes, cflags = M.class_table(), M.class_flags()
    for _ in range(n):
        yield one_case(rng, tier, classes, cflags, focus)
    if tier == 'thorough' and not focus:
        yield from exhaustive(classes, cflags)


def exhaustive(classes, cflags):
    """every destination of length <= 3 over a small alphabet, in text and T[...] spelling, on
    fixed targets x missing in {None, dict}"""
    import itertools
    import random
    rng = random.Random(4242)
    fixed = []
    while len(fixed) < 25:
        heap, root = M.gen_target(rng, 3)
        if heap and isinstance(root, dict) and 'r' in root:
            fixed.append((heap, root))
    alpha = ['a', 'b', '0', 'n0']
    for heap, root in fixed:
        for L in range(1, 4):
            for segs in itertools.product(alpha, repeat=L):
                for missing in (None, 'dict'):
                    for style in ('text', 't'):
                        if style == 'text':
                            sp = {'text': '.'.join(segs)}
                        else:
                            sp = {'parts': [{'t': [['[', {'s': s}] for s in segs]}]}
                        yield {'classes': classes, 'cflags': [f for f in cflags if f[0] != 'Scope'],
                               'heap': heap, 'target': root,
                               'scope': None, 'root': 'T', 'spelling': sp, 'style': style,
                               'value': {'lit': {'i': 42}}, 'missing': missing, 'api': 'assign'}


def corpus():
    return M.load_corpus('C11')


class Factory:
    def __init__(self, kind):
        self.kind, self.made, self.calls = kind, [], 0

    def __call__(self):
        self.calls += 1
        if self.kind == 'raise':
            raise RuntimeError('factory')
        o = {'dict': dict, 'list': list, 'obj': M.Obj, 'tuple': tuple}[self.kind]()
        self.made.append(o)
        return o


def run_impl(case):
    import glom
    from glom import Assign
    objs, dv = M.decode(case['heap'])
    enc = M.Encoder(objs, case['heap'])
    target = dv(case['target'])
    kwargs = {}
    if case.get('scope') is not None:
        kwargs['scope'] = dv(case['scope'])
    v = case['value']
    if 'lit' in v:
        val = dv(v['lit'])
    else:
        from glom import T
        val = T
        for op, arg in v['t']:
            val = getattr(val, dv(arg)) if op == '.' else val[dv(arg)]
    fac = Factory(case['missing']) if case.get('missing') else None
    out = dict(case)
    default_map = glom.core._DEFAULT_SCOPE.maps[0]
    default_keys = set(default_map)
    try:
        path = M.build_path(case, dv)
        if case.get('api') == 'assign' and not kwargs and not case.get('warmup'):
            res = glom.assign(target, path, val, missing=fac)
        else:
            spec = Assign(path, val, missing=fac)
            M.warm_up(case, spec, fac)       # the same spec object, used on other targets before
            res = glom.glom(target, spec, **kwargs)
    except Exception as e:
        r = M.observe_exc(e)
    else:
        a = enc.ids.get(id(res))
        r = {'ok': {'r': a} if a is not None and enc.is_container(res) else pyobjs.enc_val(res, lambda x: None)}
    for k in set(default_map) - default_keys:     # keep the process-global default scope clean
        del default_map[k]
    if fac:
        for o in fac.made:
            enc.reserve(o)
    heap = enc.snapshot()
    out['impl'] = {'res': r, 'heap': heap, 'calls': fac.calls if fac else 0, 'hidden': enc.hidden()}
    return out


def key(case):
    return {k: case.get(k) for k in ('heap', 'target', 'scope', 'root', 'spelling', 'style', 'value', 'missing', 'warmup')}


def nontrivial(case, verdict):
    impl = case.get('impl') or {}
    return (len(M.steps_of_spelling(case['spelling'])) >= 2 or 'err' in impl.get('res', {})
            or impl.get('calls', 0) > 0)


def shrink(case):
    yield from M.shrink_common(case)
    base = {k: v for k, v in case.items() if not k.startswith('impl')}
    if 't' in case['value'] and case['value']['t']:
        c = dict(base); c['value'] = {'t': case['value']['t'][:-1]}
        yield c
    if case.get('scope') is not None and case.get('root') != 'S':
        c = dict(base); c['scope'] = None
        yield c
    if case.get('warmup'):
        c = dict(base); c['warmup'] = case['warmup'] - 1
        yield c


def focus(disagreements, facts_changed):
    f = {}
    if 'MutFacts' in (facts_changed or []):
        f['star_p'] = 0.4
        f['deep_star_p'] = 0.3
        f['warm_p'] = 0.5
        f['missing'] = 'dict'
    if any(c.get('root') == 'S' for c, _ in disagreements):
        f['sroot'] = True
    if disagreements and all(c.get('missing') for c, _ in disagreements):
        f['missing'] = 'dict'
    if any('x' in json.dumps(c['spelling']) for c, _ in disagreements):
        f['star_p'] = 0.6
        f['deep_star_p'] = 0.3
    return f
