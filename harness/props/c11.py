"""C11 — assign obeys the lens laws and fails atomically: generators, implementation runner."""
import json

from harness import pyobjs
from harness.props import mutobjs as M

PROP = 'C11'
LEAN_MODULES = ['Glom.Props.C11']
FACT_FILES = ['TFacts', 'ExcFacts', 'RegFacts', 'MutFacts', 'c11']
READY = True
MANIFEST = dict(
    text="Lean 4 theorems about an executable model of Assign.__init__/glomit, arg_val/_ArgValuator.mode, _assign_op, _apply_for_each and the `assign` registry op on a heap with object identity: for every heap (sharing, cycles), target, wildcard-free destination of any length, value and `missing` factory the model's outcome IS the plain-Python nested assignment (same object returned; result heap equal to `pySet`; every other pre-existing cell untouched; on any failure — at every depth of the `missing` backfill, inside the value's evaluation — every pre-existing cell unchanged; with `missing` exactly one factory call per absent segment, the attach is the last and only write to a pre-existing cell; factories that return a non-container: nothing can be created on `0` / '' / None unless the next step is a wildcard) [c11_refines, c11_atomic, c11_frame, c11_missing]; the exact outcome at the parent for every container kind and registered handler, PathAssignError(e) exactly when the extracted except-clause names e, UnregisteredTarget for types registered False, list indices exactly [-n, n) [c11_exact_outcome, c11_list_index; the handler table is a parameter: c11_facts_wf_ureg]; LITERAL CONTAINERS in val position: arg_val touches no pre-existing cell, rebuilds ONE list/dict per distinct original (memo = partial injection, never dropped: sharing and cycles of the literal are kept), then the rebuilt value is assigned like any other [c11_argval_fresh, c11_copy_once, c11_copy_memo, c11_lit_refines, c11_lit_atomic, c11_lit_model_checks, facts obligation c11_facts_argval on _ArgValuator's source]; put-get under the hypothesis the proof forces (counter-example kept) and put-put (assign twice = last wins) [c11_put_get_partial, c11_put_put_partial]; read-back in the same chain [c11_read_checks]; the path an Assign keeps is the path as it is read [c11_facts_s_first, c11_refines_spec]; wildcard destinations assign at every match in order [c11_star, facts: one evaluation of the rest per entry]; ONE SPEC OBJECT, OVERLAPPING EVALUATIONS: the model reads nothing of its state but the heap [c11_from_any_state], a factory that re-enters glom with the same Assign object at its first call leaves this evaluation exactly what it is alone [c11_reenter_first, c11_reenter_spent; facts: no method of Assign but __init__ stores into self]. WHICH ERROR: the exception of a failing wildcard-free assignment is the one the reading prescribes — ValueError / PathAccessError(e,k) / PathAssignError(e) for a plain segment / Python's own e for T[..], T.attr / UnregisteredTarget — checked on the implementation as part of `holds` [c11_error_class, c11_err_checks, c11_facts_wrap]; checker theorem for wildcard destinations [c11_star_model_checks]; the model's int() domain is an explicit hypothesis [intSafe]. Facts obligations by `decide` on the tables regenerated from /repo; model tied to the code by differential execution (full heap snapshot, the ORDER of the writes through logging stand-ins — attached last, no transient write by a failing call — compared up to the numbering of the cells created during the call, exception class chain, factory call count, the value a later chain step reads back, the scope frame as a later chain step sees it, the caller's scope mapping unchanged).",
    note="trusted: Lean kernel + {propext, Classical.choice, Quot.sound}; extractor (extract/facts/c11.py); harness/driver; CPython's setitem/setattr/delitem/delattr on dict/list/tuple/set/plain instances and the fault classes of harness/props/mutobjs.py as modelled in Glom/Model/C11.lean (validated by the correspondence only); registry lookup = first registered class of the MRO (C13 covers the registry itself); `**` destinations outside the model; literal values: dict keys of literals are scalars, sets hold scalars; the wildcard theorem covers destinations whose parent exists; overlapping evaluations are proved transparent for re-entry at the FIRST factory call under explicit non-interference equations, re-entry at later calls and the two-thread variant are covered by the correspondence only (prescription: the two plain assignments in sequence, compared up to numbering of new cells, on records that share nothing).",
    technique='Lean 4 refinement proof (Assign model = plain nested assignment on a heap, frame + atomicity lemmas; arg_val graph-copy invariants; state-shift lemma for re-use / re-entrancy) + facts obligations by decide + differential correspondence',
    ref='DESIGN.md §3 C11')
RULE = ('type-directed: a nested target (dict/OrderedDict/dict subclass with __dict__/list/tuple/set/'
        'attribute objects incl. read-only-property, raising-__setattr__/__setitem__ classes; shared '
        'sub-objects, cycles) is generated as a heap graph; a destination is derived by walking it '
        '(length 1-5 quick / 1-8 thorough) and ends in an existing or a new slot, or stops existing 1-3 '
        'segments before the end — for S-rooted destinations (12%) in 40% of those the FIRST segment, i.e. the '
        'scope variable itself, is the absent one —; spelled as dotted text, Path(...), T[..]/T.attr, mixtures, '
        'S-rooted (first step as S[name], S.name or Path(S, name)), with 0-2 `*` wildcards; 75% of the S-rooted '
        'and 30% of the other cases run as a chain (Assign, peek, read-back of the destination or a prefix of it '
        'from the same root) so that the frame an S-rooted Assign binds in and put-get are observed; values: scalars, plain objects, T / T-paths into the target (sharing, '
        'self-reference), failing T-paths, LITERAL CONTAINERS (16%: nested exact list / dict / tuple / set / frozenset, subclass instances, objects; '
        'the same container reachable by two routes, cycles through lists / dicts, T leaves incl. failing ones, references into the target) and objects '
        'of the target itself as literals; 8% of the cases register 1-3 user classes on a private Glommer with explicit get / assign / delete handlers '
        '(every handler kind, False, a raising handler); 7% evaluate ONE Assign object in two overlapping calls on two records that share nothing '
        '(the factory re-enters glom with the same spec at its 1st/2nd/3rd call, or two threads meet inside the factory); 5% are regular nested targets '
        'under one `*` per level, most with the SAME leaf / sub-container matched more than once; missing in {None, dict, list, object factory, tuple, raising '
        'factory, factories returning a non-container: int, str, lambda: None}; a one-edit mutation stream plants a bad segment / wrong access kind at every position. '
        'values also Val(x) (stored as it is), Spec(T…) / Spec(text), callables (stored, not called); 30% of the ordinary cases '
        'record the ORDER of the writes (logging stand-ins); bad segments include int()-unsafe ones (\' 1 \', \'0_1\', Arabic digits, floats); '
        '`**` in one of eight wildcard destinations; deque targets; '
        'non-trivial = path length >= 2, or an error, or a factory call, or a wildcard; distinct = '
        'distinct (heap, target, scope, root, spelling, value, missing)')
TRUSTED = ['mutation primitives of CPython and the fault classes of harness/props/mutobjs.py as modelled in '
           'lean/Glom/Model/C11.lean (per-class flags computed by introspection)',
           'segments stay in the int() subset [+-]?[0-9]+; attribute names disjoint from real attributes '
           'of builtin types and of ChainMap']
ASSUMPTIONS = ['registry lookup = first registered class of the MRO (C13 covers the registry); the prescription uses '
               'kind-fixed tables for the builtin types (c11_facts_natural), user registrations as the case made them',
               'PATH_STAR = True',
               '`**` destinations: generated, checked for same-object only (the enumeration order of `**` is C14)',
               'READING (F11-1): which error — ValueError from the constructor; PathAccessError(e, part_idx=k) where the parent '
               'path (no factory) or the value path stops; a failing final step is PathAssignError(e, dest_name) for a plain '
               'segment (any exception of the registered handler means "cannot be assigned") and Python\'s own exception for '
               'T[..] / T.attr; UnregisteredTarget for a type without handler; inside the missing= backfill: some error [refErr]',
               'READING (F11-10): "left exactly as it was" = glom performs no write; side effects of the target\'s own READS '
               '(defaultdict, a storing __missing__, counting getters) are the target\'s — such classes are not in the catalogue '
               '(the model\'s reads are pure)',
               'READING (F11-9): the model\'s int() is [+-]?[0-9]+; segments CPython\'s int() reads differently (whitespace, '
               'underscores, non-ASCII digits, floats) are generated but only checked for same-object / atomicity [intSafe is a '
               'hypothesis of every theorem]',
               'write order (F11-2): observed on the implementation through logging stand-ins of plain dict / list / Obj and of '
               'the factory objects; other classes are not logged']

# Probability of spelling the FIRST step of an S-rooted destination as `S.name` / `Path(S, name)` instead
# of `S[name]`: all three name the scope variable (reading: core._s_first_magic; Assign / Delete:
# mutation._s_first_item, repaired defect 94a9ae1 — before it `glom({}, (Assign(S.a, 5), S.a))` raised
# PathAccessError on the read-back, the Assign having set an attribute on the ChainMap object)
S_FIRST_PLAIN_P = M.S_FIRST_PLAIN_P

# Read an S-rooted path back THROUGH a wildcard?  (Repaired defect 62e884e: before it a wildcard in an
# S-rooted path that is evaluated applied the rest of the path to the scope, not to the entries —
# `glom({}, S['e'].__star__(), scope={'e': [1, 2]})` was two ChainMaps; False cuts such a read-back in
# front of the first wildcard.)
S_STAR_READBACK = True

MISSING = [None] * 8 + ['dict'] * 5 + ['list', 'obj', 'obj', 'raise', 'int', 'str', 'none', 'tuple']


# `Val(x)`, `Spec(path)` and callables in `val` position.  False: not generated.
SPEC_VALUES = True

# Literal containers in `val` position (arg mode REBUILDS exact list / dict / tuple / set / frozenset
# objects: one rebuilt list / dict per distinct original — sharing and cycles are kept —, T leaves are
# evaluated against the target).  False: such values are not generated.
LITERAL_CONTAINERS = True


def gen_value(rng, heap, root, force=None):
    force = force or {}
    p = rng.random()
    if LITERAL_CONTAINERS and p < force.get('tmpl_p', 0.16):
        # a literal container written by the user: sharing, cycles, T leaves, references into the target
        return {'lit': M.gen_template(rng, heap, root, maxdepth=rng.choice([2, 3, 3, 4]),
                                      tleaf_p=rng.choice([0, 0.15, 0.3]))}
    p = rng.random()
    if SPEC_VALUES and p < 0.08:
        # `Val(x)`: x itself, whatever it is — a container is stored as it is (never rebuilt), a T inside it stays a T
        conts = [a for a, c in enumerate(heap) if c['c'] not in ('Scope', 'TLeaf')
                 and not (c['k'] in ('tuple', 'set') and not c['v'])]
        q = rng.random()
        if q < 0.5 and conts:
            return {'val': {'r': rng.choice(conts)}}
        if q < 0.7:
            return {'val': M.gen_template(rng, heap, root, maxdepth=2, tleaf_p=0.2, want_shared=False)}
        return {'val': M.jval(rng.choice(M.SCALARS))}
    if SPEC_VALUES and p < 0.11:
        return {'lit': {'fn': rng.choice(sorted(M.CALLABLES))}}      # a callable as value: stored, not called
    if SPEC_VALUES and p < 0.17:
        # `Spec(T…)` / `Spec('a.b')`: evaluated against the target like a bare T / path
        walk, _ = M.valid_walk(rng, heap, root, rng.randint(1, 3), prefer_deep=False)
        if all(M.text_ok(k, key) for k, key in walk) and walk and rng.random() < 0.5:
            return {'text': '.'.join(M.seg_text(k, key) for k, key in walk)}
        return {'t': [['.' if k == 'attr' else '[', key] for k, key in walk], 'wrap': 'Spec'}
    p = rng.random()
    if p < 0.5:
        return {'lit': M.jval(rng.choice(M.SCALARS + [42, 'new']))}
    if p < 0.62:
        # an object of the target itself as a literal value: plain objects and subclass instances are
        # stored as they are, an exact list / dict / tuple / set is stored as a rebuilt copy
        conts = [a for a, c in enumerate(heap) if c['k'] == 'inst' and c['c'] != 'TLeaf' or
                 (LITERAL_CONTAINERS and c['c'] != 'Scope' and c['k'] != 'inst'
                  and not (c['k'] in ('tuple', 'set') and not c['v']))]
        if conts:
            return {'lit': {'r': rng.choice(conts)}}
        return {'lit': {'i': 42}}
    if p < 0.72:
        return {'t': []}                              # T itself: self-reference
    walk, _ = M.valid_walk(rng, heap, root, rng.randint(1, 3), prefer_deep=False)
    steps = [['.' if k == 'attr' else '[', key] for k, key in walk]
    if p > 0.95:
        steps.append(['[', {'s': 'zz'}])              # failing value path
    return {'t': steps}


def gen_readback(rng, steps, style, p, sroot=False):
    """chain mode: `(Assign(dest, …), <peek>, readPath)` — a later step of the same chain reads the
    destination path (or a non-empty prefix of it) back, from the same root, in the same spelling"""
    if rng.random() >= p or not steps:
        return None
    n = len(steps) if rng.random() < 0.6 else rng.randint(1, len(steps))
    if sroot and not S_STAR_READBACK:
        stars = [i for i, st in enumerate(steps[:n]) if st[0] == 'star']
        if stars:
            n = stars[0]
            if n == 0:
                return None
    sp = M.spell(rng, steps[:n], style)
    return {'spelling': M.s_first(rng, sp, S_FIRST_PLAIN_P) if sroot else sp}


def one_case(rng, tier, classes, cflags, force=None):
    force = force or {}
    if rng.random() < force.get('deep_star_p', 0.05):
        # (half of them with the SAME leaf / sub-container among the matches more than once)
        heap, root, steps = M.gen_star_case(rng, present=rng.random() < 0.8,
                                            share_p=rng.choice([0, 0.35, 0.6]))
        scope = None
        sroot = rng.random() < 0.4
        if sroot:
            # the same regular target as a scope variable: S['d'].*.*…  (the wildcards below the variable)
            heap.append({'k': 'dict', 'c': 'Scope', 'v': [[{'s': 'd'}, root]]})
            scope = {'r': len(heap) - 1}
            steps = [('key', {'s': 'd'})] + steps
        style = M.choose_style(rng, steps, sroot)
        sp = M.spell(rng, steps, style)
        return {'classes': classes, 'cflags': cflags if sroot else [f for f in cflags if f[0] != 'Scope'], 'heap': heap,
                'target': root, 'scope': scope, 'root': 'S' if sroot else 'T',
                'spelling': M.s_first(rng, sp, S_FIRST_PLAIN_P) if sroot else sp,
                'style': style, 'value': {'lit': M.jval(rng.choice([42, 'new', None]))}, 'missing': rng.choice([None, None, 'dict']),
                'readback': gen_readback(rng, steps, style, force.get('chain_p', 0.8 if sroot else 0.3), sroot),
                'api': rng.choice(['assign', 'Assign'])}
    maxlen = 5 if tier == 'quick' else 8
    heap, root = M.gen_target(rng, rng.choice([2, 3, 4]))
    if REENTRANT and rng.random() < force.get('reenter_p', 0.07):
        return reenter_case(rng, tier, classes, cflags, heap, root, force)
    # user registrations on a private Glommer (T-rooted, no wildcards: `*` enumerates through the
    # registered `keys` / `get` / `iterate` handlers, which is C14's subject)
    ureg = M.gen_ureg(rng) if USER_REGISTRATIONS and rng.random() < force.get('ureg_p', 0.08) else None
    sroot = force.get('sroot', rng.random() < 0.12) and not ureg
    scope = None
    start = root
    if sroot or (rng.random() < 0.05 and not ureg):
        scope = M.make_scope(rng, heap, root)
    missing = force.get('missing', rng.choice(MISSING))
    mode = rng.random()
    absent = 0
    if missing is not None and mode < 0.7:
        absent = rng.choice([1, 1, 2, 3])
    elif missing is None and mode < 0.12:
        absent = rng.choice([1, 2])
    if sroot:
        start = scope
    # (an S-rooted destination whose absent tail starts with `*` would enumerate — and write into —
    # glom's own scope maps, including the process-global default scope: never generated)
    steps = M.gen_dest(rng, heap, start, maxlen, want_present=rng.random() < 0.5, absent_tail=absent,
                       star_p=0 if ((sroot and missing) or ureg) else force.get('star_p', 0.3 if sroot else 0.15),
                       first_absent_p=0.4 if sroot else 0.15)
    if sroot and steps and steps[0][0] != 'key':
        steps[0] = ('key', {'s': 'd'})
    if rng.random() < force.get('mut_p', 0.25):
        steps = M.mutate_dest(rng, steps)
    style = M.choose_style(rng, steps, sroot)
    sp = M.spell(rng, steps, style)
    if sroot:
        sp = M.s_first(rng, sp, S_FIRST_PLAIN_P)
    if scope is None:
        cflags = [f for f in cflags if f[0] != 'Scope']
    value = gen_value(rng, heap, root, force)
    # write order observed on the implementation (plain dict / list / Obj cells and factory objects are
    # logging stand-ins): only with values arg mode does not rebuild
    logged = bool(WRITE_LOG and rng.random() < force.get('log_p', 0.3) and
                  not (isinstance(value.get('lit'), dict) and 'r' in value['lit']) and 'val' not in value)
    return {'classes': classes, 'cflags': cflags, 'heap': heap, 'target': root, 'scope': scope,
            'root': 'S' if sroot else 'T', 'spelling': sp, 'style': style, 'logged': logged,
            'value': value, 'missing': missing,
            'readback': gen_readback(rng, steps, style, force.get('chain_p', 0.75 if sroot else 0.3), sroot),
            'warmup': rng.choice([1, 2, 2]) if rng.random() < force.get('warm_p', 0.15) and not ureg else 0,
            'api': rng.choice(['assign', 'Assign']), 'ureg': M.ureg_tables(ureg) if ureg else None,
            'ureg_src': ureg}


# User types: classes registered on a private Glommer with explicit get / assign / delete handlers
# (every handler kind, False, a raising handler of the user's own).  False: not generated.
USER_REGISTRATIONS = True

# The ORDER of glom's writes, observed on the implementation (30% of the ordinary cases): "attached last",
# and no write at all to a pre-existing object when the call fails.  False: not observed.
WRITE_LOG = True

# One Assign object evaluated by two OVERLAPPING calls: the `missing` factory of the call on `target`
# re-enters glom with the same spec object on a second record (`target2`: a copy of the target's cells
# with other leaves, sharing nothing with it) at its `at`-th call — or two threads evaluate the spec on
# the two records and meet inside the factory.  Each call must assign ITS OWN value (a spec object is
# an immutable term: nothing of one evaluation may leak into another).  False: not generated.
REENTRANT = True


def reenter_case(rng, tier, classes, cflags, heap, root, force):
    maxlen = 5 if tier == 'quick' else 8
    kind = rng.choice(['dict'] * 5 + ['list', 'obj', 'obj', 'raise'])
    absent = rng.choice([1, 1, 2, 2, 3])
    steps = M.gen_dest(rng, heap, root, maxlen, want_present=False, absent_tail=absent, star_p=0,
                       first_absent_p=0.2)
    if rng.random() < 0.1:
        steps = M.mutate_dest(rng, steps)
    style = M.choose_style(rng, steps, False)
    sp = M.spell(rng, steps, style)
    # the value: mostly one that differs between the two records (a T path / a literal with T leaves)
    p = rng.random()
    if p < 0.6:
        walk, _ = M.valid_walk(rng, heap, root, rng.randint(0, 3), prefer_deep=False)
        value = {'t': [['.' if k == 'attr' else '[', key] for k, key in walk]}
        target2 = M.append_copy(heap, root)
    elif p < 0.85 and LITERAL_CONTAINERS:
        value = {'lit': M.gen_template(rng, heap, root, maxdepth=2, tleaf_p=0.4, want_shared=False)}
        target2 = M.append_copy(heap, root)
    else:
        value = {'lit': M.jval(rng.choice([42, 'new', None]))}
        target2 = M.append_copy(heap, root)
    return {'classes': classes, 'cflags': [f for f in cflags if f[0] != 'Scope'], 'heap': heap, 'target': root,
            'scope': None, 'root': 'T', 'spelling': sp, 'style': style, 'value': value, 'missing': kind,
            'readback': None, 'warmup': 0, 'api': 'Assign',
            'reenter': {'at': rng.choice([0, 0, 0, 1, 1, 2]), 'target2': target2,
                        'threads': rng.random() < force.get('threads_p', 0.25)}}


def generate(rng, tier, scale, **focus):
    n = (4000 if tier == 'quick' else 100000) * scale
    classes, cflags = M.class_table(), M.class_flags()
    for _ in range(n):
        yield one_case(rng, tier, classes, cflags, focus)
    if tier == 'thorough' and not focus:
        yield from exhaustive(classes, cflags)


def exhaustive(classes, cflags):
    """every destination of length <= 3 over a small alphabet, in text and T[...] spelling, on
    fixed targets x missing in {None, dict}"""
    import itertools
    import random
    rng = random.Random(4242)
    fixed = []
    while len(fixed) < 25:
        heap, root = M.gen_target(rng, 3)
        if heap and isinstance(root, dict) and 'r' in root:
            fixed.append((heap, root))
    alpha = ['a', 'b', '0', 'n0']
    for heap, root in fixed:
        for L in range(1, 4):
            for segs in itertools.product(alpha, repeat=L):
                for missing in (None, 'dict'):
                    for style in ('text', 't'):
                        if style == 'text':
                            sp = {'text': '.'.join(segs)}
                        else:
                            sp = {'parts': [{'t': [['[', {'s': s}] for s in segs]}]}
                        yield {'classes': classes, 'cflags': [f for f in cflags if f[0] != 'Scope'],
                               'heap': heap, 'target': root,
                               'scope': None, 'root': 'T', 'spelling': sp, 'style': style,
                               'value': {'lit': {'i': 42}}, 'missing': missing, 'api': 'assign'}


def corpus():
    return M.load_corpus('C11')


class Factory:
    """the `missing` callable.  `reenter` (set after the spec is built): at its `at`-th call it first
    evaluates the SAME spec object on another record — directly (a factory that initialises a
    neighbouring record with the module-level spec), or, `threads`, by waiting until a second thread
    that evaluates the spec on the other record has arrived at the same point"""
    def __init__(self, kind):
        self.kind, self.made, self.calls = kind, [], 0
        self.reenter = None         # (at, callable running the other evaluation) | None
        self.nested = False
        self.barrier = None         # (at, threading.Barrier) | None
        self.local = None
        self.logged = None          # Encoder: make logging stand-ins of dict / list / Obj and tell the encoder

    def __call__(self):
        self.calls += 1
        if self.reenter is not None and not self.nested and self.calls - 1 == self.reenter[0]:
            self.nested = True
            try:
                self.reenter[1]()
            except Exception:
                pass
        if self.barrier is not None:
            n = getattr(self.local, 'n', 0)
            self.local.n = n + 1
            if n == self.barrier[0]:
                try:
                    self.barrier[1].wait()
                except Exception:       # the other evaluation never arrived here: go on alone
                    pass
        if self.kind == 'raise':
            raise RuntimeError('factory')
        if self.logged is not None and self.kind in ('dict', 'list', 'obj'):
            name = {'dict': 'dict', 'list': 'list', 'obj': 'Obj'}[self.kind]
            o = M.LOGGED[name]()
            self.logged.alias[id(o)] = name
        else:
            o = {'dict': dict, 'list': list, 'obj': M.Obj, 'tuple': tuple, 'int': int, 'str': str,
                 'none': lambda: None}[self.kind]()
        if self.kind not in ('int', 'str', 'none'):     # (a factory that returns a non-container creates nothing)
            self.made.append(o)
        return o


def run_overlapping(glom, spec, fac, target, target2, ree):
    """two overlapping evaluations of ONE spec object; returns / raises what the evaluation on `target` does"""
    if not ree.get('threads'):
        fac.reenter = (ree['at'], lambda: glom.glom(target2, spec))
        return glom.glom(target, spec)
    import threading
    fac.local = threading.local()
    fac.barrier = (ree['at'], threading.Barrier(2, timeout=1.0))
    box = {}

    def work(name, t):
        try:
            box[name] = ('ok', glom.glom(t, spec))
        except Exception as e:
            box[name] = ('err', e)
    th = [threading.Thread(target=work, args=('b', target2)), threading.Thread(target=work, args=('a', target))]
    for t in th:
        t.start()
    for t in th:
        t.join()
    kind, x = box['a']
    if kind == 'err':
        raise x
    return x


def run_impl(case):
    import glom
    from glom import Assign, Path
    logged = bool(case.get('logged'))
    objs, dv = M.decode(case['heap'], logged=logged)
    enc = M.Encoder(objs, case['heap'])
    target = dv(case['target'])
    kwargs = {}
    frame_obj = caller = caller_before = None
    if case.get('scope') is not None:
        # the Scope cell stands for the scope FRAME; the mapping handed to glom is a dict of its own
        frame_obj = dv(case['scope'])
        caller = dict(frame_obj)
        caller_before = list(caller.items())
        kwargs['scope'] = caller
    v = case['value']
    if 'lit' in v:
        val = dv(v['lit'])          # a scalar, an object, a literal container (T leaves included), a T-expression, a callable
    elif 'val' in v:
        val = glom.Val(dv(v['val']))
    elif 'text' in v:
        val = glom.Spec(v['text'])
    else:
        val = M.build_t(v['t'], dv)
        if v.get('wrap') == 'Spec':
            val = glom.Spec(val)
    fac = Factory(case['missing']) if case.get('missing') else None
    if fac is not None and logged:
        fac.logged = enc
    ree = case.get('reenter')
    out = dict(case)
    del M.WLOG[:]
    for k in ('scope', 'missing', 'readback', 'reenter', 'ureg', 'ureg_src', 'warmup', 'logged'):      # (cases stored before these fields existed)
        out.setdefault(k, None)
    default_map = glom.core._DEFAULT_SCOPE.maps[0]
    default_keys = set(default_map)
    rb = case.get('readback')
    peek = None
    if rb:
        M.Peek.baseline()
        peek = M.Peek(own=(caller or {}))
    read = None
    read_val = None
    G = M.Runner(case.get('ureg_src'))
    try:
        path = M.build_path(case, dv)
        if case.get('api') == 'assign' and not kwargs and not case.get('warmup') and not rb and not G.ureg:
            res = glom.assign(target, path, val, missing=fac)
        else:
            spec = Assign(path, val, missing=fac)
            M.warm_up(case, spec, fac)       # the same spec object, used on other targets before
            del M.WLOG[:]
            if ree:
                res = run_overlapping(glom, spec, fac, target, dv(ree['target2']), ree)
            elif rb:
                rpath = M.build_path({'spelling': rb['spelling'], 'root': case.get('root'),
                                      'style': case.get('style')}, dv)
                if isinstance(rpath, str):
                    rpath = Path.from_text(rpath)
                read_val = G.glom(target, (spec, peek, rpath), **kwargs)
                res = peek.got
            else:
                res = G.glom(target, spec, **kwargs)
    except Exception as e:
        if peek is not None and peek.seen:
            # the Assign returned; the read-back step raised
            a = enc.ids.get(id(peek.got))
            r = {'ok': {'r': a} if a is not None and enc.is_container(peek.got)
                 else pyobjs.enc_val(peek.got, lambda x: None)}
            read = M.observe_exc(e)
        else:
            r = M.observe_exc(e)
            read = 'notrun' if rb else None
    else:
        a = enc.ids.get(id(res))
        r = {'ok': {'r': a} if a is not None and enc.is_container(res) else pyobjs.enc_val(res, lambda x: None)}
        if rb:
            read = 'pending'
    for k in set(default_map) - default_keys:     # keep the process-global default scope clean
        del default_map[k]
    if fac:
        for o in fac.made:
            enc.reserve(o)
    frame_seen = bool(peek is not None and peek.seen and frame_obj is not None)
    if frame_seen:
        # what a later step of the chain sees of the scope: the frame the Scope cell stands for
        frame_obj.clear()
        for k, x in peek.vars:
            frame_obj[k] = x
    heap = enc.snapshot()
    if read == 'pending':
        nstars = sum(1 for op, _ in M.steps_of_spelling(rb['spelling']) if op in ('x', 'X'))
        read = {'ok': M.enc_nest(read_val, nstars, enc)}
    scope_kept = True
    if caller is not None:
        now = list(caller.items())
        scope_kept = (len(now) == len(caller_before) and
                      all(k1 is k0 or (type(k1) is type(k0) and k1 == k0) for (k0, _), (k1, _) in zip(caller_before, now))
                      and all(x1 is x0 for (_, x0), (_, x1) in zip(caller_before, now)))
    # the objects written to, in order, by address (None: an object the encoder never met)
    wlog = [enc.ids.get(i) for i in M.WLOG] if logged else None
    del M.WLOG[:]
    out['impl'] = {'res': r, 'heap': heap, 'calls': fac.calls if fac else 0, 'hidden': enc.hidden(),
                   'read': read, 'frame_seen': frame_seen, 'scope_kept': scope_kept, 'wlog': wlog}
    return out


def key(case):
    return {k: case.get(k) for k in ('heap', 'target', 'scope', 'root', 'spelling', 'style', 'value', 'missing',
                                     'warmup', 'readback', 'reenter', 'ureg_src', 'logged')}


def nontrivial(case, verdict):
    impl = case.get('impl') or {}
    return (len(M.steps_of_spelling(case['spelling'])) >= 2 or 'err' in impl.get('res', {})
            or impl.get('calls', 0) > 0)


def shrink(case):
    yield from M.shrink_common(case)
    base = {k: v for k, v in case.items() if not k.startswith('impl')}
    if case['value'].get('t'):
        c = dict(base); c['value'] = dict(case['value'], t=case['value']['t'][:-1])
        yield c
    if 'val' in case['value'] or 'text' in case['value'] or case['value'].get('wrap'):
        c = dict(base); c['value'] = {'lit': {'i': 42}}
        yield c
    if case.get('scope') is not None and case.get('root') != 'S':
        c = dict(base); c['scope'] = None
        yield c
    if case.get('warmup'):
        c = dict(base); c['warmup'] = case['warmup'] - 1
        yield c
    ree = case.get('reenter')
    if ree:
        c = dict(base); c['reenter'] = None
        yield c
        if ree.get('threads'):
            c = dict(base); c['reenter'] = dict(ree, threads=False)
            yield c
        if ree.get('at'):
            c = dict(base); c['reenter'] = dict(ree, at=ree['at'] - 1)
            yield c
    ur = case.get('ureg_src')
    if ur:
        for i in range(len(ur)):
            u2 = ur[:i] + ur[i + 1:]
            c = dict(base); c['ureg_src'] = u2 or None; c['ureg'] = M.ureg_tables(u2) if u2 else None
            yield c
    if 'lit' in case['value'] and isinstance(case['value']['lit'], dict) and 'r' in case['value']['lit']:
        c = dict(base); c['value'] = {'lit': {'i': 42}}
        yield c
    rb = case.get('readback')
    if rb:
        c = dict(base); c['readback'] = None
        yield c
        sp = rb['spelling']
        if 'parts' in sp and len(sp['parts']) > 1:
            c = dict(base); c['readback'] = {'spelling': {'parts': sp['parts'][:-1]}}
            yield c
        elif 'text' in sp and '.' in sp['text']:
            c = dict(base); c['readback'] = {'spelling': {'text': sp['text'].rsplit('.', 1)[0]}}
            yield c


def focus(disagreements, facts_changed):
    f = {}
    if 'MutFacts' in (facts_changed or []):
        f['star_p'] = 0.4
        f['deep_star_p'] = 0.3
        f['warm_p'] = 0.5
        f['tmpl_p'] = 0.4
        f['reenter_p'] = 0.25
        f['missing'] = 'dict'
    if any(c.get('root') == 'S' for c, _ in disagreements):
        f['sroot'] = True
    if any(c.get('readback') for c, _ in disagreements):
        f['chain_p'] = 0.9
    if disagreements and all(c.get('missing') for c, _ in disagreements):
        f['missing'] = 'dict'
    if any('x' in json.dumps(c['spelling']) for c, _ in disagreements):
        f['star_p'] = 0.6
        f['deep_star_p'] = 0.3
    if any(c.get('reenter') for c, _ in disagreements):
        f['reenter_p'] = 0.5
    if any(isinstance(c['value'].get('lit'), dict) and 'r' in c['value'].get('lit', {}) for c, _ in disagreements):
        f['tmpl_p'] = 0.5
    return f
