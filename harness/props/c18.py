"""C18 — T and Path are faithful values: generators, implementation runner, shrinker.

Three kinds of cases (see lean/Glom/Driver/C18.lean for the JSON shapes):
  repr    an object (T expression rooted at T/S/A, or Path) given by root + steps; run_impl builds it
          with the public API, takes repr, eval(repr) in a namespace with T, S, A, Path, the repr of
          the result, a pickle round trip, and evaluates original and reconstruction on sample targets
  seq     a Path given by root + (op, arg) steps and one sequence operation
          (len, p[i], p[a:b:c], values, items, ==, startswith, Path(p, q), from_t)
  concat  C01's heap targets: glom(t, Path(p, q)) against glom(glom(t, p), q)
A literal is carried as its bbrepr text (decoded with eval, checked to round-trip when generated).
"""
import builtins
import itertools
import json
import os
import pickle
import random
import re

from harness import pyobjs
from harness.props import c01

PROP = 'C18'
LEAN_MODULES = ['Glom.Props.C18']
FACT_FILES = ['C18Facts', 'TFacts', 'ExcFacts', 'RegFacts', 'c18']
READY = True
MANIFEST = dict(
    text="Lean 4 theorems, for every literal type, every root and every list of steps of any length and nesting: the parser of the repr grammar (the model of eval(repr(x)): `.name`, `.__('name')`, `[index]` with Python's tuple / trailing-comma / `()` / slice rules, `(args, k=v)`, `.__star__()`, `Path(part, …)` with Path.__init__'s flattening, the first part carrying a root other than T) applied to what `_format_t` / `_format_slice` / `format_invocation` / `_format_path` print returns the same root and steps (keyword arguments as a dict) and an object with the same repr (`c18_roundtrip_t`, `c18_roundtrip_path`, mutual induction over arguments / items / steps); `__setstate__ ∘ __getstate__` is the identity (`c18_pickle`); len, p[i], p[a:b:c], values, items, ==, startswith, Path(p, q), from_t computed on the flat `__ops__` tuple are the same operations on the list of steps for ALL Int index / slice triples (`c18_seq_laws`, with `pySlice` = CPython's slice.indices semantics and its lemmas); glom(t, Path(p, q)) = glom(glom(t, p), q) for wildcard-free paths of any length on any heap (`c18_concat`, from `walk_append` over C01's walk); per-run facts obligation `c18_facts_wf` by `decide` on the switches of `_format_t`, the pickling tables and the shape of `Path.__getitem__` read from /repo. Model tied to the code by comparing the model's rendered repr text, parse result, pickle result and every sequence operation with the real glom (index / slice triples enumerated exhaustively for lengths 0–5, bounds in [−8, 8]).",
    note="trusted: Lean kernel + {propext, Classical.choice, Quot.sound}; extractor (extract/facts/c18.py); harness/driver; the token-tree level of the model: a literal argument is one atomic token (that eval of its bbrepr text gives the value back, and pickle of argument values, are CPython's — generated literals are checked to round-trip), bracket matching is lexical; Python's slice semantics (`pySlice`) validated exhaustively against CPython; BEq on expressions in the driver is structural equality of their JSON form. Arithmetic-operator reprs are outside the property. An A-rooted Path has no call / wildcard step (`_t_child` refuses them).",
    technique='Lean 4 proof (parser ∘ formatter = id by mutual induction; sequence laws on the flat tuple; walk_append) + facts obligation by decide + differential correspondence with exhaustive index/slice enumeration',
    ref='DESIGN.md §3 C18, §6.6')
RULE = ('repr: random objects of 0–8 steps (quick) / 0–10 (thorough): T expressions rooted at T, S, A and '
        'Paths rooted at T, S and A (plain segments mixed with T runs) over attribute (incl. dunder via T.__()), item '
        '(scalars, slices with None/int/nested-T parts, tuples incl. 0- and 1-tuples, tuples of slices), '
        'call (positional + keyword arguments in random order), * and ** steps; arguments are literals '
        '(ints, big ints, strings with quotes / dots / backslashes / non-ASCII, None, bools, floats, '
        'tuples incl. () and (1,), slice objects, builtins such as len / int) or nested T/S expressions; '
        'a one-edit mutation stream targets the printing corner cases (1-tuples, empty tuples, dunder '
        'names, keyword order, trailing segments). seq: index i in [-8, 8] and slice triples over '
        '{None} ∪ [-8, 8] enumerated exhaustively for path lengths 0–5 (both tiers), plus values, '
        'items, len, from_t, and ==, startswith, Path(p, q) against equal / prefix / unrelated paths. '
        'concat: C01 heap targets with a valid walk split at a random point, and one-edit bad '
        'segments. non-trivial = an object with >= 2 steps or a nested argument; an index / slice on a '
        'path of length >= 1; any concat case; distinct = distinct case')
TRUSTED = ['token-tree abstraction of repr text: literal tokens atomic (CPython repr/eval round trip of '
           'literals trusted; every generated literal is checked to satisfy eval(bbrepr(v)) == v), '
           'bracket matching lexical',
           'pickle of argument values is CPython\'s',
           'inf / nan floats (repr not evaluable) are excluded from the literal kinds']
ASSUMPTIONS = ['arithmetic-operator reprs are outside the property',
               'index arguments of exact type tuple / slice are steps of their own kind; other literals are atoms',
               'attribute names are identifiers',
               'arguments that are containers holding T objects (e.g. T[(T.a, 1)] is covered, T([T.a]) is not) '
               'are limited to index tuples and slices']

NS = None


def namespace():
    global NS
    if NS is None:
        import glom
        NS = {'T': glom.T, 'S': glom.S, 'A': glom.A, 'Path': glom.Path}
    return NS


def bbrepr(v):
    from glom.core import bbrepr as b
    return b(v)


def lit_value(text):
    return eval(text, dict(vars(builtins)))


# ---------------------------------------------------------------- building objects from a case
def build_arg(a):
    if 'lit' in a:
        return lit_value(a['lit'])
    return build_t(a['t']['root'], a['t']['steps'])


def build_item(i):
    if 'one' in i:
        return build_arg(i['one'])
    a, b, c = i['slice']
    f = lambda x: None if x is None else build_arg(x)
    return slice(f(a), f(b), f(c))


def apply_step(t, st):
    if st == 'star':
        return t.__star__()
    if st == 'starstar':
        return t.__starstar__()
    if 'attr' in st:
        n = st['attr']
        return t.__(n[2:]) if n.startswith('__') else getattr(t, n)
    if 'item' in st:
        return t[build_item(st['item'])]
    if 'items' in st:
        return t[tuple(build_item(i) for i in st['items'])]
    if 'call' in st:
        return t(*[build_arg(x) for x in st['call']['args']],
                 **{k: build_arg(v) for k, v in st['call']['kwargs']})
    raise ValueError(st)


def build_t(root, steps):
    t = namespace()[root]
    for st in steps:
        t = apply_step(t, st)
    return t


def is_seg(st):
    return isinstance(st, dict) and 'seg' in st


def build_obj(obj):
    from glom import Path
    if 't' in obj:
        return build_t(obj['t']['root'], obj['t']['steps'])
    root, steps = obj['path']['root'], obj['path']['steps']
    # the way a user writes it: plain segments and T runs as arguments of Path(...)
    parts = []
    run = None
    first = True
    for st in steps:
        if is_seg(st):
            if run is not None:
                parts.append(run)
                run = None
            elif first and root != 'T':
                parts.append(namespace()[root])
            parts.append(lit_value(st['seg']))
        else:
            if run is None:
                run = namespace()[root if first and not parts else 'T']
            run = apply_step(run, st)
        first = False
    if run is not None:
        parts.append(run)
    if not steps and root != 'T':
        parts.append(namespace()[root])
    return Path(*parts)


# ---------------------------------------------------------------- encoding real objects
def enc_arg(v):
    from glom.core import TType
    if type(v) is TType:
        return {'t': enc_ops(v.__ops__)}
    return {'lit': bbrepr(v)}


def enc_item(x):
    if type(x) is slice:
        f = lambda y: None if y is None else enc_arg(y)
        return {'slice': [f(x.start), f(x.stop), f(x.step)]}
    return {'one': enc_arg(x)}


def root_name(r):
    ns = namespace()
    for k in ('T', 'S', 'A'):
        if r is ns[k]:
            return k
    return '?'


def enc_ops(ops):
    steps = []
    for i in range(1, len(ops), 2):
        op, arg = ops[i], ops[i + 1]
        if op == '.':
            steps.append({'attr': arg})
        elif op == '[':
            if type(arg) is tuple:
                steps.append({'items': [enc_item(x) for x in arg]})
            else:
                steps.append({'item': enc_item(arg)})
        elif op == '(':
            args, kwargs = arg
            steps.append({'call': {'args': [enc_arg(x) for x in args],
                                   'kwargs': [[k, enc_arg(v)] for k, v in kwargs.items()]}})
        elif op == 'P':
            steps.append({'seg': bbrepr(arg)})
        elif op == 'x':
            steps.append('star')
        elif op == 'X':
            steps.append('starstar')
        else:
            steps.append({'attr': '<op %s>' % op})
    return {'root': root_name(ops[0]), 'steps': steps}


def enc_obj(o):
    from glom import Path
    from glom.core import TType
    if type(o) is TType:
        return {'t': enc_ops(o.__ops__)}
    if type(o) is Path:
        return {'path': enc_ops(o.path_t.__ops__)}
    return None


SAMPLE_TARGETS = None


def sample_targets():
    global SAMPLE_TARGETS
    if SAMPLE_TARGETS is None:
        o = pyobjs.Obj(a=pyobjs.Obj(b=[1, 2, 3], a=lambda *a, **k: (a, sorted(k))), b='x', c=len,
                       k0=lambda *a, **k: len(a) + len(k))
        SAMPLE_TARGETS = [
            {'a': {'b': [1, 2, 3], 'a': 1, 0: 'zero'}, 'b': 'x', 0: [10, 20, 30], 1: {'a': 2},
             'x y': 5, "it's": 6},
            [[1, 2, 3], {'a': 1}, 'abc', (4, 5, 6, 7)],
            o,
            'hello world',
            None,
        ]
    return SAMPLE_TARGETS


class _Budget(BaseException):
    """raised by the interval timer: glom's own `except Exception` clauses do not catch it"""


def _on_alarm(signum, frame):
    raise _Budget()


def outcome(spec, target):
    """outcome of glom(target, spec); evaluation is cut off after 0.25 s (wildcards over the
    scope can explode) — a cut-off evaluation counts as equal to anything: never a violation"""
    import glom
    import signal
    old = signal.signal(signal.SIGALRM, _on_alarm)
    signal.setitimer(signal.ITIMER_REAL, 0.25)
    try:
        r = glom.glom(target, spec, scope={'a': {'b': 1}, 'b': 2, 0: 'z'})
    except _Budget:
        return None
    except RecursionError:
        return None
    except Exception as e:
        return ('exc', c01.exc_name(e), getattr(e, 'part_idx', None))
    finally:
        signal.setitimer(signal.ITIMER_REAL, 0)
        signal.signal(signal.SIGALRM, old)
    try:
        # S-rooted wildcards reach per-call scope internals: mask memory addresses
        return ('ok', re.sub(r'0x[0-9a-fA-F]+', '0x?', repr(r)), r)
    except Exception:
        return ('ok', '<unreprable>', r)


def same_outcome(a, b, strict=True):
    if a is None or b is None:
        return True
    if a[0] == 'ok' and b[0] == 'ok':
        if a[1] == b[1]:
            return True
        try:       # equal values whose text differs (a dict built from keyword arguments)
            return bool(a[2] == b[2])
        except Exception:
            return False
    if a == b:
        return True
    # repr prints keyword arguments in key order (as a dict they are equal): when the original has
    # them in another order and evaluating some of them fails, which failure surfaces first — and
    # hence whether an enclosing wildcard swallows it — depends on that order
    return (not strict) and (a[0] == 'exc' or b[0] == 'exc')


def kwargs_sorted(x):
    if isinstance(x, dict):
        if 'call' in x:
            ks = [k for k, _ in x['call']['kwargs']]
            if ks != sorted(ks):
                return False
        return all(kwargs_sorted(v) for v in x.values())
    if isinstance(x, list):
        return all(kwargs_sorted(v) for v in x)
    return True


def run_repr(case):
    x = build_obj(case['obj'])
    text = repr(x)
    obs = {'text': text, 'eval': None, 'text2': None, 'pickled': None, 'same_eval': False}
    try:
        y = eval(text, dict(namespace(), **vars(builtins)))
    except Exception:
        y = None
    if y is not None and enc_obj(y) is not None:
        obs['eval'] = enc_obj(y)
        obs['text2'] = repr(y)
        strict = kwargs_sorted(case['obj'])
        obs['same_eval'] = all(same_outcome(outcome(x, t), outcome(y, t), strict) for t in sample_targets())
    try:
        z = pickle.loads(pickle.dumps(x))
        obs['pickled'] = enc_obj(z)
    except Exception:
        pass
    return obs


# ---------------------------------------------------------------- sequence cases
def build_path(root, steps):
    """steps: [(op, argtext)] with op in '.', '[', 'P'"""
    from glom import Path
    return build_obj({'path': {'root': root, 'steps': [
        {'attr': lit_value(a)} if op == '.' else
        {'item': {'one': {'lit': a}}} if op == '[' else {'seg': a} for op, a in steps]}})


class Malformed(Exception):
    pass


def enc_pairs(p):
    ops = p.path_t.__ops__
    if len(ops) % 2 != 1 or any(type(ops[i]) is not str for i in range(1, len(ops), 2)) \
            or root_name(ops[0]) == '?':
        raise Malformed()
    return {'root': root_name(ops[0]),
            'steps': [[ops[i], bbrepr(ops[i + 1])] for i in range(1, len(ops), 2)]}


def run_seq(case):
    from glom import Path
    p = build_path(case['root'], case['steps'])
    op = case['op']
    try:
        if op == 'len':
            return {'nat': len(p)}
        if op == 'values':
            return {'vals': [bbrepr(v) for v in p.values()]}
        if op == 'items':
            return {'pairs': [[o, bbrepr(v)] for o, v in p.items()]}
        if op == 'from_t':
            return {'path': enc_pairs(p.from_t())}
        if 'idx' in op:
            return {'path': enc_pairs(p[op['idx']])}
        if 'slice' in op:
            return {'path': enc_pairs(p[slice(*op['slice'])])}
        if 'eq' in op:
            return {'bool': p == build_path(op['eq']['root'], op['eq']['steps'])}
        if 'startswith' in op:
            return {'bool': p.startswith(build_path(op['startswith']['root'], op['startswith']['steps']))}
        if 'concat' in op:
            return {'path': enc_pairs(Path(p, build_path('T', op['concat'])))}
    except Malformed:
        return {'other': 'malformed __ops__'}
    except IndexError:
        return 'IndexError'
    except ValueError:
        return 'ValueError'
    except Exception as e:
        return {'other': type(e).__name__}
    return {'other': 'unknown op'}


# ---------------------------------------------------------------- concat cases (C01 machinery)
def run_concat(case):
    import glom
    from glom import Path, T, PathAccessError
    objs, dv = pyobjs.decode(case['heap'])
    ids = {id(o): a for a, o in enumerate(objs)}
    target = dv(case['target'])

    def mk(steps):
        parts = []
        for op, arg in steps:
            a = dv(arg)
            parts.append(a if op == 'P' else (getattr(T, a) if op == '.' else T[a]))
        return Path(*parts)

    def ev(t, spec):
        try:
            r = glom.glom(t, spec)
        except PathAccessError as e:
            return None, {'pae': {'idx': e.part_idx, 'exc': c01.exc_name(e.exc)}}
        except Exception as e:
            return None, {'other': c01.exc_name(e)}
        if id(r) in ids:
            return r, {'ok': {'r': ids[id(r)]}}
        return r, {'ok': pyobjs.enc_val(r, lambda v: None)}

    p, q = mk(case['p']), mk(case['q'])
    _, joined = ev(target, Path(p, q))
    v, o1 = ev(target, p)
    if 'ok' not in o1:
        nested = {'first': o1}
    else:
        _, o2 = ev(v, q)
        nested = {'second': o2}
    return {'joined': joined, 'nested': nested}


def run_impl(case):
    out = {k: v for k, v in case.items() if k != 'impl'}
    k = case['kind']
    out['impl'] = run_repr(case) if k == 'repr' else run_seq(case) if k == 'seq' else run_concat(case)
    return out


# ---------------------------------------------------------------- generators
ATTRS = ['a', 'b', 'c', 'k0', 'items', 'x_1', '_p', 'Path', 'T', '__class__', '__x', '__', '__star__', '___y']
STRS = ['a', 'b', 'a.b', "it's", 'say "hi"', 'back\\slash', '', 'x y', '*', '**', 'é', 'T.a', '[0]', "a'b\"c", '\n']
INTS = [0, 1, 2, -1, -3, 7, 10 ** 20, -2 ** 63]
FLOATS = [1.5, -0.0, 1e100, 0.1, 2.0]
BUILTINS = [len, int, str, sorted, abs, dict]
KWNAMES = ['x', 'a', 'key', 'b', 'zz', 'default', '_k']


def gen_literal(r, kind=None, depth=0):
    k = kind or r.choice(['int', 'int', 'str', 'str', 'none', 'bool', 'float', 'tuple', 'builtin', 'slice'])
    if k == 'int':
        return r.choice(INTS)
    if k == 'str':
        return r.choice(STRS)
    if k == 'none':
        return None
    if k == 'bool':
        return r.choice([True, False])
    if k == 'float':
        return r.choice(FLOATS)
    if k == 'builtin':
        return r.choice(BUILTINS)
    if k == 'slice':
        f = lambda: r.choice([None, None, 0, 1, -2, 5])
        return slice(f(), f(), f())
    n = r.choice([0, 1, 1, 2, 3])
    return tuple(gen_literal(r, r.choice(['int', 'str', 'none', 'tuple'] if depth < 2 else ['int', 'str']),
                             depth + 1) for _ in range(n))


def lit(v):
    t = bbrepr(v)
    try:
        ok = (lit_value(t) == v or v != v) and bbrepr(lit_value(t)) == t
    except Exception:
        ok = False
    if not ok:
        raise ValueError('literal does not round-trip: %r' % (t,))
    return {'lit': t}


def gen_arg(r, depth, atom_kinds=None):
    """a call argument / slice part / tuple element: literal or nested T expression"""
    if depth > 0 and r.random() < 0.22:
        root = r.choice(['T', 'T', 'S'])
        steps = fix_s_call(root, gen_steps(r, r.randint(0, 3), depth - 1, False))
        if not a_ok(root, steps):
            root = 'T'
        return {'t': {'root': root, 'steps': steps}}
    v = gen_literal(r, r.choice(atom_kinds) if atom_kinds else None)
    return lit(v)


def gen_index_atom(r, depth):
    """an index that is neither a tuple nor a slice object"""
    return gen_arg(r, depth, ['int', 'int', 'str', 'str', 'none', 'bool', 'float', 'builtin'])


def gen_item(r, depth):
    if r.random() < 0.3:
        f = lambda: None if r.random() < 0.45 else gen_arg(r, depth, ['int', 'int', 'int', 'none', 'str'])
        a, b, c = f(), f(), f()
        # a slice part that is literally None is the same as an absent part
        z = lambda x: None if (x is not None and x.get('lit') == 'None') else x
        return {'slice': [z(a), z(b), z(c)]}
    if r.random() < 0.15:
        return {'one': lit(gen_literal(r, 'tuple'))}      # a tuple nested inside a tuple index
    return {'one': gen_index_atom(r, depth)}


def gen_step(r, depth, allow_seg):
    p = r.random()
    if allow_seg and p < 0.3:
        return {'seg': lit(gen_literal(r, r.choice(['int', 'str', 'str', 'none', 'float', 'tuple', 'bool'])))['lit']}
    if p < 0.5:
        return {'attr': r.choice(ATTRS)}
    if p < 0.68:
        it = gen_item(r, depth)
        if 'one' in it and 'lit' in it['one'] and type(lit_value(it['one']['lit'])) in (tuple, slice):
            return {'items': [it]}
        return {'item': it}
    if p < 0.8:
        n = r.choice([0, 1, 1, 2, 3])
        return {'items': [gen_item(r, depth) for _ in range(n)]}
    if p < 0.94:
        na = r.choice([0, 1, 1, 2])
        kws = r.sample(KWNAMES, r.choice([0, 0, 1, 2, 3, 4, 6]))
        if r.random() < 0.5:
            kws = sorted(kws)
        return {'call': {'args': [gen_arg(r, depth) for _ in range(na)],
                         'kwargs': [[k, gen_arg(r, depth)] for k in kws]}}
    return r.choice(['star', 'starstar'])


def gen_steps(r, n, depth, allow_seg):
    return [gen_step(r, depth, allow_seg) for _ in range(n)]


def a_ok(root, steps):
    """_t_child refuses calls and wildcards on A paths; wildcards over the scope (S root) are not
    generated either: evaluating them walks glom's own per-call state"""
    if root == 'A':
        return not any(st in ('star', 'starstar') or (isinstance(st, dict) and 'call' in st) for st in steps)
    if root == 'S':
        return not any(st in ('star', 'starstar') for st in steps)
    return True


def fix_s_call(root, steps):
    """S(...) directly on the root is the scope-assignment form: needs kwargs only"""
    if root == 'S' and steps and isinstance(steps[0], dict) and 'call' in steps[0]:
        c = steps[0]['call']
        if c['args'] or not c['kwargs']:
            return [{'attr': 'a'}] + steps
    return steps


CORNERS = [
    [{'items': [{'one': {'lit': '1'}}]}],                      # T[(1,)]
    [{'items': []}],                                           # T[()]
    [{'attr': '__class__'}],                                   # T.__('class__')
    [{'attr': 'a'}, {'items': [{'one': {'lit': "'k'"}}]}, {'attr': 'b'}],
    [{'items': [{'one': {'lit': '()'}}]}],                     # T[((),)]
    [{'items': [{'slice': [None, {'lit': '2'}, None]}]}],      # T[:2,]
    [{'item': {'one': {'lit': "(1, 2)"}}}] and [{'items': [{'one': {'lit': '1'}}, {'one': {'lit': '2'}}]}],
    [{'attr': '__'}, {'call': {'args': [{'lit': "'x'"}], 'kwargs': []}}],   # T.__('')('x')
    [{'attr': '__star__'}, {'call': {'args': [], 'kwargs': []}}],           # T.__('star__')()
    [{'call': {'args': [], 'kwargs': [['b', {'lit': '1'}], ['a', {'lit': '2'}]]}}],
    [{'item': {'slice': [None, None, None]}}],
    [{'item': {'slice': [{'t': {'root': 'T', 'steps': [{'attr': 'a'}]}}, None, {'lit': '-1'}]}}],
]


def gen_repr_case(r, tier):
    maxlen = 8 if tier == 'quick' else 10
    p = r.random()
    if p < 0.1:
        steps = json.loads(json.dumps(r.choice(CORNERS)))
        pre = gen_steps(r, r.randint(0, 2), 1, False)
        post = gen_steps(r, r.randint(0, 2), 1, False)
        root = r.choice(['T', 'T', 'S', 'A'])
        steps = fix_s_call(root, pre + steps + post)
        if not a_ok(root, steps):
            root = 'T'
        return {'kind': 'repr', 'obj': {'t': {'root': root, 'steps': steps}}}
    n = r.randint(0, maxlen)
    if p < 0.6:
        root = r.choice(['T', 'T', 'T', 'S', 'A'])
        steps = fix_s_call(root, gen_steps(r, n, 2, False))
        if not a_ok(root, steps):
            root = 'T'
        return {'kind': 'repr', 'obj': {'t': {'root': root, 'steps': steps}}}
    root = r.choice(['T', 'T', 'T', 'S', 'S', 'A'])
    steps = fix_s_call(root, gen_steps(r, n, 2, True))
    if not a_ok(root, steps):
        root = 'T'
    return {'kind': 'repr', 'obj': {'path': {'root': root, 'steps': steps}}}


SEQ_ARGS = [("'a'", '.'), ("'b'", '.'), ('0', '['), ("'k'", '['), ("'p'", 'P'), ('1', 'P'), ("'a.b'", 'P')]


def seq_steps(r, n):
    return [[op, a] for a, op in (r.choice(SEQ_ARGS) for _ in range(n))]


def gen_seq_exhaustive():
    rng = random.Random(4242)
    vals = [None] + list(range(-8, 9))
    for n in range(0, 6):
        steps = seq_steps(rng, n)
        root = 'T' if n % 2 == 0 else rng.choice(['T', 'S'])
        for i in range(-8, 9):
            yield {'kind': 'seq', 'root': root, 'steps': steps, 'op': {'idx': i}}
        for a, b, c in itertools.product(vals, repeat=3):
            yield {'kind': 'seq', 'root': root, 'steps': steps, 'op': {'slice': [a, b, c]}}


def gen_seq_random(r, n_cases):
    for _ in range(n_cases):
        n = r.randint(0, 7)
        root = r.choice(['T', 'T', 'S', 'A'])
        steps = seq_steps(r, n)
        k = r.random()
        if k < 0.12:
            op = r.choice(['len', 'values', 'items', 'from_t'])
        elif k < 0.3:
            op = {'idx': r.randint(-n - 3, n + 3)}
        elif k < 0.5:
            f = lambda: r.choice([None, None] + list(range(-n - 3, n + 4)) + [10 ** 20, -10 ** 20])
            op = {'slice': [f(), f(), r.choice([None, None, 1, -1, 2, -2, 3, 0, 10 ** 20, -10 ** 20])]}
        elif k < 0.85:
            m = r.random()
            oroot = root if r.random() < 0.8 else r.choice(['T', 'S'])
            if m < 0.4:
                other = steps[:r.randint(0, n)]
            elif m < 0.6:
                other = list(steps)
            elif m < 0.8 and n:
                other = json.loads(json.dumps(steps[:r.randint(1, n)]))
                j = r.randrange(len(other))
                other[j] = list(r.choice(SEQ_ARGS))[::-1]
            else:
                other = steps + seq_steps(r, r.randint(1, 2))
            op = {r.choice(['eq', 'startswith']): {'root': oroot, 'steps': other}}
        else:
            op = {'concat': seq_steps(r, r.randint(0, 4))}
        yield {'kind': 'seq', 'root': root, 'steps': steps, 'op': op}


def gen_concat(r, tier, n_cases):
    classes = pyobjs.class_table()
    maxlen = 6 if tier == 'quick' else 10
    for _ in range(n_cases):
        heap, root = c01.gen_target(r, False, r.choice([2, 3, 4, 5]))
        # CPython has one empty tuple: two empty-tuple cells would be the same object
        while sum(1 for c in heap if c['c'] == 'tuple' and not c['v']) > 1:
            heap, root = c01.gen_target(r, False, r.choice([2, 3, 4, 5]))
        walk, _ = c01.valid_walk(r, heap, root, r.randint(0, maxlen))
        steps = []
        for kind, key, _cur in walk:
            q = r.random()
            if kind == 'attr':
                steps.append(['.' if q < 0.5 else 'P', key])
            elif kind == 'idx':
                steps.append(['[' if q < 0.4 else 'P', key if q < 0.7 else {'s': str(key['i'])}])
                if steps[-1][0] == '[' and 's' in steps[-1][1]:
                    steps[-1][1] = key
            else:
                steps.append(['[' if q < 0.5 else 'P', key])
        m = r.random()
        if m < 0.35 and steps:
            k = r.randrange(len(steps))
            steps[k] = [r.choice(['P', '[']), r.choice([{'s': 'zz'}, {'i': 99}, {'s': '99'}, None])]
        elif m < 0.45:
            steps.append([r.choice(['P', '[', '.']), {'s': 'zz'}])
        cut = r.randint(0, len(steps))
        yield {'kind': 'concat', 'classes': classes, 'heap': heap, 'target': root,
               'p': steps[:cut], 'q': steps[cut:]}


def generate(rng, tier, scale, **focus):
    n = (900 if tier == 'quick' else 25000) * scale
    for i in range(n):
        try:
            yield gen_repr_case(rng, tier)
        except ValueError:
            continue
    yield from gen_seq_random(rng, (400 if tier == 'quick' else 12000) * scale)
    yield from gen_concat(rng, tier, (300 if tier == 'quick' else 8000) * scale)
    if not focus:
        yield from gen_seq_exhaustive()


def corpus():
    mk = lambda steps, kind='t', root='T': {'kind': 'repr', 'obj': {kind: {'root': root, 'steps': steps}}}
    out = [mk(json.loads(json.dumps(c))) for c in CORNERS]
    out += [
        # the defects repaired by 4f7a77c
        {'kind': 'seq', 'root': 'T', 'steps': [['P', "'a'"], ['P', "'b'"], ['P', "'c'"]], 'op': {'idx': 3}},
        {'kind': 'seq', 'root': 'T', 'steps': [['P', "'a'"], ['P', "'b'"], ['P', "'c'"]],
         'op': {'slice': [2, 0, -1]}},
        {'kind': 'seq', 'root': 'T', 'steps': [['P', "'a'"], ['P', "'b'"], ['P', "'c'"]],
         'op': {'slice': [-5, 2, None]}},
        mk([{'seg': "'a'"}, {'attr': 'b'}, 'star', {'seg': '2'}], 'path'),
        mk([], 'path'),
    ]
    p = os.path.join(os.path.dirname(os.path.dirname(os.path.dirname(os.path.abspath(__file__)))),
                     'corpus', 'C18.jsonl')
    if os.path.exists(p):
        for line in open(p):
            if line.strip():
                out.append(json.loads(line))
    return out


def key(case):
    return {k: v for k, v in case.items() if k != 'impl' and k != 'classes'}


def has_nested(x):
    if isinstance(x, dict):
        return 't' in x and 'root' in x['t'] or any(has_nested(v) for v in x.values())
    if isinstance(x, list):
        return any(has_nested(v) for v in x)
    return False


def nontrivial(case, verdict):
    k = case['kind']
    if k == 'repr':
        o = case['obj'].get('t') or case['obj'].get('path')
        return len(o['steps']) >= 2 or has_nested(o['steps'])
    if k == 'seq':
        return len(case['steps']) >= 1
    return True


def shrink(case):
    base = {k: v for k, v in case.items() if k != 'impl'}
    if case['kind'] == 'repr':
        kind = 't' if 't' in case['obj'] else 'path'
        o = case['obj'][kind]
        st = o['steps']
        for i in range(len(st)):
            c = dict(base)
            c['obj'] = {kind: {'root': o['root'], 'steps': st[:i] + st[i + 1:]}}
            yield c
        for i, s in enumerate(st):
            if isinstance(s, dict) and 'call' in s:
                for j in range(len(s['call']['args'])):
                    s2 = {'call': {'args': s['call']['args'][:j] + s['call']['args'][j + 1:],
                                   'kwargs': s['call']['kwargs']}}
                    c = dict(base)
                    c['obj'] = {kind: {'root': o['root'], 'steps': st[:i] + [s2] + st[i + 1:]}}
                    yield c
                for j in range(len(s['call']['kwargs'])):
                    s2 = {'call': {'args': s['call']['args'],
                                   'kwargs': s['call']['kwargs'][:j] + s['call']['kwargs'][j + 1:]}}
                    c = dict(base)
                    c['obj'] = {kind: {'root': o['root'], 'steps': st[:i] + [s2] + st[i + 1:]}}
                    yield c
            if isinstance(s, dict) and 'items' in s and len(s['items']) > 1:
                for j in range(len(s['items'])):
                    s2 = {'items': s['items'][:j] + s['items'][j + 1:]}
                    c = dict(base)
                    c['obj'] = {kind: {'root': o['root'], 'steps': st[:i] + [s2] + st[i + 1:]}}
                    yield c
        if o['root'] != 'T':
            c = dict(base)
            c['obj'] = {kind: {'root': 'T', 'steps': st}}
            yield c
    elif case['kind'] == 'seq':
        st = case['steps']
        for i in range(len(st)):
            c = dict(base)
            c['steps'] = st[:i] + st[i + 1:]
            yield c
    else:
        for which in ('p', 'q'):
            st = case[which]
            for i in range(len(st)):
                c = dict(base)
                c[which] = st[:i] + st[i + 1:]
                yield c


def focus(disagreements, facts_changed):
    return {'focused': True}
