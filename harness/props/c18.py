"""C18 — T and Path are faithful values: generators, implementation runner, shrinker.

Three kinds of cases (see lean/Glom/Driver/C18.lean for the JSON shapes):
  repr    an object (T expression rooted at T/S/A, or Path) given by root + steps; run_impl builds it
          with the public API, takes repr, eval(repr) in a namespace with T, S, A, Path and the
          builtins, the repr of the result, a pickle round trip, and evaluates original and
          reconstruction on sample targets
  seq     a Path given by root + (op, arg) steps and one sequence operation
          (len, p[i], p[a:b:c], values, items, ==, startswith, Path(p, q), from_t)
  concat  C01's heap targets: glom(t, Path(p, q)) against glom(glom(t, p), q)
An argument is carried *structurally* (scalars by value, containers by their elements, nested T /
Path objects by their steps) — never through glom's own bbrepr, so that a change to the printing
of literals cannot hide itself (seeded change C18-s9).
"""
import builtins
import itertools
import json
import math
import os
import pickle
import random
import re

from harness import pyobjs
from harness.props import c01

PROP = 'C18'
LEAN_MODULES = ['Glom.Props.C18']
FACT_FILES = ['C18Facts', 'TFacts', 'ExcFacts', 'RegFacts', 'c18']
READY = True

# ---------------------------------------------------------------------------------------------
# Repaired in /repo and therefore generated unconditionally (each was a gated class while open):
#   de451ae  bbrepr has no size limits (the `_BBRepr` limits were 1024): literals of more than 1024
#            digits / characters / elements and nested T / Path arguments wider than 1024 characters
#   cf04d35  `_format_path` marks its runs of T steps: a list as a top-level plain segment
#   5242ad1  plain segments are printed with bbrepr: builtin functions / classes and sets of two or
#            more elements inside a plain segment
# READING (DESIGN §6.6 — `Path(T.a)` reprs as `T.a`, pinned by glom's own test_path_t_roundtrip): a
# nested segment-free Path is reconstructed as the T expression it prints as.  Wherever glom evaluates
# the argument (`arg_val`) the two are the same spec.  Where an argument is used *unevaluated* — the key
# of the last step of an A-rooted expression, `scope[key] = target`, and a plain segment that is the
# first step of an S- / A-rooted Path, `_s_first_magic(scope, key)` — they are told apart:
# glom(t, A[Path(T.a)]) raises TypeError (unhashable type: 'Path'), glom(t, A[T.a]) succeeds;
# glom(t, Path(S, (Path(T.a),))) raises TypeError, Path(S, (T.a,)) PathAccessError.  The clause
# "evaluates identically" is read for objects without a segment-free nested Path in an unevaluated key
# position; the generator writes such a Path as its T form there.  C18_A_RAW_PATH_KEY=1 generates the
# class all the same (the check then reports it).
A_RAW_PATH_KEY = os.environ.get('C18_A_RAW_PATH_KEY') == '1'
# ---------------------------------------------------------------------------------------------

MANIFEST = dict(
    text="Lean 4 theorems, for every scalar type, every root and every list of steps of any length and nesting: the parser of the repr grammar (the model of eval(repr(x)): `.name`, `.__('name')`, `[index]` with Python's tuple / trailing-comma / `()` / slice rules, `(args, k=v)`, `.__star__()`, the displays `()` `(x,)` `(…)` `[…]` `{…}` `{k: v}`, `set()`, `frozenset()`, `frozenset({…})`, `slice(a, b, c)`, nested `Path(part, …)` with Path.__init__'s flattening, the first part carrying a root other than T) applied to what `_format_t` / `_format_slice` / `format_invocation` / `_format_path` / reprlib's container methods print returns the same argument / the same root and steps (keyword arguments as a dict, a segment-free nested Path as the T it prints as) and an object with the same repr (`c18_roundtrip_arg`, `c18_roundtrip_t`, `c18_roundtrip_path`: one mutual induction over scalars, containers, dict entries, slice objects, nested T and nested Path arguments, items, steps and plain segments; the `path_t` of a Path — a T expression holding plain segments — included); reprlib's limits are modelled (`truncArg`: maxlevel, the per-container limits, the maxlong / maxstring / maxother cuts incl. the cut of a nested T / Path text and of the name in `.__('name')`) and lose nothing when `fitsObj` holds (`c18_limits_lose_nothing`); the limits of the live instance are at least sys.maxsize, so whatever is no larger than sys.maxsize is inside them (`c18_within_maxsize`, `c18_within_min_limit`), and what glom prints with its limits reads back as an object glom prints the same way (`c18_repr_roundtrip`, `c18_model_checks`); forced hypotheses: `c18_cut_counterexample` (a scalar past a limit — seeded change C18-s9, revert of de451ae), `c18_nonfinite_counterexample` (inf / nan), `c18_overlong_counterexample`, `c18_wf_counterexample`, `c18_path_root_counterexample`; `__setstate__ ∘ __getstate__` is the identity (`c18_pickle`), also for what the sequence operations return — empty selections and `from_t()` included, whose `path_t` holds a root object glom made itself (`c18_seq_pickle`); len, p[i], p[a:b:c], values, items, == / != (against a Path, a T expression, anything else), startswith (a Path, a T expression, a text, anything else), Path(p, q), from_t computed on the flat `__ops__` tuple are the same operations on the list of steps for ALL Int index / slice triples (`c18_seq_laws`, with `pySlice` = CPython's slice.indices semantics); glom(t, Path(p, q)) = glom(glom(t, p), q) for wildcard-free paths of any length on any heap (`c18_concat`, from `walk_append` over C01's walk); per-run facts obligation `c18_facts_wf` by `decide` on: the switches of `_format_t` / `_format_path` (dunder guard, `()`, 1-tuple comma, root-aware, plain segments through bbrepr, runs of T steps marked), the pickling tables, Path's len / values / items / __getitem__ against the tuple of steps, and the limits (>= sys.maxsize) / fillvalue / methods of the live `_BBRepr` instance behind `bbrepr` — each fact established on the imported module by a probe battery (exhaustive over small scopes), so that behaviour-preserving rewrites of the source keep it. Model tied to the code by comparing the model's rendered repr text (scalars rendered by a Lean model of int / str / bytes repr; with small limits in a scratch tree also every cut), parse result, pickle result and every sequence operation with the real glom (index / slice triples enumerated exhaustively for lengths 0–5, bounds in [−8, 8]).",
    note="trusted: Lean kernel + {propext, Classical.choice, Quot.sound}; extractor (extract/facts/c18.py: probes of the imported module); harness/driver (the driver rejects unknown / missing fields); the lexical level: a scalar (int, str, bytes, finite float, None, True, False, Ellipsis, builtin name) is one atomic token — that Python's lexer reads its repr text back as the value, the shortest-digits float repr, and pickle of argument values, are CPython's; bracket matching is lexical; Python's slice semantics (`pySlice`) validated exhaustively against CPython; BEq on expressions in the driver is structural equality of their JSON form; that no Python object is larger than sys.maxsize (`fitsObj … (uniform sys.maxsize)` is a hypothesis of `c18_within_maxsize`, true of every object CPython can hold). Domain: finite floats (inf / nan have no literal: `T(inf)` is not evaluable — outside, `c18_nonfinite_counterexample`); sets / dicts compared in reprlib's printed (sorted) order, dict arguments as dicts (insertion order is not kept by repr); the parts of a slice object (printed by Python's slice.__repr__, i.e. the builtin repr) hold no builtin function and no set of two or more elements; reading §6.6: a segment-free nested Path comes back as the T it prints as, and 'evaluates identically' is read for objects without such a Path in an unevaluated key position (A_RAW_PATH_KEY). A text cut by reprlib is modelled as unreadable (Python may read `...` as Ellipsis: another object) — only reachable when a limit is lowered. Arithmetic-operator reprs and Path.from_text are outside the property. An A-rooted Path has no call / wildcard step (`_t_child` refuses them).",
    technique='Lean 4 proof (parser ∘ formatter = id by mutual induction over the whole argument grammar; reprlib limits as a pass that is the identity inside them, monotone in the limits; sequence laws on the flat tuple; walk_append) + facts obligation by decide over behaviourally established facts (incl. the limits of the live _BBRepr instance) + differential correspondence with exhaustive index/slice enumeration',
    ref='DESIGN.md §3 C18, §6.6')
RULE = ('repr: random objects of 0–8 steps (quick) / 0–10 (thorough): T expressions rooted at T, S, A and '
        'Paths rooted at T, S and A (plain segments mixed with T runs) over attribute (incl. dunder via T.__()), item '
        '(atoms, slices with None/int/nested-T parts, tuples incl. 0- and 1-tuples, tuples of slices), '
        'call (positional + keyword arguments in random order), * and ** steps; every argument position '
        '(item key, slice part, tuple-index element, positional, keyword, Path segment, element / key / '
        'value of a container, part of a slice object, argument of a nested T or Path) draws from: ints '
        '(small, negative, 10**20, and >= 10**40 up to 300 digits: past reprlib\'s default maxlong), strings '
        '(quotes / dots / backslashes / control / non-ASCII, and 31–200 characters: past maxstring), '
        'bytes (short and past maxother), None, bools, Ellipsis, finite floats, inf / nan (outside the '
        'domain: model tie only), builtins such as len / int, tuples / lists / sets / frozensets / dicts '
        '(0, 1, 2–3 and 7–12 elements: past maxtuple … maxdict; nested up to 9 levels: past maxlevel), '
        'slice objects, nested T / S expressions and nested Path objects (with stars and segments); '
        'sizes past 1024 (the limit bbrepr had before de451ae): ints, strings, bytes, lists, tuples, dicts, '
        'sets, wide nested T; lists as plain segments. A one-edit mutation stream targets the printing '
        'corner cases (1-tuples, empty tuples, dunder names, keyword order, trailing segments). '
        'seq: index i in [-8, 8] and slice triples over {None} ∪ [-8, 8] enumerated exhaustively for path '
        'lengths 0–5 (both tiers), plus values, items, len, from_t, and == / != / startswith against equal / '
        'prefix / unrelated operands handed over as a Path or as its path_t (a T expression), == / != with '
        'non-Paths, startswith with a text and with non-Paths (TypeError), Path(p, q), over segments that '
        'include big ints and containers; repr cases also over the path_t of a Path (a T expression holding '
        'plain segments); the RESULTS of the sequence operations as values: every index in [-4, 4] and every '
        'slice over {None} ∪ [-4, 4] × {None, 1, -1, 2} (empty selections included), from_t, values, items, '
        'Path(p, q) on T-, S- and A-rooted paths of 0–3 steps, each followed by pickle / deepcopy / copy. '
        'concat: C01 heap targets with a valid walk split at a random point, and one-edit bad '
        'segments. non-trivial = an object with >= 2 steps or a nested / container argument; an index / '
        'slice on a path of length >= 1; any concat case; distinct = distinct case')
TRUSTED = ['lexical level of repr text: scalar tokens atomic (that CPython\'s lexer reads the repr of an int / '
           'str / bytes / finite float / None / True / False / Ellipsis / builtin name back as the value is '
           'trusted; the Lean model prints them itself and is compared with the real text), bracket '
           'matching lexical',
           'pickle of argument values is CPython\'s',
           'str.isprintable above U+00FF: the generator only uses code points it checks']
ASSUMPTIONS = ['arithmetic-operator reprs are outside the property',
               'index arguments of exact type tuple / slice are steps of their own kind',
               'attribute names are identifiers',
               'sets and dicts are compared in the order reprlib prints them (sorted when sortable); '
               'only sortable sets are generated',
               'inf / nan floats (no literal) are outside the domain; builtin functions inside a plain '
               'Path segment or a slice object are outside (printed by the builtin repr)',
               'reading §6.6: a nested segment-free Path comes back as the T expression it prints as; '
               '"evaluates identically" is read for objects that have no such Path in an unevaluated key '
               'position (last key of an A-rooted expression, first plain segment of an S- / A-rooted Path: '
               'glom(t, A[Path(T.a)]) is a TypeError, glom(t, A[T.a]) succeeds) — the generator writes it '
               'as its T form there (C18_A_RAW_PATH_KEY=1 generates it)',
               'a text cut by reprlib is modelled as unreadable (Python may read `...` as Ellipsis)']

NS = None


def namespace():
    global NS
    if NS is None:
        import glom
        NS = {'T': glom.T, 'S': glom.S, 'A': glom.A, 'Path': glom.Path}
    return NS


class Unencodable(Exception):
    pass


class JArg:
    """a nested T / Path argument inside a generated Python value, kept in its case form: the generator
    never builds a glom object (a glom that refuses to build one must show up as an observation of the
    case, not as a crash or a silently dropped case of the generator)"""
    def __init__(self, j):
        self.j = j


def possibly_sorted(x):
    """reprlib._possibly_sorted"""
    try:
        return sorted(x)
    except Exception:
        return list(x)


BUILTIN_NAMES = None


def builtin_name(v):
    global BUILTIN_NAMES
    if BUILTIN_NAMES is None:
        BUILTIN_NAMES = {}
        for k, b in vars(builtins).items():
            if callable(b) and not k.startswith('_'):
                BUILTIN_NAMES.setdefault(id(b), k)
    return BUILTIN_NAMES.get(id(v))


# ---------------------------------------------------------------- values <-> JSON (independent of glom's printing)
def enc_scalar(v):
    if v is None:
        return 'None'
    if v is True:
        return 'True'
    if v is False:
        return 'False'
    if v is Ellipsis:
        return 'Ellipsis'
    t = type(v)
    if t is int:
        return {'i': str(v)}
    if t is str:
        return {'s': [ord(c) for c in v]}
    if t is bytes:
        return {'b': list(v)}
    if t is float:
        if math.isfinite(v):
            return {'f': [repr(v), v.hex()]}
        return {'fbad': repr(v)}
    n = builtin_name(v)
    if n is not None and repr(v).startswith('<'):
        return {'bi': [n, repr(v)]}
    raise Unencodable(repr(v)[:80])


def enc_arg(v):
    t = type(v)
    if t is JArg:
        return v.j
    from glom import Path
    from glom.core import TType
    if t is TType:
        return {'t': enc_ops(v.__ops__)}
    if t is Path:
        return {'path': enc_ops(v.path_t.__ops__)}
    if t is tuple:
        return {'seq': ['tuple', [enc_arg(x) for x in v]]}
    if t is list:
        return {'seq': ['list', [enc_arg(x) for x in v]]}
    if t is set:
        return {'seq': ['set', [enc_arg(x) for x in possibly_sorted(v)]]}
    if t is frozenset:
        return {'seq': ['frozenset', [enc_arg(x) for x in possibly_sorted(v)]]}
    if t is dict:
        return {'dict': [[enc_arg(k), enc_arg(v[k])] for k in possibly_sorted(v)]}
    if t is slice:
        return {'sliceobj': [enc_arg(v.start), enc_arg(v.stop), enc_arg(v.step)]}
    return {'lit': enc_scalar(v)}


def build_scalar(s):
    if s == 'None':
        return None
    if s == 'True':
        return True
    if s == 'False':
        return False
    if s == 'Ellipsis':
        return Ellipsis
    if 'i' in s:
        return int(s['i'])
    if 's' in s:
        return ''.join(chr(c) for c in s['s'])
    if 'b' in s:
        return bytes(s['b'])
    if 'f' in s:
        return float.fromhex(s['f'][1])
    if 'fbad' in s:
        return float(s['fbad'])
    if 'bi' in s:
        return getattr(builtins, s['bi'][0])
    raise ValueError(s)


def build_arg(a):
    if 'lit' in a:
        return build_scalar(a['lit'])
    if 't' in a:
        return build_t(a['t']['root'], a['t']['steps'])
    if 'path' in a:
        return build_path_obj(a['path']['root'], a['path']['steps'])
    if 'seq' in a:
        kind, xs = a['seq']
        vals = [build_arg(x) for x in xs]
        return {'tuple': tuple, 'list': list, 'set': set, 'frozenset': frozenset}[kind](vals)
    if 'dict' in a:
        kvs = [(build_arg(k), build_arg(v)) for k, v in a['dict']]
        order = a.get('order')          # the insertion order (the case lists the entries in printed order)
        if order is not None:
            kvs = [kvs[i] for i in order]
        return dict(kvs)
    if 'sliceobj' in a:
        return slice(*[build_arg(x) for x in a['sliceobj']])
    raise ValueError(a)


def build_item(i):
    if 'one' in i:
        return build_arg(i['one'])
    a, b, c = i['slice']
    f = lambda x: None if x is None else build_arg(x)
    return slice(f(a), f(b), f(c))


def apply_step(t, st):
    if st == 'star':
        return t.__star__()
    if st == 'starstar':
        return t.__starstar__()
    if 'attr' in st:
        n = st['attr']
        return t.__(n[2:]) if n.startswith('__') else getattr(t, n)
    if 'item' in st:
        return t[build_item(st['item'])]
    if 'items' in st:
        return t[tuple(build_item(i) for i in st['items'])]
    if 'call' in st:
        return t(*[build_arg(x) for x in st['call']['args']],
                 **{k: build_arg(v) for k, v in st['call']['kwargs']})
    raise ValueError(st)


def build_t(root, steps):
    t = namespace()[root]
    for st in steps:
        t = apply_step(t, st)
    return t


def is_seg(st):
    return isinstance(st, dict) and 'seg' in st


def build_path_obj(root, steps):
    """the way a user writes it: plain segments and T runs as arguments of Path(...)"""
    from glom import Path
    parts = []
    run = None
    first = True
    for st in steps:
        if is_seg(st):
            if run is not None:
                parts.append(run)
                run = None
            elif first and root != 'T':
                parts.append(namespace()[root])
            parts.append(build_arg(st['seg']))
        else:
            if run is None:
                run = namespace()[root if first and not parts else 'T']
            run = apply_step(run, st)
        first = False
    if run is not None:
        parts.append(run)
    if not steps and root != 'T':
        parts.append(namespace()[root])
    return Path(*parts)


def build_obj(obj):
    if 't' in obj:
        if any(is_seg(st) for st in obj['t']['steps']):
            # a T expression that holds plain segments: the `path_t` of a Path
            return build_path_obj(obj['t']['root'], obj['t']['steps']).path_t
        return build_t(obj['t']['root'], obj['t']['steps'])
    return build_path_obj(obj['path']['root'], obj['path']['steps'])


# ---------------------------------------------------------------- encoding real objects
def enc_item(x):
    if type(x) is slice:
        f = lambda y: None if y is None else enc_arg(y)
        return {'slice': [f(x.start), f(x.stop), f(x.step)]}
    return {'one': enc_arg(x)}


def root_name(r):
    ns = namespace()
    for k in ('T', 'S', 'A'):
        if r is ns[k]:
            return k
    return '?'


def enc_ops(ops):
    steps = []
    for i in range(1, len(ops), 2):
        op, arg = ops[i], ops[i + 1]
        if op == '.':
            if type(arg) is not str:
                raise Unencodable('attribute name %r' % (arg,))
            steps.append({'attr': arg})
        elif op == '[':
            if type(arg) is tuple:
                steps.append({'items': [enc_item(x) for x in arg]})
            else:
                steps.append({'item': enc_item(arg)})
        elif op == '(':
            args, kwargs = arg
            steps.append({'call': {'args': [enc_arg(x) for x in args],
                                   'kwargs': [[k, enc_arg(v)] for k, v in kwargs.items()]}})
        elif op == 'P':
            steps.append({'seg': enc_arg(arg)})
        elif op == 'x':
            steps.append('star')
        elif op == 'X':
            steps.append('starstar')
        else:
            steps.append({'attr': '<op %s>' % op})
    return {'root': root_name(ops[0]), 'steps': steps}


def enc_obj(o):
    from glom import Path
    from glom.core import TType
    try:
        if type(o) is TType:
            return {'t': enc_ops(o.__ops__)}
        if type(o) is Path:
            return {'path': enc_ops(o.path_t.__ops__)}
    except Exception:      # ops that are not (root, op, arg, …) with encodable arguments: not the object
        return None
    return None


SAMPLE_TARGETS = None


def sample_targets():
    global SAMPLE_TARGETS
    if SAMPLE_TARGETS is None:
        o = pyobjs.Obj(a=pyobjs.Obj(b=[1, 2, 3], a=lambda *a, **k: (a, sorted(k))), b='x', c=len,
                       k0=lambda *a, **k: len(a) + len(k))
        SAMPLE_TARGETS = [
            {'a': {'b': [1, 2, 3], 'a': 1, 0: 'zero'}, 'b': 'x', 0: [10, 20, 30], 1: {'a': 2},
             'x y': 5, "it's": 6, 10 ** 40: {'a': 7}, 2 ** 140 + 1: 8, (1, 2): 9, 'q' * 40: 10},
            [[1, 2, 3], {'a': 1}, 'abc', (4, 5, 6, 7)],
            o,
            'hello world',
            None,
        ]
    return SAMPLE_TARGETS


class _Budget(BaseException):
    """raised by the interval timer: glom's own `except Exception` clauses do not catch it"""


def _on_alarm(signum, frame):
    raise _Budget()


def outcome(spec, target):
    """outcome of glom(target, spec); evaluation is cut off after 0.25 s (wildcards over the
    scope can explode) — a cut-off evaluation counts as equal to anything: never a violation"""
    import glom
    import signal
    old = signal.signal(signal.SIGALRM, _on_alarm)
    try:
        return _outcome(glom, signal, spec, target, old)
    except _Budget:              # the timer fired between the evaluation and its cancellation
        signal.setitimer(signal.ITIMER_REAL, 0)
        signal.signal(signal.SIGALRM, old)
        return None


def _outcome(glom, signal, spec, target, old):
    signal.setitimer(signal.ITIMER_REAL, 0.25)
    try:
        r = glom.glom(target, spec, scope={'a': {'b': 1}, 'b': 2, 0: 'z'})
    except _Budget:
        return None
    except RecursionError:
        return None
    except Exception as e:
        return ('exc', c01.exc_name(e), getattr(e, 'part_idx', None))
    finally:
        signal.setitimer(signal.ITIMER_REAL, 0)
        signal.signal(signal.SIGALRM, old)
    try:
        # S-rooted wildcards reach per-call scope internals: mask memory addresses
        text = re.sub(r'0x[0-9a-fA-F]+', '0x?', repr(r))
    except Exception:
        return ('ok', '<unreprable>', r)
    if 'ChainMap(' in text:
        # a bare `S` argument evaluates to the scope of this very call (e.g. dict[S] is a generic alias
        # holding it): two calls never give equal results — not comparable, never a violation
        return None
    return ('ok', text, r)


def same_outcome(a, b, strict=True):
    if a is None or b is None:
        return True
    if a[0] == 'ok' and b[0] == 'ok':
        if a[1] == b[1]:
            return True
        try:       # equal values whose text differs (a dict built from keyword arguments)
            return bool(a[2] == b[2])
        except Exception:
            return False
    if a == b:
        return True
    # repr prints keyword arguments in key order (as a dict they are equal): when the original has
    # them in another order and evaluating some of them fails, which failure surfaces first — and
    # hence whether an enclosing wildcard swallows it — depends on that order
    return (not strict) and (a[0] == 'exc' or b[0] == 'exc')


def kwargs_sorted(x):
    """keyword arguments in key order and dict arguments in printed order everywhere"""
    if isinstance(x, dict):
        if 'call' in x:
            ks = [k for k, _ in x['call']['kwargs']]
            if ks != sorted(ks):
                return False
        if 'dict' in x and x.get('order') not in (None, list(range(len(x['dict'])))):
            return False
        return all(kwargs_sorted(v) for v in x.values())
    if isinstance(x, list):
        return all(kwargs_sorted(v) for v in x)
    return True


def run_repr(case):
    try:
        x = build_obj(case['obj'])
    except Exception as e:       # the public API refused to build the object: an observation
        return {'text': '<build raised %s>' % type(e).__name__, 'eval': None, 'text2': None, 'pickled': None,
                'same_eval': False}
    try:
        text = repr(x)
    except Exception as e:       # an observation, not a harness error (Path('a', [1, 2]) before cf04d35)
        text = '<repr raised %s>' % type(e).__name__
    obs = {'text': text, 'eval': None, 'text2': None, 'pickled': None, 'same_eval': False}
    try:
        y = eval(text, dict(namespace(), **vars(builtins)))
    except Exception:
        y = None
    if y is not None and enc_obj(y) is not None:
        obs['eval'] = enc_obj(y)
        try:
            obs['text2'] = repr(y)
        except Exception as e:
            obs['text2'] = '<repr raised %s>' % type(e).__name__
        strict = kwargs_sorted(case['obj'])
        obs['same_eval'] = all(same_outcome(outcome(x, t), outcome(y, t), strict) for t in sample_targets())
    try:
        z = pickle.loads(pickle.dumps(x))
        obs['pickled'] = enc_obj(z)
    except Exception:
        pass
    return obs


# ---------------------------------------------------------------- sequence cases
def argtext(v):
    """an argument as one canonical text (the sequence laws compare arguments as opaque values)"""
    return json.dumps(enc_arg(v), sort_keys=True, separators=(',', ':'))


def argvalue(text):
    return build_arg(json.loads(text))


def build_path(root, steps):
    """steps: [(op, argtext)] with op in '.', '[', 'P'"""
    return build_path_obj(root, [
        {'attr': argvalue(a)} if op == '.' else
        {'item': {'one': json.loads(a)}} if op == '[' else {'seg': json.loads(a)} for op, a in steps])


class Malformed(Exception):
    pass


def enc_pairs(p):
    from glom import Path
    if type(p) is not Path:
        raise Malformed()
    ops = p.path_t.__ops__
    if len(ops) % 2 != 1 or any(type(ops[i]) is not str for i in range(1, len(ops), 2)) \
            or root_name(ops[0]) == '?':
        raise Malformed()
    return {'root': root_name(ops[0]),
            'steps': [[ops[i], argtext(ops[i + 1])] for i in range(1, len(ops), 2)]}


def as_bool(v):
    return {'bool': v} if type(v) is bool else {'other': 'not a bool: %s' % type(v).__name__}


NOT_PATHS = ['a', ('a',), None, 5, ['a'], {'a': 1}]


class RoundTripFailed(Exception):
    pass


def round_trip(how, v):
    """the result of a sequence operation after pickle / copy.deepcopy / copy.copy (case field "rt"): a
    Path that `p[a:b]` or `from_t()` returns is a value like any other — that it can be pickled and
    copied, and comes back with the same root and steps, is part of "pickling round-trips likewise"
    (seeded change C18-s11: a bare-root path_t that is not the singleton could no longer be pickled)"""
    import copy
    if not how:
        return v
    try:
        if how == 'pickle':
            return pickle.loads(pickle.dumps(v))
        if how == 'deepcopy':
            return copy.deepcopy(v)
        if how == 'copy':
            return copy.copy(v)
    except Exception as e:
        raise RoundTripFailed('%s raised %s' % (how, type(e).__name__))
    raise ValueError(how)


def run_seq(case):
    from glom import Path
    op = case['op']
    how = case.get('rt')
    rt = lambda v: round_trip(how, v)

    def other(o):
        """the other operand: a Path, or (\"as\": \"t\") its path_t — a T expression"""
        q = build_path(o['root'], o['steps'])
        return q.path_t if o.get('as') == 't' else q
    try:
        p = build_path(case['root'], case['steps'])
        if op == 'len':
            n = rt(len(p))
            return {'nat': n} if type(n) is int and n >= 0 else {'other': 'len: %r' % (n,)}
        if op == 'values':
            vs = rt(p.values())
            if type(vs) is not tuple:
                return {'other': 'values: not a tuple'}
            return {'vals': [argtext(v) for v in vs]}
        if op == 'items':
            its = rt(p.items())
            if type(its) is not tuple or any(type(x) is not tuple or len(x) != 2 or type(x[0]) is not str
                                             for x in its):
                return {'other': 'items: not a tuple of (op, arg) pairs'}
            return {'pairs': [[o, argtext(v)] for o, v in its]}
        if op == 'from_t':
            return {'path': enc_pairs(rt(p.from_t()))}
        if op == 'eq_other':
            # neither a Path nor a T: never equal (and != is its negation)
            rs = [(p == x, p != x) for x in NOT_PATHS]
            if any(type(a) is not bool or type(b) is not bool or a == b for a, b in rs):
                return {'other': '== / != with a non-Path'}
            return {'bool': any(a for a, _ in rs)}
        if op == 'startswith_bad':
            for x in NOT_PATHS[1:]:
                try:
                    r = p.startswith(x)
                except TypeError:
                    continue
                return {'other': 'startswith(%r) returned %r' % (x, r)}
            return 'TypeError'
        if 'idx' in op:
            return {'path': enc_pairs(rt(p[op['idx']]))}
        if 'slice' in op:
            return {'path': enc_pairs(rt(p[slice(*op['slice'])]))}
        if 'eq' in op:
            return as_bool(rt(p == other(op['eq'])))
        if 'ne' in op:
            return as_bool(p != other(op['ne']))
        if 'startswith' in op:
            return as_bool(p.startswith(other(op['startswith'])))
        if 'startswith_str' in op:
            return as_bool(p.startswith(argvalue(op['startswith_str'])))
        if 'concat' in op:
            return {'path': enc_pairs(rt(Path(p, build_path('T', op['concat']))))}
    except Malformed:
        return {'other': 'malformed __ops__'}
    except RoundTripFailed as e:
        return {'other': str(e)}
    except IndexError:
        return 'IndexError'
    except ValueError:
        return 'ValueError'
    except TypeError:
        return 'TypeError'
    except Exception as e:
        return {'other': type(e).__name__}
    return {'other': 'unknown op'}


# ---------------------------------------------------------------- concat cases (C01 machinery)
def run_concat(case):
    import glom
    from glom import Path, T, PathAccessError
    objs, dv = pyobjs.decode(case['heap'])
    ids = {id(o): a for a, o in enumerate(objs)}
    target = dv(case['target'])

    def mk(steps):
        parts = []
        for op, arg in steps:
            a = dv(arg)
            parts.append(a if op == 'P' else (getattr(T, a) if op == '.' else T[a]))
        return Path(*parts)

    def ev(t, spec):
        try:
            r = glom.glom(t, spec)
        except PathAccessError as e:
            return None, {'pae': {'idx': e.part_idx, 'exc': c01.exc_name(e.exc)}}
        except Exception as e:
            return None, {'other': c01.exc_name(e)}
        if id(r) in ids:
            return r, {'ok': {'r': ids[id(r)]}}
        return r, {'ok': pyobjs.enc_val(r, lambda v: None)}

    p, q = mk(case['p']), mk(case['q'])
    _, joined = ev(target, Path(p, q))
    v, o1 = ev(target, p)
    if 'ok' not in o1:
        nested = {'first': o1}
    else:
        _, o2 = ev(v, q)
        nested = {'second': o2}
    return {'joined': joined, 'nested': nested}


def run_impl(case):
    out = {k: v for k, v in case.items() if k != 'impl'}
    k = case['kind']
    out['impl'] = run_repr(case) if k == 'repr' else run_seq(case) if k == 'seq' else run_concat(case)
    return out


# ---------------------------------------------------------------- generators
ATTRS = ['a', 'b', 'c', 'k0', 'items', 'x_1', '_p', 'Path', 'T', '__class__', '__x', '__', '__star__', '___y']
STRS = ['a', 'b', 'a.b', "it's", 'say "hi"', 'back\\slash', '', 'x y', '*', '**', 'é', 'T.a', '[0]', "a'b\"c", '\n',
        '\t\r\x00\x1f\x7f', '\x80\xa0\xad\xff', '€ 日本', "'", '"', '...', 'Path(T)', 'a, b: c']
INTS = [0, 1, 2, -1, -3, 7, 10 ** 20, -2 ** 63]
# past reprlib's default maxlong (40): 10**39 has exactly 40 digits (control)
BIGINTS = [10 ** 39, 10 ** 40, 2 ** 140 + 1, -10 ** 40, -(10 ** 39), 10 ** 41 - 1, 7 ** 120, -(3 ** 300), 10 ** 300]
# share of arguments past the limits bbrepr had before de451ae (1024)
HUGE_SHARE = 0.03
FLOATS = [1.5, -0.0, 1e100, 0.1, 2.0, -2.5e-300, 1e16, 123456789.123456789, 5e-324]
BADFLOATS = [float('inf'), float('-inf'), float('nan')]
BUILTINS = [len, int, str, sorted, abs, dict, isinstance, ValueError]
KWNAMES = ['x', 'a', 'key', 'b', 'zz', 'default', '_k']
LONG_ALPHABET = ['a', 'b', 'Z', '0', ' ', '.', "'", '"', '\\', '\n', 'é', '€', '\x00', '\x7f', '\xad']


def model_printable(c):
    """Spec/C18.lean `pyPrintable`"""
    return False if c < 32 else True if c < 127 else False if c <= 160 else c != 173


for _s in STRS + LONG_ALPHABET:
    for _c in _s:
        assert model_printable(ord(_c)) == _c.isprintable(), 'str.isprintable model differs for %r' % _c


def gen_long_str(r, lo, hi):
    n = r.randint(lo, hi)
    if r.random() < 0.5:
        return r.choice('abxyz') * n
    return ''.join(r.choice(LONG_ALPHABET) for _ in range(n))


def gen_scalar(r, kind=None):
    k = kind or ('badfloat' if r.random() < 0.012 else
                 r.choice(['int', 'int', 'bigint', 'str', 'str', 'longstr', 'none', 'bool', 'float', 'builtin',
                           'bytes', 'longbytes', 'ellipsis', 'float', 'bigint', 'longstr']))
    if k == 'int':
        return r.choice(INTS)
    if k == 'bigint':
        if r.random() < 0.3:
            return r.choice([1, -1]) * r.randrange(10 ** 39, 10 ** r.choice([41, 45, 60, 120]))
        return r.choice(BIGINTS)
    if k == 'hugeint':
        return r.choice([1, -1]) * (10 ** r.choice([1023, 1024, 1100]) + r.randrange(1000))
    if k == 'str':
        return r.choice(STRS)
    if k == 'longstr':
        # past reprlib's default maxstring (30), around it (28–32 with quotes), and well past
        return gen_long_str(r, *r.choice([(26, 33), (31, 60), (100, 200)]))
    if k == 'hugestr':
        return gen_long_str(r, *r.choice([(1019, 1026), (1025, 1400)]))
    if k == 'none':
        return None
    if k == 'bool':
        return r.choice([True, False])
    if k == 'ellipsis':
        return Ellipsis
    if k == 'float':
        return r.choice(FLOATS)
    if k == 'badfloat':
        return r.choice(BADFLOATS)
    if k == 'builtin':
        return r.choice(BUILTINS)
    if k == 'bytes':
        return r.choice([b'', b'abc', b"it's", b'\x00\xff\n', b'"q"', b"'\"\\"])
    if k == 'longbytes':
        return bytes(r.randrange(256) for _ in range(r.randint(8, 60)))
    if k == 'hugebytes':
        return bytes(r.randrange(97, 100) for _ in range(r.randint(1019, 1100)))
    raise ValueError(k)


HASHABLE_SCALARS = ['int', 'bigint', 'str', 'longstr']


def gen_len(r, wide):
    """number of elements of a container: around reprlib's default limits (4 for dicts, 6 otherwise)"""
    if wide:
        return r.choice([7, 8, 12, 5, 20])
    return r.choice([0, 1, 1, 2, 3, 3, 4, 5, 6, 7])


def gen_homog(r, n):
    """n distinct sortable hashable values of one type (set elements / dict keys)"""
    k = r.choice(['int', 'int', 'str', 'tuple', 'mixed-int'])
    out = []
    seen = set()
    tries = 0
    while len(out) < n and tries < 10 * n + 20:
        tries += 1
        if k == 'int':
            v = r.randrange(-50, 50)
        elif k == 'mixed-int':
            v = gen_scalar(r, r.choice(['int', 'bigint']))
        elif k == 'str':
            v = gen_scalar(r, r.choice(['str', 'str', 'longstr']))
        else:
            v = tuple(r.randrange(5) for _ in range(r.randint(0, 3)))
        if v not in seen:
            seen.add(v)
            out.append(v)
    return out


def gen_value(r, depth, tdepth, wide=None):
    """a Python value for an argument position: scalar, container (holding scalars, containers,
    T / Path objects), slice object, nested T / S expression, nested Path"""
    p = r.random()
    if depth <= 0 or p < 0.45:
        return gen_scalar(r)
    wide = r.random() < 0.25 if wide is None else wide
    if p < 0.53 and tdepth > 0:
        return JArg(gen_nested_t(r, tdepth - 1))
    if p < 0.58 and tdepth > 0:
        return JArg(gen_nested_path(r, tdepth - 1))
    if p < 0.63:
        f = lambda: r.choice([None, None, 0, 1, -2, 5, 10 ** 40, 'k', (1, 2)])
        return slice(f(), f(), f())
    n = gen_len(r, wide)
    kind = r.choice(['tuple', 'tuple', 'list', 'list', 'dict', 'set', 'frozenset'])
    sub = lambda: gen_value(r, depth - 1, tdepth, wide=False)
    if kind == 'tuple':
        return tuple(sub() for _ in range(n))
    if kind == 'list':
        return [sub() for _ in range(n)]
    if kind == 'dict':
        keys = gen_homog(r, n)
        r.shuffle(keys)
        return {k: sub() for k in keys}
    vals = gen_homog(r, n)
    return set(vals) if kind == 'set' else frozenset(vals)


def gen_deep(r, levels):
    """containers nested `levels` deep (reprlib's default maxlevel is 6)"""
    v = gen_scalar(r, r.choice(['int', 'str', 'none']))
    for _ in range(levels):
        k = r.choice(['list', 'tuple', 'tuple1', 'dict', 'fs', 'list2'])
        if k == 'list':
            v = [v]
        elif k == 'list2':
            v = [gen_scalar(r, 'int'), v]
        elif k == 'tuple':
            v = (v, gen_scalar(r, 'int'))
        elif k == 'tuple1':
            v = (v,)
        elif k == 'dict':
            v = {'k': v}
        else:
            try:
                hash(v)
                v = frozenset([v])
            except TypeError:
                v = [v]
    return v


def gen_huge(r):
    k = r.choice(['hugeint', 'hugestr', 'hugebytes', 'list', 'tuple', 'dict', 'set', 'wide-t'])
    if k in ('hugeint', 'hugestr', 'hugebytes'):
        return gen_scalar(r, k)
    n = r.choice([1024, 1025, 1100])
    if k == 'list':
        return list(range(n))
    if k == 'tuple':
        return tuple(range(n))
    if k == 'dict':
        return {i: 0 for i in range(n)}
    if k == 'set':
        return set(range(n))
    return JArg({'t': {'root': 'T', 'steps': [{'item': {'one': L('a' * r.choice([500, 520]))}},
                                              {'item': {'one': L('b' * r.choice([495, 510]))}}]}})


def arg_of_value(v):
    a = enc_arg(v)
    mark_orders(a, v)
    return a


def mark_orders(a, v):
    """record the insertion order of dict values (the case lists entries in printed order)"""
    if 'dict' in a:
        keys = possibly_sorted(v)
        pos = {id(k): i for i, k in enumerate(keys)}
        order = [pos[id(k)] for k in v]
        if order != list(range(len(order))):
            a['order'] = order
        for (ka, va), k in zip(a['dict'], keys):
            mark_orders(ka, k)
            mark_orders(va, v[k])
    elif 'seq' in a:
        xs = list(v) if a['seq'][0] in ('tuple', 'list') else possibly_sorted(v)
        for xa, x in zip(a['seq'][1], xs):
            mark_orders(xa, x)
    elif 'sliceobj' in a:
        for xa, x in zip(a['sliceobj'], (v.start, v.stop, v.step)):
            mark_orders(xa, x)


def gen_nested_t(r, depth):
    root = r.choice(['T', 'T', 'S'])
    steps = fix_s_call(root, gen_steps(r, r.randint(0, 3), depth, False))
    if not a_ok(root, steps):
        root = 'T'
    return {'t': {'root': root, 'steps': steps}}


def gen_nested_path(r, depth):
    root = r.choice(['T', 'T', 'S', 'A'])
    steps = fix_s_call(root, gen_steps(r, r.randint(0, 3), depth, True))
    if not a_ok(root, steps):
        root = 'T'
    return {'path': {'root': root, 'steps': steps}}


def gen_arg(r, depth, kinds=None):
    """a call argument / slice part / tuple element: scalar, container, slice object, nested T / Path"""
    if kinds:
        return {'lit': enc_scalar(gen_scalar(r, r.choice(kinds)))}
    p = r.random()
    if depth > 0 and p < 0.2:
        return gen_nested_t(r, depth - 1)
    if depth > 0 and p < 0.25:
        return gen_nested_path(r, depth - 1)
    if p < 0.31:
        return arg_of_value(gen_deep(r, r.choice([2, 5, 6, 7, 7, 8, 9])))
    if p < 0.31 + HUGE_SHARE:
        return arg_of_value(gen_huge(r))
    return arg_of_value(gen_value(r, r.choice([0, 0, 1, 2, 3]), depth))


def is_index_atom(a):
    return not ('sliceobj' in a or ('seq' in a and a['seq'][0] == 'tuple'))


def gen_index_atom(r, depth):
    """an index that is neither a tuple nor a slice object"""
    for _ in range(20):
        a = gen_arg(r, depth)
        if is_index_atom(a):
            return a
    return {'lit': enc_scalar(0)}


def gen_item(r, depth):
    if r.random() < 0.3:
        f = lambda: None if r.random() < 0.45 else (
            gen_arg(r, depth, ['int', 'int', 'int', 'none', 'str', 'bigint']) if r.random() < 0.7
            else gen_arg(r, depth))
        a, b, c = f(), f(), f()
        # a slice part that is literally None is the same as an absent part
        z = lambda x: None if (x is not None and x.get('lit') == 'None') else x
        return {'slice': [z(a), z(b), z(c)]}
    if r.random() < 0.15:
        # a tuple nested inside a tuple index
        return {'one': arg_of_value(tuple(gen_value(r, 1, 0) for _ in range(r.choice([0, 1, 1, 2, 3, 7]))))}
    return {'one': gen_index_atom(r, depth)}


def gen_step(r, depth, allow_seg):
    p = r.random()
    if allow_seg and p < 0.3:
        # a plain segment: anything but a T / Path (those are flattened by Path.__init__)
        for _ in range(20):
            a = gen_arg(r, min(depth, 1))
            if 't' not in a and 'path' not in a:
                return {'seg': a}
        return {'seg': {'lit': enc_scalar('a')}}
    if p < 0.5:
        return {'attr': r.choice(ATTRS)}
    if p < 0.68:
        it = gen_item(r, depth)
        if 'one' in it and not is_index_atom(it['one']):
            if 'sliceobj' in it['one']:
                return {'items': [{'one': {'lit': enc_scalar(1)}}]}
            return {'items': [it]}
        return {'item': it}
    if p < 0.8:
        n = r.choice([0, 1, 1, 2, 3])
        its = [gen_item(r, depth) for _ in range(n)]
        # a slice object inside a tuple index is an Item.slice
        return {'items': [it for it in its if not ('one' in it and 'sliceobj' in it['one'])]}
    if p < 0.94:
        na = r.choice([0, 1, 1, 2])
        kws = r.sample(KWNAMES, r.choice([0, 0, 1, 2, 3, 4, 6]))
        if r.random() < 0.5:
            kws = sorted(kws)
        return {'call': {'args': [gen_arg(r, depth) for _ in range(na)],
                         'kwargs': [[k, gen_arg(r, depth)] for k in kws]}}
    return r.choice(['star', 'starstar'])


def gen_steps(r, n, depth, allow_seg):
    return [gen_step(r, depth, allow_seg) for _ in range(n)]


def a_ok(root, steps):
    """_t_child refuses calls and wildcards on A paths; wildcards over the scope (S root) are not
    generated either: evaluating them walks glom's own per-call state"""
    if root == 'A':
        return not any(st in ('star', 'starstar') or (isinstance(st, dict) and 'call' in st) for st in steps)
    if root == 'S':
        return not any(st in ('star', 'starstar') for st in steps)
    return True


def fix_s_call(root, steps):
    """S(...) directly on the root is the scope-assignment form: needs kwargs only"""
    if root == 'S' and steps and isinstance(steps[0], dict) and 'call' in steps[0]:
        c = steps[0]['call']
        if c['args'] or not c['kwargs']:
            return [{'attr': 'a'}] + steps
    return steps


def L(v):
    return {'lit': enc_scalar(v)}


CORNERS = [
    [{'items': [{'one': L(1)}]}],                              # T[(1,)]
    [{'items': []}],                                           # T[()]
    [{'attr': '__class__'}],                                   # T.__('class__')
    [{'attr': 'a'}, {'items': [{'one': L('k')}]}, {'attr': 'b'}],
    [{'items': [{'one': {'seq': ['tuple', []]}}]}],            # T[((),)]
    [{'items': [{'slice': [None, L(2), None]}]}],              # T[:2,]
    [{'items': [{'one': L(1)}, {'one': L(2)}]}],
    [{'attr': '__'}, {'call': {'args': [L('x')], 'kwargs': []}}],           # T.__('')('x')
    [{'attr': '__star__'}, {'call': {'args': [], 'kwargs': []}}],           # T.__('star__')()
    [{'call': {'args': [], 'kwargs': [['b', L(1)], ['a', L(2)]]}}],
    [{'item': {'slice': [None, None, None]}}],
    [{'item': {'slice': [{'t': {'root': 'T', 'steps': [{'attr': 'a'}]}}, None, L(-1)]}}],
    # literals past reprlib's default limits, one per limit
    [{'item': {'one': L(2 ** 140 + 1)}}, {'item': {'one': L('n')}}],                     # maxlong
    [{'call': {'args': [L('x' * 31)], 'kwargs': [['k', L(-10 ** 40)]]}}],                 # maxstring, maxlong
    [{'call': {'args': [{'seq': ['list', [L(i) for i in range(7)]]}], 'kwargs': []}}],    # maxlist
    [{'call': {'args': [{'seq': ['tuple', [L(i) for i in range(7)]]}], 'kwargs': []}}],   # maxtuple
    [{'call': {'args': [{'seq': ['set', [L(i) for i in range(7)]]}], 'kwargs': []}}],     # maxset
    [{'call': {'args': [{'seq': ['frozenset', [L(i) for i in range(7)]]}], 'kwargs': []}}],
    [{'call': {'args': [{'dict': [[L(i), L(0)] for i in range(5)]}], 'kwargs': []}}],     # maxdict
    [{'call': {'args': [L(bytes(range(40, 70)))], 'kwargs': []}}],                        # maxother
    [{'call': {'args': [{'seq': ['set', []]}, {'seq': ['frozenset', []]}, {'dict': []},
                        {'seq': ['tuple', [L(1)]]}, {'seq': ['list', []]}], 'kwargs': []}}],
    [{'call': {'args': [{'sliceobj': [L(1), L(None), L(10 ** 40)]}], 'kwargs': []}}],
    [{'call': {'args': [{'path': {'root': 'T', 'steps': [{'seg': L('a')}, {'attr': 'b'}, 'star']}}],
               'kwargs': []}}],
    [{'call': {'args': [{'t': {'root': 'T', 'steps': [{'item': {'one': L('k' * 40)}}]}}], 'kwargs': []}}],
]


def deep_corner(levels):
    a = L(1)
    for _ in range(levels):
        a = {'seq': ['list', [a]]}
    return [{'call': {'args': [a], 'kwargs': []}}]


CORNERS += [deep_corner(6), deep_corner(7)]                    # maxlevel


def gen_repr_case(r, tier):
    maxlen = 8 if tier == 'quick' else 10
    p = r.random()
    if p < 0.1:
        steps = json.loads(json.dumps(r.choice(CORNERS)))
        pre = gen_steps(r, r.randint(0, 2), 1, False)
        post = gen_steps(r, r.randint(0, 2), 1, False)
        root = r.choice(['T', 'T', 'S', 'A'])
        steps = fix_s_call(root, pre + steps + post)
        if not a_ok(root, steps):
            root = 'T'
        return {'kind': 'repr', 'obj': {'t': {'root': root, 'steps': steps}}}
    n = r.randint(0, maxlen)
    if p < 0.6:
        root = r.choice(['T', 'T', 'T', 'S', 'A'])
        # (now and then the `path_t` of a Path: a T expression that holds plain segments)
        steps = fix_s_call(root, gen_steps(r, n, 2, r.random() < 0.06))
        if not a_ok(root, steps):
            root = 'T'
        return {'kind': 'repr', 'obj': {'t': {'root': root, 'steps': steps}}}
    root = r.choice(['T', 'T', 'T', 'S', 'S', 'A'])
    steps = fix_s_call(root, gen_steps(r, n, 2, True))
    if not a_ok(root, steps):
        root = 'T'
    return {'kind': 'repr', 'obj': {'path': {'root': root, 'steps': steps}}}


def sanitize_plain(a):
    """a part of a slice object is printed by Python's `slice.__repr__`, i.e. by the builtin repr: a set
    there is printed in iteration order, which eval(repr(s)) does not keep, a dict in insertion order,
    a builtin function as <built-in function …> — outside the domain: sets of two or more elements are
    not generated there, dicts are built in printed order, builtin functions are replaced (one corpus
    case keeps the model's text tied)"""
    if 'lit' in a:
        if isinstance(a['lit'], dict) and 'bi' in a['lit']:
            return {'lit': {'i': '3'}}
        return a
    if 'seq' in a:
        kind, xs = a['seq']
        xs = [sanitize_plain(x) for x in xs]
        if kind in ('set', 'frozenset') and len(xs) > 1:
            xs = xs[:1]
        return {'seq': [kind, xs]}
    if 'dict' in a:
        return {'dict': [[sanitize_plain(k), sanitize_plain(v)] for k, v in a['dict']]}
    if 'sliceobj' in a:
        return {'sliceobj': [sanitize_plain(x) for x in a['sliceobj']]}
    return a      # a nested T / Path prints its own arguments with bbrepr


def sanitize(x):
    """apply `sanitize_plain` below every slice object"""
    if isinstance(x, dict):
        if 'sliceobj' in x:
            x = sanitize_plain(x)
        return {k: sanitize(v) for k, v in x.items()}
    if isinstance(x, list):
        return [sanitize(v) for v in x]
    return x


def path_as_t(x):
    """every nested segment-free Path below x replaced by the T expression it prints as"""
    if isinstance(x, dict):
        if 'path' in x and isinstance(x['path'], dict) and 'root' in x['path']:
            st = x['path']['steps']
            if st and not any(is_seg(q) for q in st):
                return {'t': {'root': x['path']['root'], 'steps': path_as_t(st)}}
        return {k: path_as_t(v) for k, v in x.items()}
    if isinstance(x, list):
        return [path_as_t(v) for v in x]
    return x


def fix_a_raw(x):
    """the key of the last step of an A-rooted expression is used unevaluated (see A_RAW_PATH_KEY)"""
    if A_RAW_PATH_KEY:
        return x
    if isinstance(x, dict):
        x = {k: fix_a_raw(v) for k, v in x.items()}
        if x.get('root') == 'A' and isinstance(x.get('steps'), list) and x['steps']:
            x['steps'] = x['steps'][:-1] + [path_as_t(x['steps'][-1])]
        # … and so is a plain segment that is the first step of an S- / A-rooted Path (`_s_first_magic`)
        if x.get('root') in ('S', 'A') and isinstance(x.get('steps'), list) and x['steps'] \
                and is_seg(x['steps'][0]):
            x['steps'] = [path_as_t(x['steps'][0])] + x['steps'][1:]
        return x
    if isinstance(x, list):
        return [fix_a_raw(v) for v in x]
    return x


def nested_instances(x):
    """the nested T / Path / slice-object arguments of a case (printed through repr_instance)"""
    if isinstance(x, dict):
        for k in ('t', 'path'):
            if k in x and isinstance(x[k], dict) and 'root' in x[k]:
                yield x
        if 'sliceobj' in x:
            yield x
        for v in x.values():
            yield from nested_instances(v)
    elif isinstance(x, list):
        for v in x:
            yield from nested_instances(v)


def strip_orders(x):
    if isinstance(x, dict):
        return {k: strip_orders(v) for k, v in x.items() if k != 'order'}
    if isinstance(x, list):
        return [strip_orders(v) for v in x]
    return x


def check_faithful(case):
    """the case describes the object that is built from it (a generator bug otherwise)"""
    got = enc_obj(build_obj(case['obj']))
    want = strip_orders(case['obj'])
    if got != want:
        raise AssertionError('case does not describe the object built from it:\n%s\n%s'
                             % (json.dumps(want)[:600], json.dumps(got)[:600]))


SEQ_VALUES = [('a', '.'), ('b', '.'), (0, '['), ('k', '['), ('p', 'P'), (1, 'P'), ('a.b', 'P'),
              (10 ** 40, 'P'), (2 ** 140 + 1, '['), ((1, 'x' * 35), 'P'), ([1, 2, 3, 4, 5, 6, 7], '['), (None, 'P')]
SEQ_ARGS = None


def seq_args():
    global SEQ_ARGS
    if SEQ_ARGS is None:
        SEQ_ARGS = [(argtext(v), op) for v, op in SEQ_VALUES]
    return SEQ_ARGS


def seq_steps(r, n, simple=False):
    args = seq_args()[:7] if simple else seq_args()
    return [[op, a] for a, op in (r.choice(args) for _ in range(n))]


def gen_seq_exhaustive():
    rng = random.Random(4242)
    vals = [None] + list(range(-8, 9))
    for n in range(0, 6):
        steps = seq_steps(rng, n, simple=True)
        root = 'T' if n % 2 == 0 else rng.choice(['T', 'S'])
        for i in range(-8, 9):
            yield {'kind': 'seq', 'root': root, 'steps': steps, 'op': {'idx': i}}
        for a, b, c in itertools.product(vals, repeat=3):
            yield {'kind': 'seq', 'root': root, 'steps': steps, 'op': {'slice': [a, b, c]}}


def gen_seq_random(r, n_cases):
    for _ in range(n_cases):
        n = r.randint(0, 7)
        root = r.choice(['T', 'T', 'S', 'A'])
        steps = seq_steps(r, n)
        k = r.random()
        if k < 0.12:
            op = r.choice(['len', 'values', 'items', 'from_t'])
        elif k < 0.3:
            op = {'idx': r.randint(-n - 3, n + 3)}
        elif k < 0.5:
            f = lambda: r.choice([None, None] + list(range(-n - 3, n + 4)) + [10 ** 20, -10 ** 20])
            op = {'slice': [f(), f(), r.choice([None, None, 1, -1, 2, -2, 3, 0, 10 ** 20, -10 ** 20])]}
        elif k < 0.54:
            op = r.choice(['eq_other', 'startswith_bad'])
        elif k < 0.6:
            # p.startswith('text'): the text is one plain segment (it is not split at dots)
            strs = [a for a, o in seq_args() if o != '[' and isinstance(argvalue(a), str)]
            first = steps[0][1] if steps and isinstance(argvalue(steps[0][1]), str) else None
            op = {'startswith_str': first if first is not None and r.random() < 0.6 else r.choice(strs)}
        elif k < 0.85:
            m = r.random()
            oroot = root if r.random() < 0.8 else r.choice(['T', 'S'])
            if m < 0.4:
                other = steps[:r.randint(0, n)]
            elif m < 0.6:
                other = list(steps)
            elif m < 0.8 and n:
                other = json.loads(json.dumps(steps[:r.randint(1, n)]))
                j = r.randrange(len(other))
                other[j] = list(r.choice(seq_args()))[::-1]
            else:
                other = steps + seq_steps(r, r.randint(1, 2))
            op = {r.choice(['eq', 'eq', 'ne', 'startswith', 'startswith']):
                  {'root': oroot, 'steps': other, 'as': r.choice(['path', 'path', 't'])}}
        else:
            op = {'concat': seq_steps(r, r.randint(0, 4))}
        case = {'kind': 'seq', 'root': root, 'steps': steps, 'op': op}
        if r.random() < 0.45 and (op in ('len', 'values', 'items', 'from_t') or
                                  any(k in op for k in ('idx', 'slice', 'concat', 'eq'))):
            case['rt'] = r.choice(RTS)
        yield case


RTS = ['pickle', 'deepcopy', 'copy']


def gen_seq_roundtrips():
    """the results of the sequence operations as values: for T-, S- and A-rooted paths of 0–3 steps, every
    index in [-4, 4], every slice a:b:c over {None} ∪ [-4, 4] × {None, 1, -1, 2} (the empty selections
    among them), from_t(), values(), items() and Path(p, q), each followed by pickle / deepcopy / copy"""
    rng = random.Random(1811)
    vals = [None] + list(range(-4, 5))
    k = 0
    for n in range(0, 4):
        for root in ('T', 'S', 'A'):
            steps = seq_steps(rng, n)
            ops = ['from_t', 'values', 'items', 'len', {'concat': []}, {'concat': seq_steps(rng, 1, simple=True)}]
            ops += [{'idx': i} for i in range(-4, 5)]
            ops += [{'slice': [a, b, c]} for a in vals for b in vals for c in (None, 1, -1, 2)]
            for op in ops:
                k += 1
                yield {'kind': 'seq', 'root': root, 'steps': steps, 'op': op, 'rt': RTS[k % 3]}


def gen_concat(r, tier, n_cases):
    classes = pyobjs.class_table()
    maxlen = 6 if tier == 'quick' else 10
    for _ in range(n_cases):
        heap, root = c01.gen_target(r, False, r.choice([2, 3, 4, 5]))
        # CPython has one empty tuple: two empty-tuple cells would be the same object
        while sum(1 for c in heap if c['c'] == 'tuple' and not c['v']) > 1:
            heap, root = c01.gen_target(r, False, r.choice([2, 3, 4, 5]))
        walk, _ = c01.valid_walk(r, heap, root, r.randint(0, maxlen), c01.TableMirror())   # default registrations
        steps = []
        for kind, key, _cur in walk:
            q = r.random()
            if kind == 'attr':
                steps.append(['.' if q < 0.5 else 'P', key])
            elif kind == 'idx':
                steps.append(['[' if q < 0.4 else 'P', key if q < 0.7 else {'s': str(key['i'])}])
                if steps[-1][0] == '[' and 's' in steps[-1][1]:
                    steps[-1][1] = key
            else:
                steps.append(['[' if q < 0.5 else 'P', key])
        m = r.random()
        if m < 0.35 and steps:
            k = r.randrange(len(steps))
            steps[k] = [r.choice(['P', '[']), r.choice([{'s': 'zz'}, {'i': 99}, {'s': '99'}, None])]
        elif m < 0.45:
            steps.append([r.choice(['P', '[', '.']), {'s': 'zz'}])
        cut = r.randint(0, len(steps))
        yield {'kind': 'concat', 'classes': classes, 'heap': heap, 'target': root,
               'p': steps[:cut], 'q': steps[cut:]}


def generate(rng, tier, scale, **focus):
    global HUGE_SHARE
    HUGE_SHARE = 0.012 if tier == 'quick' else 0.03      # (a 1100-element literal costs as much as 50 cases)
    n = (700 if tier == 'quick' else 20000) * scale
    for i in range(n):
        try:
            case = gen_repr_case(rng, tier)
        except (ValueError, Unencodable):
            continue
        # (the object is built by run_impl, not here: a glom that refuses to build it — or builds another
        # one, seeded change C18-s8 — is what the check is for; the observations are compared with the
        # steps the case lists)
        case['obj'] = fix_a_raw(sanitize(case['obj']))
        yield case
    yield from gen_seq_random(rng, (400 if tier == 'quick' else 12000) * scale)
    yield from gen_concat(rng, tier, (300 if tier == 'quick' else 8000) * scale)
    yield from gen_seq_roundtrips()
    if not focus:
        yield from gen_seq_exhaustive()


def corpus():
    mk = lambda steps, kind='t', root='T': {'kind': 'repr', 'obj': {kind: {'root': root, 'steps': steps}}}
    out = [mk(json.loads(json.dumps(c))) for c in CORNERS]
    out += [mk(json.loads(json.dumps(c)), 'path') for c in CORNERS[12:]]
    seg3 = [['P', argtext('a')], ['P', argtext('b')], ['P', argtext('c')]]
    out += [
        # the defects repaired by 4f7a77c
        {'kind': 'seq', 'root': 'T', 'steps': seg3, 'op': {'idx': 3}},
        {'kind': 'seq', 'root': 'T', 'steps': seg3, 'op': {'slice': [2, 0, -1]}},
        {'kind': 'seq', 'root': 'T', 'steps': seg3, 'op': {'slice': [-5, 2, None]}},
        mk([{'seg': L('a')}, {'attr': 'b'}, 'star', {'seg': L(2)}], 'path'),
        mk([], 'path'),
        # literals past reprlib's default limits in a plain segment (printed by the builtin repr)
        mk([{'seg': L(10 ** 40)}, {'seg': {'seq': ['tuple', [L(i) for i in range(8)]]}}, {'attr': 'a'}], 'path'),
        # outside the domain: no literal for inf; a builtin inside a slice object (Python's slice repr)
        mk([{'call': {'args': [L(float('inf'))], 'kwargs': []}}]),
        mk([{'call': {'args': [{'sliceobj': [L(len), L(None), L(None)]}], 'kwargs': []}}]),
        # the classes repaired by 5242ad1, cf04d35, de451ae
        mk([{'seg': L(len)}], 'path'),
        mk([{'seg': L('a')}, {'seg': {'seq': ['tuple', [L('x'), {'seq': ['set', [L(i) for i in (-5, 1, 2, 3, 10)]]}]]}}], 'path'),
        mk([{'seg': {'seq': ['list', []]}}], 'path'),
        mk([{'seg': L('a')}, {'seg': {'seq': ['list', [L('.'), L('x')]]}}], 'path'),
        mk([{'seg': L('a')}, {'seg': {'seq': ['list', [L(1), L(2)]]}}, {'attr': 'b'}], 'path'),
        mk([{'call': {'args': [{'path': {'root': 'T', 'steps': [{'seg': L('a')}, {'seg': {'seq': ['list', [L(1)]]}}]}}],
                      'kwargs': []}}]),
        mk([{'item': {'one': L('a' * 1025)}}]),
        mk([{'item': {'one': L(10 ** 1024)}}]),
        mk([{'call': {'args': [{'seq': ['list', [L(i) for i in range(1025)]]}], 'kwargs': []}}]),
        mk([{'call': {'args': [{'t': {'root': 'T', 'steps': [{'item': {'one': L('a' * 600)}},
                                                             {'item': {'one': L('b' * 600)}}]}}], 'kwargs': []}}]),
        mk([{'attr': '__' + 'n' * 1030}]),
    ]
    p = os.path.join(os.path.dirname(os.path.dirname(os.path.dirname(os.path.abspath(__file__)))),
                     'corpus', 'C18.jsonl')
    if os.path.exists(p):
        for line in open(p):
            if line.strip():
                out.append(json.loads(line))
    return out


def key(case):
    return {k: v for k, v in case.items() if k != 'impl' and k != 'classes'}


def has_nested(x):
    if isinstance(x, dict):
        return (('t' in x and isinstance(x['t'], dict) and 'root' in x['t']) or 'seq' in x or 'dict' in x
                or 'sliceobj' in x or ('path' in x and isinstance(x['path'], dict) and 'root' in x['path'])
                or any(has_nested(v) for v in x.values()))
    if isinstance(x, list):
        return any(has_nested(v) for v in x)
    return False


def nontrivial(case, verdict):
    k = case['kind']
    if k == 'repr':
        o = case['obj'].get('t') or case['obj'].get('path')
        return len(o['steps']) >= 2 or has_nested(o['steps'])
    if k == 'seq':
        return len(case['steps']) >= 1
    return True


# ---------------------------------------------------------------- shrinking
ARG_KEYS = ('lit', 't', 'path', 'seq', 'dict', 'sliceobj')


def is_arg(x):
    return isinstance(x, dict) and any(k in x for k in ARG_KEYS) and 'root' not in x


def smaller_args(a):
    """smaller arguments to put in the place of `a`"""
    if 'seq' in a:
        kind, xs = a['seq']
        for j in range(len(xs)):
            yield {'seq': [kind, xs[:j] + xs[j + 1:]]}
        for x in xs:
            yield x
    elif 'dict' in a:
        kvs = a['dict']
        for j in range(len(kvs)):
            yield {'dict': kvs[:j] + kvs[j + 1:]}
        for k, v in kvs:
            yield v
    elif 'sliceobj' in a:
        for x in a['sliceobj']:
            yield x
    elif 't' in a or 'path' in a:
        kk = 't' if 't' in a else 'path'
        st = a[kk]['steps']
        for j in range(len(st)):
            yield {kk: {'root': a[kk]['root'], 'steps': st[:j] + st[j + 1:]}}
        if a[kk]['root'] != 'T':
            yield {kk: {'root': 'T', 'steps': st}}
    elif 'lit' in a:
        s = a['lit']
        if isinstance(s, dict):
            if 'i' in s and len(s['i']) > 2:
                yield {'lit': {'i': s['i'][:len(s['i']) // 2 + 1]}}
                yield {'lit': {'i': s['i'][:-1]}}
            if 's' in s and len(s['s']) > 1:
                yield {'lit': {'s': s['s'][:len(s['s']) // 2]}}
                yield {'lit': {'s': s['s'][:-1]}}
            if 'b' in s and len(s['b']) > 1:
                yield {'lit': {'b': s['b'][:len(s['b']) // 2]}}
                yield {'lit': {'b': s['b'][:-1]}}
        if s != {'i': '0'}:
            yield {'lit': {'i': '0'}}


def variants(x):
    """copies of a JSON value with one argument node replaced by a smaller one"""
    if is_arg(x):
        for y in smaller_args(x):
            yield y
    if isinstance(x, dict):
        if 'seq' in x and x['seq'][0] in ('set', 'frozenset'):
            return          # the elements of a set stay as they are (distinct, in printed order)
        if 'dict' in x and is_arg(x):
            for i, (k, v) in enumerate(x['dict']):      # … and so do the keys of a dict
                for v2 in variants(v):
                    yield {'dict': x['dict'][:i] + [[k, v2]] + x['dict'][i + 1:]}
            return
        for k, v in x.items():
            if k == 'order':
                continue
            for v2 in variants(v):
                y = {kk: vv for kk, vv in x.items() if kk != 'order'}
                y[k] = v2
                yield y
    elif isinstance(x, list):
        for i, v in enumerate(x):
            for v2 in variants(v):
                yield x[:i] + [v2] + x[i + 1:]


def buildable(case):
    try:
        build_obj(case['obj'])
        return True
    except Exception:
        return False


def shrink(case):
    base = {k: v for k, v in case.items() if k != 'impl'}
    if case['kind'] == 'repr':
        kind = 't' if 't' in case['obj'] else 'path'
        o = case['obj'][kind]
        st = o['steps']

        def mk(steps, root=o['root']):
            c = dict(base)
            c['obj'] = {kind: {'root': root, 'steps': steps}}
            return c
        cands = [mk(st[:i] + st[i + 1:]) for i in range(len(st))]
        for i, s in enumerate(st):
            if isinstance(s, dict) and 'call' in s:
                for j in range(len(s['call']['args'])):
                    s2 = {'call': {'args': s['call']['args'][:j] + s['call']['args'][j + 1:],
                                   'kwargs': s['call']['kwargs']}}
                    cands.append(mk(st[:i] + [s2] + st[i + 1:]))
                for j in range(len(s['call']['kwargs'])):
                    s2 = {'call': {'args': s['call']['args'],
                                   'kwargs': s['call']['kwargs'][:j] + s['call']['kwargs'][j + 1:]}}
                    cands.append(mk(st[:i] + [s2] + st[i + 1:]))
            if isinstance(s, dict) and 'items' in s and len(s['items']) > 1:
                for j in range(len(s['items'])):
                    s2 = {'items': s['items'][:j] + s['items'][j + 1:]}
                    cands.append(mk(st[:i] + [s2] + st[i + 1:]))
        if o['root'] != 'T':
            cands.append(mk(st, 'T'))
        for i, s in enumerate(st):
            for s2 in variants(s):
                cands.append(mk(st[:i] + [s2] + st[i + 1:]))
        for c in cands:
            if buildable(c):
                yield c
    elif case['kind'] == 'seq':
        st = case['steps']
        for i in range(len(st)):
            c = dict(base)
            c['steps'] = st[:i] + st[i + 1:]
            yield c
    else:
        for which in ('p', 'q'):
            st = case[which]
            for i in range(len(st)):
                c = dict(base)
                c[which] = st[:i] + st[i + 1:]
                yield c


def focus(disagreements, facts_changed):
    return {'focused': True}
