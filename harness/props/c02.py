"""C02 — T expressions replay the recorded operations: generators, implementation runner, shrinker.

A case is {"target": PV+, "expr": E [, "lits": [PV+…]] [, "edits": […]] [, "prebuild": {"T": steps}]}:
  PV+ tree value (lean/Glom/Py/PV.lean JSON shape): null | {"b":…} | {"i":…} | {"s":…} | {"f":hex}
      | {"l":[…]} | {"t":[…]} | {"d":[[k,v]…]} | {"set":[…]} | {"fs":[…]} | {"fn":name}
      | {"o":[cls,[[attr,v]…]]}   (cls: plain attribute objects Obj / Obj2, the probe classes Probe / PropObj /
                                   DynObj / DescObj, "slice": slice(start, stop, step), "<bound>": a bound method)
      | {"sub":[cls, PV+]}        an instance of the container SUBCLASS cls (Point, Pair, Column, MyList, Bag,
                                   OrderedDict, defaultdict, Counter, MySet, FSet) with that content
      | {"tobj": E} | {"specobj": E} | {"valobj": PV+}   a glom T expression / Spec(…) / Val(…) object stored as DATA
  lits   the literal HEAP OBJECTS of the expression ({"hl": i} in E): instances of container subclasses /
         catalogue classes — each ONE object of the spec, passed through literally, whatever it contains
  edits  [[root, path], step, [root, path]]…: after decoding, the member `step` of the container at the first
         place becomes THE OBJECT at the second place (root "T": the target, ["L", i]: literal object i) —
         the target is a GRAPH when the evaluation starts (objects reachable by several paths, cycles)
  shared [E…]: argument objects built ONCE per expression; {"sh": i} in E is that very object at every use (the
         same T object as argument of two operations: evaluated each time its operation is reached)
  E   {"lit":PV} | {"hl":i} | {"sh":i} | {"T":[[dunder,E]…]} | {"Spec":E} | {"list":[E…]} | {"tuple":[E…]}
      | {"dict":[[E,E]…]} | {"set":[E…]} | {"fset":[E…]} | {"call":{"args":[E…],"kwargs":[[name,E]…]}}
run_impl builds the real objects from the case (build_world), hands the driver the OBJECT GRAPH as it is before
the evaluation (g_heap / g_target / g_lits: cells with class names, addresses), runs glom.glom(target,
T-expression) and — independently, on a fresh copy of the world — applies the same chain of operations directly
with Python's own operators (arguments evaluated when their operation is reached; a call is a plain Python call
whose callee is first passed through the reference arg_val: a spec object found in the data is evaluated).  Both
legs report the object graph reachable from [result, target, literal objects…] and from [target, target,
literal objects…] afterwards, addresses renumbered in first-visit order (GEnc / obs_graph; Lean: `canon`):
value, identity of the result, sharing, cycles, what the recorded calls did to the target AND to the literal
objects of the spec are all in it.  Objects whose identity Python programs cannot rely on (exact tuples and
frozensets, bound methods, dict views, slices) are expanded at every occurrence.
"""
import collections
import json
import operator
import os
import random
import warnings

from harness import pyobjs

PROP = 'C02'
LEAN_MODULES = ['Glom.Props.C02']
FACT_FILES = ['TFacts', 'ExcFacts', 'C02Facts']
READY = True
MANIFEST = dict(
    text="Lean 4 theorems, for every value type, every state type and every primitive semantics `prim` of getattr/subscription/arithmetic/calls — each operation takes a state and returns the state it leaves, so calls may CHANGE the target — (a parameter, so the statement is about glom's record-and-replay logic), every target, every start state (any object graph: sharing, cycles) and every T expression of any length and nesting of T / Spec(T) / list / tuple / dict / set / frozenset arguments and literal objects of any other type: `_t_eval` on the object recorded by the TType overloads (flat tuple, index stepping by 2, branch table, arg_val on every argument INSIDE the loop against the original target object in its current state, the recorded (args, kwargs) of a call handed unevaluated to Call, which passes the callee through arg_val, evaluates arguments / keyword arguments once and calls) equals the chain of operations applied directly, left to right, as a pair (outcome, state left) — also when it ends with an error — where the callee of a call is first passed through arg_val (`c02_replay_reval`, NO hypothesis on the primitives: a glom spec object found in the target's data and used as callee is evaluated against the target, may fail with the position of its own chain, may change the state); under `PlainCallee` (arg_val returns the callee: it is not such an object) that is plain Python (`c02_replay`); a literal argument that is an instance of a SUBCLASS of a builtin container (namedtuple, defaultdict, OrderedDict, Counter, a user's list type) reaches the operation as the very object, nothing in it evaluated, nothing built, state untouched (`c02_literal_by_reference`) — because the type tests of `_ArgValuator.mode` are EXACT tests naming exactly list / dict / tuple / set / frozenset, part of the facts obligation (`argModeOk`, extracted by extract/facts/c02.py; with `isinstance` tests the model rebuilds the argument: `c02_isinstance_counterexample`); the first failing attribute/item/arithmetic step is PathAccessError(position) — for an arithmetic step whatever the right operand is, for TypeError, ZeroDivisionError, OverflowError and ValueError; the facts obligation demands that the branch's `except` clause covers these four (by the class or a base class, decided on the exception table extracted from Python) with a handler that converts unconditionally, `c02_conditional_handler_counterexample` —, a failing call keeps its class (`c02_error_classes`); an argument — any argument expression — is evaluated on the original target object in the state left by the operations before it (`c02_args_from_root`; a subclass-instance literal IS the operand: `c02_subclass_literal_operand`; for a call: the callee through arg_val, then the arguments, then the call: `c02_call_order`); evaluating all arguments in front of the loop is NOT equivalent (`c02_hoisted_args_counterexample`), nor is keeping the value an argument OBJECT had at its first use when the same T object is the argument of two operations (`c02_arg_memo_counterexample`); the callee of a recorded call receives the very objects its arguments evaluate to, each evaluated exactly once (`c02_call_by_reference`, `c02_args_evaluated_once`; the code shape before /repo commit db9b8f7, a second arg_val pass, does not replay: `c02_second_pass_counterexample`); per-run facts obligation `c02_facts_wf` by `decide` on the tables regenerated from /repo: every op char recorded by a TType overload has a `_t_eval` branch performing the operation its dunder denotes (no recorded operation is dropped). For the executable kernel (`hPrim`: heap cells with class names and identity; properties / __getattr__ / descriptors, slices, dict views, str methods, sets, every operator) `c02_replay_heap`, and `c02_heap_callee_plain`: arg_val returns every callee that is neither a spec object nor an exact builtin container. Model tied to the code by a three-way differential check: real glom vs the same chain applied with Python's own operators vs the compiled Lean model/reference, comparing the OBJECT GRAPH reachable from [result, target, literal objects of the spec] (addresses renumbered in first-visit order: value, identity of the result, sharing, cycles) and the graph left behind.",
    note="trusted: Lean kernel + {propext, Classical.choice, Quot.sound}; extractor (TType overloads, _t_eval branch table, except clauses, part_idx expression, the type tests of _ArgValuator.mode); harness/driver; Python's primitive semantics is a theorem parameter, its executable instance (Glom/Model/C02Heap.lean on top of C02Prim.lean: a heap of list/tuple/dict/set/object cells with class names and identity — instances of container subclasses are cells of the same layouts —, slice / bound-method / dict-view / stored T, Spec, Val cells, list.pop/append, dict.pop/setdefault/get/keys/values/items, set operators and add/discard/union, 15 str methods, properties / __getattr__ / descriptors of three probe classes, floor division, two's-complement bit ops, IEEE true division, slices for all Option-Int triples, a catalogue of callables incl. list() / tuple()) is validated on every case against CPython itself, including the final object graph; `c02_replay` (plain Python) needs hypothesis `PlainCallee`, counter-example kept as theorem `c02_callee_eval_counterexample`; `c02_replay_reval` states what glom does for every callee and the correspondence is run against THAT reference (the callee of a call is first passed through the reference arg_val, in Lean and in the Python leg); the exemption `if op != '('` of the loop is a hard-coded character in the model, tied to the extracted branch table by the facts obligation `callCharOk`; reading §6.1 (a failing call keeps its exception class; a failing nested T argument / a failing spec-object callee reports its own position); S/A roots, Path segments and wildcards are other properties.",
    technique='Lean 4 refinement proof (flat ops loop + arg_val recursion = direct application of the operator chain, generic in the primitive semantics and in the callee re-evaluation) + facts obligations by decide (branch table, exception table, type tests of _ArgValuator.mode) + three-way differential correspondence on object graphs',
    ref='DESIGN.md §3 C02, §6.1')
RULE = ('type-directed: a nested target (dict / list / tuple / attribute objects / str / int / bool / None / '
        'catalogue callables; with some probability also a probe object, tuple-keyed dicts, instances of container '
        'subclasses, sets / frozensets, objects with properties / __getattr__ / descriptors, the builtins list / '
        'tuple, a glom T / Spec object stored as data) is generated first and — one case in four — made a GRAPH by '
        '1-2 sharing edits (the member of a container becomes an object the target already has elsewhere: two paths '
        'to one object, or a cycle); the chain is then grown step by step, each step chosen '
        'among the operations valid for the type of the value reached so far (computed by applying the '
        'step with Python itself): .attr, [key], [index], [slice] (bounds absent / inside / at / beyond either end / '
        '±10**20 / bools, steps ±1 ±2 ±3 ±n ±10**20), (call) of catalogue functions and '
        'builtin methods (str: upper lower strip lstrip rstrip split join replace find count index startswith '
        'endswith isdigit capitalize; list: count index pop append; dict: get pop setdefault keys values items; '
        'set: add discard union), + - * / // % ** & | ^ ~ neg on numbers, sequences, sets and dicts; '
        'arguments are literals or — with probability ~0.3 — '
        'nested T / Spec(T) expressions (or list/tuple/dict/set literals containing them) drawn from an index '
        'of the access paths of the ORIGINAL target that yield a value of the needed type; a list / tuple / dict '
        'literal is — probability 0.12 — an INSTANCE OF A CONTAINER SUBCLASS with that content (one literal object of '
        'the spec, sometimes holding a T object); depth <= 6 '
        '(quick) / <= 9 (thorough). A one-edit mutation stream replaces the step at every position by a '
        'failing one (missing key/attr, index out of range / beyond Py_ssize_t, a slice with a str / float / zero '
        'field, wrong operand type, zero divisor, 0 ** -1, '
        'calling a non-callable, wrong arity, a called function raising Key/Value/Type/ZeroDivision/'
        'Attribute/IndexError, a property / __getattr__ / descriptor raising AttributeError or another class, '
        'a failing nested T argument, an unhashable key in a dict argument). '
        'SUBCLASS-LITERAL STREAM (a quarter of the cases): every catalogue class (namedtuple, tuple / list / dict '
        'subclasses with their own constructor signature, plain list subclass, OrderedDict, defaultdict, Counter, '
        'set / frozenset subclasses) x every argument position — index (of a probe that returns its argument itself; '
        'of a tuple-keyed dict), positional / keyword / repeated call argument of the identity and list-making '
        'functions, right operand of every operator (probe; list + / tuple + / dict |), argument of a builtin method '
        '(append / setdefault store it in the target), member of a list / dict / tuple literal, a literal holding a T '
        'object — followed by 0-3 operations on the result (mutation THROUGH the returned object shows in the literal). '
        'Calls that change the target (list.pop([i]) / append(x), dict.pop(k[, d]) / setdefault(k, v), set.add / '
        'discard) are '
        'ordinary steps; after one, the index of access paths is rebuilt so that later nested arguments read '
        'the changed containers; templates T[l].pop() <op> T[l][i], … + len(T[l]), dict pop / setdefault then a '
        'read of the same key; thorough: every (list op) x (later nested read) x (outer operator) on a small '
        'list. SHARING templates: one list under two paths (changed through one, read through the other), a list '
        'containing itself, a dict reaching the root / itself, a list shared between a tuple and a dict, an object '
        'reachable twice. SPEC-CALLEE templates: T[g](args) with target[g] one of 32 spec objects (T… evaluating to a '
        'function / bound method / non-callable / failing at position 0 or 1 / calling / changing the target, Spec(T…), '
        'Val(x), a list / tuple holding a T, a T whose own chain calls through another stored T) x literal / nested / '
        'failing / target-changing arguments. VIEW templates: list() / tuple() / len() over live dict views taken '
        'before the dict changes, over strs / lists / dicts; str.join over lists / dicts / views; sets. '
        'SHARED-ARGUMENT objects: the equal nested T arguments of a generated expression become — per group, '
        'probability 1/2 — ONE object of the spec used at every place ({"sh": i}; a user writes k = T[...] once '
        'and uses k twice); templates: an argument object R that reads the last element / the length / a cursor '
        'cell, used as index / operand / call argument / list member / inside another shared object before AND '
        'after a call M (in the chain or inside a later argument) that pops / appends / moves the cursor, incl. a '
        'second use that fails only after M. '
        'Reference templates: the identity / mklist / kw catalogue functions called with containers of '
        'the target (the result must BE the target\'s object), mutation through the returned '
        'argument followed by a read of the same container, a T object stored in the target passed as '
        '(keyword) argument or inside a list argument (must come back as that object). '
        'Non-callable callee templates: T[f](args…) with target[f] an int / str / None / float / list / tuple / '
        'dict / attribute object (or the target itself) x fine / failing / target-changing nested T arguments, '
        'positional and keyword, in every order (the arguments are evaluated before the call finds out that '
        'the value cannot be called); the same as a one-edit mutation at every position. '
        'Numbers of every type: targets carry floats (0.0, -0.0, 1.5, 1e308 …), a zero of some numeric type '
        '(0 / False / 0.0 / -0.0), a mostly negative exponent and sometimes an int beyond the range of a double; '
        'valid steps include int <op> float, float // % **, int ** negative. FAILING-ARITHMETIC STREAM (a fifth '
        'of the cases, and 45% of the one-edit mutations on a number): the failing step is chosen by the CLASS '
        'of error the plain Python operation raises on the value reached, for every class each operator can '
        'raise on the modelled types — ZeroDivisionError (/ // % by a zero of any numeric type; ** of a zero '
        'int / bool / float / -0.0 base to a negative int or float power: a non-zero right operand), TypeError '
        '(foreign operand types, & | ^ ~ on floats, str % with too few / wrong arguments), OverflowError (float ** '
        'big, an int beyond 2**1024 meeting a float on either side, int / int beyond the range of a double, '
        'int ** negative with such a base, seq * an int beyond Py_ssize_t, "%c" % big), ValueError (str % x with a '
        'malformed format) — with a literal or (probability 1/2) nested T / Spec(T) right operand read from the '
        'original target; when the value reached cannot fail that way, one valid step in front makes it suitable '
        '(x * 0, x + 10**400, s + "%"); the case is kept only when the chain applied directly in Python fails '
        'at the intended position; operations behind the failing one are never reached. A sample of the grid '
        'operator x left type x right type (int, bool, float, str, list, tuple, set, frozenset, dict, None; empty and '
        'non-empty); thorough: the whole grid (10 x 16 x 16, literal and nested-T right operand, both unary '
        'operators), every subclass-literal class x position x follow-up, every '
        'binary operator x 14 left operands x 16 right operands (zeros, negative / big exponents, huge ints, '
        'foreign types) with literal and nested-T right operand. '
        'non-trivial = at least two operations, or a failing chain, or a nested T argument, or a literal heap '
        'object, or a shared / cyclic target; '
        'distinct = distinct (target, edits, literal objects, expression)')
TRUSTED = ['Glom/Model/C02Heap.lean + C02Prim.lean (executable instance of the primitive semantics) is validated against '
           'CPython on every generated case (third leg of the comparison), not verified',
           'strings are ASCII; floats are compared by float.hex(); + - * / and unary minus on floats, int / int and '
           'float(int) for ints of any size (round-half-even by integer arithmetic), exact powers of two are '
           'reproduced bit for bit; for float // %, x ** y through libm pow the kernel decides the CLASS of the '
           'outcome (a float / ZeroDivisionError / OverflowError / TypeError) and returns an opaque float that '
           'matches any float (observations are compared modulo opaque floats; the property itself is then '
           'evaluated against Python\'s own result); x / opaque, opaque ** x, x ** opaque, a power within 0.01 of '
           'the overflow threshold in log2, complex results, inf / nan operands of **, str % x, iteration order of '
           'sets with more than one member, set operators over members equal across types (True / 1), dict | with a '
           'dict subclass, missing keys of defaultdict, attributes of instances of container subclasses other than '
           'namedtuple fields, any operation ON a stored T / Spec object (it records a new expression) are outside the '
           'kernel (the property is still evaluated, against Python\'s own result)',
           'the observation is the object graph in canonical numbering; exact tuples, exact frozensets, bound methods, '
           'dict views and slices are expanded per occurrence (CPython reuses such objects: t[:] is t, t + () is t, () '
           'is shared): their identity is not compared',
           'the extractor lists a class of an `except` clause of _t_eval only when the handler\'s whole body is '
           '`pae = PathAccessError(e, Path(_t), <position>)`; it recognises the type tests `type(spec) in (…)`, '
           '`type(spec) is / == X`, `isinstance(spec, X | (…))` and `or` of them in `_ArgValuator.mode`']
ASSUMPTIONS = ['T-rooted expressions; S/A roots are C07, Path segments C01, wildcards C14',
               'Spec arguments wrap T expressions; Call/other spec objects as arguments are outside the fragment; a spec '
               'object found in the target and used as CALLEE: T…, Spec(T…), Val(x) are modelled (evaluated against the '
               'target, as glom does — plain Python would call the object: `c02_callee_eval_counterexample`), others are '
               'outside the fragment',
               'a literal exact list / dict of the spec is a tree (`_ArgValuator.cache`, which keeps sharing and cycles '
               'INSIDE one rebuilt literal, is modelled in the Python reference leg only)',
               'reading DESIGN §6.1: an exception raised by a called function keeps its class; '
               'a failing nested T argument / a failing spec-object callee surfaces with its own position']

warnings.simplefilter('ignore', DeprecationWarning)

# ---------------------------------------------------------------- catalogue of callables


def inc(x):
    return x + 1


def add2(a, b):
    return a + b


def neg(x):
    return -x


def ident(x):
    return x


def kw(a, b=10):
    return a - b


def mklist(*args):
    return list(args)


def const7():
    return 7


def raise_value(*a, **k):
    raise ValueError('boom')


def raise_key(*a, **k):
    raise KeyError('boom')


def raise_type(*a, **k):
    raise TypeError('boom')


def raise_zero(*a, **k):
    raise ZeroDivisionError('boom')


def raise_attr(*a, **k):
    raise AttributeError('boom')


def raise_index(*a, **k):
    raise IndexError('boom')


FUNCS = {f.__name__: f for f in [inc, add2, neg, ident, kw, mklist, const7, raise_value, raise_key,
                                 raise_type, raise_zero, raise_attr, raise_index, len]}
# the builtin constructors list / tuple are catalogue callables too (iteration of views, sets, strs);
# they are offered by templates only (XFUNCS), not by the random target generator
XFUNCS = {'list': list, 'tuple': tuple}
FUNC_NAME = {id(f): n for n, f in list(FUNCS.items()) + list(XFUNCS.items())}
ALLFUNCS = dict(FUNCS, **XFUNCS)
RAISERS = ['raise_value', 'raise_key', 'raise_type', 'raise_zero', 'raise_attr', 'raise_index']
METHODS = {'str': ['upper', 'count', 'index', 'startswith'], 'list': ['count', 'index', 'pop', 'append'],
           'tuple': ['count', 'index'], 'dict': ['get', 'pop', 'setdefault']}
MUTATORS = ('pop', 'append', 'setdefault', 'add', 'discard')
# calls that change the target: the Lean model threads the target's state through the replay
# (Model/C02.lean: every function takes and returns the state; Model/C02Heap.lean: values with
# object identity in a heap)
STATEFUL = True

# ---------------------------------------------------------------- catalogue of classes
# instances of SUBCLASSES of the builtin containers (literal arguments of these types must reach the
# operation as the very object), and probe classes for Python's attribute protocol

Point = collections.namedtuple('Point', 'x y')


class Pair(tuple):
    """a tuple subclass whose constructor does not take an iterable"""
    def __new__(cls, a, b):
        return tuple.__new__(cls, (a, b))


class Column(list):
    """a list subclass with its own constructor signature and an instance attribute"""
    def __init__(self, name, values=()):
        list.__init__(self, values)
        self.name = name


class MyList(list):
    pass


class Bag(dict):
    """a dict subclass with its own constructor signature"""
    def __init__(self, tag, entries=()):
        dict.__init__(self, entries)
        self.tag = tag


class MySet(set):
    pass


class FSet(frozenset):
    pass


class Probe:
    """subscription and every binary operator return the right operand ITSELF (and remember it):
    the identity of an argument is observable"""
    def __init__(self, **kw):
        self.__dict__.update(kw)

    def __getitem__(self, k):
        self.last = k
        return k

    def _op(self, o):
        self.last = o
        return o
    __add__ = __sub__ = __mul__ = __truediv__ = __floordiv__ = __mod__ = __pow__ = _op
    __and__ = __or__ = __xor__ = _op


class PropObj:
    """properties: computed, and raising each class of error"""
    def __init__(self, **kw):
        self.__dict__.update(kw)
    p_ok = property(lambda self: self.a)

    @property
    def p_attr(self):
        raise AttributeError('p_attr')

    @property
    def p_val(self):
        raise ValueError('p_val')

    @property
    def p_key(self):
        raise KeyError('p_key')

    @property
    def p_zero(self):
        raise ZeroDivisionError('p_zero')


class DynObj:
    """__getattr__: consulted only when normal lookup fails"""
    def __init__(self, **kw):
        self.__dict__.update(kw)

    def __getattr__(self, name):
        if name.startswith('dyn_'):
            return name[4:]
        if name == 'boom':
            raise ValueError(name)
        if name == 'lookup':
            raise KeyError(name)
        raise AttributeError(name)


class _DataDesc:
    def __get__(self, obj, cls):
        return obj.a

    def __set__(self, obj, v):      # a data descriptor: wins over the instance dict
        raise AttributeError('read-only')


class _NonDataDesc:
    def __get__(self, obj, cls):    # the instance dict wins
        return 'nd'


class _BadDesc:
    def __get__(self, obj, cls):
        raise ValueError('dbad')

    def __set__(self, obj, v):
        raise AttributeError('read-only')


class DescObj:
    d = _DataDesc()
    nd = _NonDataDesc()
    dbad = _BadDesc()

    def __init__(self, **kw):
        self.__dict__.update(kw)


INST = {c.__name__: c for c in [pyobjs.Obj, pyobjs.Obj2, Probe, PropObj, DynObj, DescObj]}
INST_TYPES = tuple(INST.values())
# container subclasses: name -> (base layout, constructor from the content of the base type)
SUBCLS = {
    'Point': ('tuple', lambda xs: Point(*xs)),
    'Pair': ('tuple', lambda xs: Pair(*xs)),
    'Column': ('list', lambda xs: Column('c', xs)),
    'MyList': ('list', MyList),
    'Bag': ('dict', lambda d: Bag('t', d)),
    'OrderedDict': ('dict', collections.OrderedDict),
    'defaultdict': ('dict', lambda d: collections.defaultdict(const7, d)),
    'Counter': ('dict', lambda d: collections.Counter(d)),
    'MySet': ('set', MySet),
    'FSet': ('frozenset', FSet),
}
SUBTYPES = {'Point': Point, 'Pair': Pair, 'Column': Column, 'MyList': MyList, 'Bag': Bag,
            'OrderedDict': collections.OrderedDict, 'defaultdict': collections.defaultdict,
            'Counter': collections.Counter, 'MySet': MySet, 'FSet': FSet}
SUBNAME = {t: n for n, t in SUBTYPES.items()}
BASE_TYPES = {'list': list, 'tuple': tuple, 'dict': dict, 'set': set, 'frozenset': frozenset}


def is_heap_literal(v):
    """a literal that is ONE object of the expression (not spelled structurally): an instance of a
    container subclass or of a catalogue class"""
    return type(v) in SUBNAME or isinstance(v, INST_TYPES)


# ---------------------------------------------------------------- tree codec (case input)
# PV+ : the PV shapes, plus (Python side only; the driver receives the object graph, see GEnc)
#   {"sub": [cls, PV+]}   an instance of the container subclass `cls` with the content PV+ (of the base type)
#   {"set": [..]} / {"fs": [..]}
#   {"tobj": E} / {"specobj": E} / {"valobj": PV+}   a glom T expression / Spec(T…) / Val(x) object stored as DATA


def dec(j):
    if j is None:
        return None
    if 'b' in j:
        return j['b']
    if 'i' in j:
        return j['i']
    if 's' in j:
        return j['s']
    if 'f' in j:
        return float.fromhex(j['f'])
    if 'l' in j:
        return [dec(x) for x in j['l']]
    if 't' in j:
        return tuple(dec(x) for x in j['t'])
    if 'd' in j:
        return {dec(k): dec(v) for k, v in j['d']}
    if 'set' in j:
        return {dec(x) for x in j['set']}
    if 'fs' in j:
        return frozenset(dec(x) for x in j['fs'])
    if 'fn' in j:
        return ALLFUNCS[j['fn']]
    if 'sub' in j:
        cls, inner = j['sub']
        return SUBCLS[cls][1](dec(inner))
    if 'tobj' in j:
        return build_arg(j['tobj'], [])
    if 'specobj' in j:
        from glom import Spec
        return Spec(build_arg(j['specobj'], []))
    if 'valobj' in j:
        from glom.core import Val
        return Val(dec(j['valobj']))
    if 'sent' in j:
        return tobjs()[j['sent']]            # (corpus cases of earlier rounds) a T object by its repr
    if 'o' in j:
        cls, attrs = j['o']
        if cls == 'slice':
            a = dict((k, dec(v)) for k, v in attrs)
            return slice(a['start'], a['stop'], a['step'])
        if cls == '<bound>':
            a = dict((k, dec(v)) for k, v in attrs)
            return getattr(a['self'], a['name'])
        o = INST[cls].__new__(INST[cls])
        for k, v in attrs:
            o.__dict__[k] = dec(v)
        return o
    raise ValueError('cannot decode %r' % (j,))


_TOBJS = {}


def tobjs():
    """the T objects of the corpus cases of earlier rounds, by their repr"""
    if not _TOBJS:
        from glom import T
        for t in (T['b'], T['n'], T['l'][0], T['zz']):
            _TOBJS[repr(t)] = t
    return _TOBJS


_CHAR_DUNDER = {}


def char_dunder():
    """op character -> dunder, read off what the TType overloads record"""
    if not _CHAR_DUNDER:
        from glom import T
        for d in KIND:
            if d == '__getattr__':
                t = T.a
            elif d == '__getitem__':
                t = T[0]
            elif d == '__call__':
                t = T()
            elif d == '__invert__':
                t = ~T
            elif d == '__neg__':
                t = -T
            else:
                t = BIN[d](T, 1)
            _CHAR_DUNDER[t.__ops__[1]] = d
    return _CHAR_DUNDER


def e_of_obj(a):
    """the expression E that denotes the argument object `a` of a stored T expression"""
    from glom import Spec
    if type(a).__name__ == 'TType':
        return {'T': steps_of_ops(a.__ops__)}
    if type(a) is Spec:
        return {'Spec': e_of_obj(a.spec)}
    if type(a) is list:
        return {'list': [e_of_obj(x) for x in a]}
    if type(a) is tuple:
        return {'tuple': [e_of_obj(x) for x in a]}
    if type(a) is dict:
        return {'dict': [[e_of_obj(k), e_of_obj(v)] for k, v in a.items()]}
    return {'lit': enc(a)}


def steps_of_ops(ops):
    cd = char_dunder()
    steps = []
    for i in range(1, len(ops), 2):
        d = cd[ops[i]]
        a = ops[i + 1]
        if d == '__call__':
            args, kwargs = a
            steps.append([d, {'call': {'args': [e_of_obj(x) for x in args],
                                       'kwargs': [[k, e_of_obj(v)] for k, v in kwargs.items()]}}])
        elif d in UNARY:
            steps.append([d, {'lit': None}])
        elif d == '__getattr__':
            steps.append([d, {'lit': {'s': a}}])
        else:
            steps.append([d, e_of_obj(a)])
    return steps


def set_key(v):
    """canonical member order of a set (the Lean kernel's `setCanon`)"""
    if v is None:
        return (0, 0, '')
    if isinstance(v, (bool, int, float)):
        return (1, v, '')
    if isinstance(v, str):
        return (2, 0, v)
    return (3, 0, repr(v))


def enc(v, depth=0):
    if depth > 40:
        return {'sent': '<deep>'}
    if type(v).__name__ == 'TType':
        return {'tobj': {'T': steps_of_ops(v.__ops__)}}
    if type(v).__name__ == 'Spec' and type(v).__module__.startswith('glom'):
        return {'specobj': e_of_obj(v.spec)}
    if type(v).__name__ == 'Val' and type(v).__module__.startswith('glom'):
        return {'valobj': enc(v.value, depth + 1)}
    if v is None:
        return None
    if isinstance(v, bool):
        return {'b': v}
    if isinstance(v, int):
        return {'i': v}
    if isinstance(v, str):
        return {'s': v}
    if isinstance(v, float):
        return {'f': v.hex()}
    if type(v) is list:
        return {'l': [enc(x, depth + 1) for x in v]}
    if type(v) is tuple:
        return {'t': [enc(x, depth + 1) for x in v]}
    if type(v) is dict:
        return {'d': [[enc(k, depth + 1), enc(x, depth + 1)] for k, x in v.items()]}
    if type(v) is set:
        return {'set': [enc(x, depth + 1) for x in sorted(v, key=set_key)]}
    if type(v) is frozenset:
        return {'fs': [enc(x, depth + 1) for x in sorted(v, key=set_key)]}
    if type(v) in SUBNAME:
        base = SUBCLS[SUBNAME[type(v)]][0]
        inner = BASE_TYPES[base](dict.items(v)) if base == 'dict' else BASE_TYPES[base](v)
        return {'sub': [SUBNAME[type(v)], enc(inner, depth + 1)]}
    if id(v) in FUNC_NAME:
        return {'fn': FUNC_NAME[id(v)]}
    if type(v) is slice:
        return {'o': ['slice', [['start', enc(v.start)], ['stop', enc(v.stop)], ['step', enc(v.step)]]]}
    if isinstance(v, INST_TYPES):
        return {'o': [type(v).__name__, [[k, enc(x, depth + 1)] for k, x in v.__dict__.items()]]}
    slf = getattr(v, '__self__', None)
    if slf is not None and type(v).__name__ == 'builtin_function_or_method' and not isinstance(slf, type(os)):
        return {'o': ['<bound>', [['self', enc(slf, depth + 1)], ['name', {'s': v.__name__}]]]}
    return {'sent': '<%s>' % type(v).__name__}


# ---------------------------------------------------------------- object-graph codec (what the driver sees)
class GEnc:
    """dump object graphs into heap cells (lean/Glom/Py/Json.lean `objOfJson`): every container /
    instance gets the next address at its FIRST visit, depth-first, children in their natural order
    (a dict's: key, value, key, value, …) — the canonical numbering the Lean side computes too
    (`Glom.C02.canon`).  Identity, sharing and cycles are all in the result."""

    def __init__(self, unshare=False):
        # unshare: objects whose identity Python programs cannot rely on (exact tuples and frozensets —
        # CPython returns the operand itself for t[:], t + (), t * 1 and shares () —, bound methods, dict
        # views, slices) are expanded at every occurrence (the canonical form of OBSERVATIONS)
        self.cells, self.addr, self.keep, self.unshare = [], {}, [], unshare

    def val(self, v):
        if v is None:
            return None
        t = type(v)
        if t is bool:
            return {'b': v}
        if t is int:
            return {'i': v}
        if t is str:
            return {'s': v}
        if t is float:
            return {'f': v.hex()}
        if id(v) in FUNC_NAME:
            return {'fn': FUNC_NAME[id(v)]}
        a = self.addr.get(id(v))
        if a is None:
            a = self.cell(v)
        if a is None:
            return {'sent': '<%s>' % t.__name__}
        return {'r': a}

    def open(self, v, identity=True):
        a = len(self.cells)
        self.cells.append(None)
        if identity or not self.unshare:
            self.addr[id(v)] = a
        self.keep.append(v)
        return a

    def cell(self, v):
        t = type(v)
        tn = t.__name__
        if isinstance(v, list):
            a = self.open(v)
            self.cells[a] = {'k': 'list', 'c': 'list' if t is list else tn, 'v': [self.val(x) for x in list.__iter__(v)]}
        elif isinstance(v, tuple):
            a = self.open(v, t is not tuple)
            self.cells[a] = {'k': 'tuple', 'c': 'tuple' if t is tuple else tn, 'v': [self.val(x) for x in tuple.__iter__(v)]}
        elif isinstance(v, dict):
            a = self.open(v)
            self.cells[a] = {'k': 'dict', 'c': 'dict' if t is dict else tn,
                             'v': [[self.val(k), self.val(x)] for k, x in dict.items(v)]}
        elif isinstance(v, (set, frozenset)):
            a = self.open(v, t is not frozenset)
            self.cells[a] = {'k': 'set', 'c': tn, 'v': [self.val(x) for x in sorted(v, key=set_key)]}
        elif t is slice:
            a = self.open(v, False)
            self.cells[a] = self.inst('slice', [('start', v.start), ('stop', v.stop), ('step', v.step)])
        elif tn in ('builtin_function_or_method', 'method-wrapper') and getattr(v, '__self__', None) is not None \
                and not isinstance(v.__self__, type(os)):
            a = self.open(v, False)
            self.cells[a] = self.inst('<bound>', [('self', v.__self__), ('name', v.__name__)])
        elif tn in ('dict_keys', 'dict_values', 'dict_items'):
            import gc
            ds = [d for d in gc.get_referents(v) if isinstance(d, dict)]
            if not ds:
                return None
            a = self.open(v, False)
            self.cells[a] = self.inst('<view>', [('kind', tn[5:]), ('dict', ds[0])])
        elif tn == 'TType' and t.__module__.startswith('glom'):
            a = self.open(v)
            ops = v.__ops__
            # the `__ops__` tuple, its root by name
            b = len(self.cells)
            self.cells.append(None)
            root = repr(ops[0]) if len(repr(ops[0])) == 1 else '?'
            items = [{'sent': root}]
            for i in range(1, len(ops)):
                items.append(self.val(ops[i]))
            self.cells[b] = {'k': 'tuple', 'c': 'tuple', 'v': items}
            self.cells[a] = {'k': 'inst', 'c': 'TType', 'v': [['ops', {'r': b}]]}
        elif tn == 'Spec' and t.__module__.startswith('glom'):
            a = self.open(v)
            self.cells[a] = self.inst('Spec', [('spec', v.spec)])
        elif tn == 'Val' and t.__module__.startswith('glom'):
            a = self.open(v)
            self.cells[a] = self.inst('Val', [('value', v.value)])
        elif isinstance(v, INST_TYPES):
            a = self.open(v)
            self.cells[a] = self.inst(tn, list(v.__dict__.items()))
        else:
            return None
        return a

    def inst(self, cls, attrs):
        return {'k': 'inst', 'c': cls, 'v': [[n, self.val(x)] for n, x in attrs]}


def obs_graph(roots):
    g = GEnc(unshare=True)
    rs = [g.val(r) for r in roots]
    return {'roots': rs, 'cells': g.cells}


# ---------------------------------------------------------------- building the world of a case
def follow(root, path):
    cur = root
    for kind, k in path:
        if kind == 'a':
            cur = cur.__dict__[k]
        elif kind == 'i':
            cur = cur[k]
        else:
            cur = cur[dec(k)]
    return cur


def build_world(case):
    """(target, literal objects): fresh objects, decoded from the trees of the case, then the
    `edits` applied in order — [[root, path], step, [root, path]]: the member `step` of the
    container at the first place becomes THE OBJECT at the second place (root: "T" the target,
    ["L", i] literal object i): objects reachable by several paths, cycles"""
    target = dec(case['target'])
    lits = Lits(dec(x) for x in case.get('lits', []))
    lits.shared = case.get('shared', [])

    def root_of(r):
        return target if r == 'T' else lits[r[1]]
    for (r1, p1), (kind, k), (r2, p2) in case.get('edits', []):
        cont = follow(root_of(r1), p1)
        src = follow(root_of(r2), p2)
        if kind == 'a':
            cont.__dict__[k] = src
        elif kind == 'i':
            cont[k] = src
        elif kind == 'app':
            cont.append(src)
        else:
            cont[dec(k)] = src
    return target, lits


# ---------------------------------------------------------------- the chain applied directly in Python
BIN = {'__add__': operator.add, '__sub__': operator.sub, '__mul__': operator.mul,
       '__floordiv__': operator.floordiv, '__truediv__': operator.truediv, '__mod__': operator.mod,
       '__pow__': operator.pow, '__and__': operator.and_, '__or__': operator.or_,
       '__xor__': operator.xor}
KIND = {'__getattr__': 'getattr', '__getitem__': 'getitem', '__call__': 'call', '__add__': 'add',
        '__sub__': 'sub', '__mul__': 'mul', '__floordiv__': 'floordiv', '__truediv__': 'truediv',
        '__mod__': 'mod', '__pow__': 'pow', '__and__': 'and', '__or__': 'or', '__xor__': 'xor',
        '__invert__': 'invert', '__neg__': 'neg'}
UNARY = ('__invert__', '__neg__')


class DirectFail(Exception):
    def __init__(self, obs):
        self.obs = obs


def apply_op(d, cur, av):
    """the Python operation the dunder denotes, applied directly"""
    if d == '__getattr__':
        return getattr(cur, av)
    if d == '__getitem__':
        return cur[av]
    if d == '__call__':
        args, kwargs = av
        return cur(*args, **kwargs)           # a plain Python call: arguments by reference
    if d == '__invert__':
        return ~cur
    if d == '__neg__':
        return -cur
    return BIN[d](cur, av)


def build_dict(pairs):
    out = {}                  # a dict display: key, value, insert — entry by entry
    for kk, vv in pairs:
        kk, vv = kk(), vv()
        try:
            out[kk] = vv
        except Exception as ex:
            raise DirectFail({'raised': type(ex).__name__})
    return out


def build_set(ctor, items):
    try:
        return ctor(items)    # every member first, then the set is built (hashing them)
    except Exception as ex:
        raise DirectFail({'raised': type(ex).__name__})


class Lits(list):
    """the literal heap objects of one world, plus the shared argument expressions of the case"""
    shared = ()


def direct_arg(e, target, lits=()):
    if 'lit' in e:
        return dec(e['lit'])
    if 'hl' in e:
        return lits[e['hl']]      # the very object
    if 'sh' in e:
        # a shared argument OBJECT of the expression: evaluated whenever an operation that uses it is reached
        return direct_arg(lits.shared[e['sh']], target, lits)
    if 'T' in e:
        return direct_chain(e['T'], target, lits)
    if 'Spec' in e:
        return direct_arg(e['Spec'], target, lits)
    if 'list' in e:
        return [direct_arg(x, target, lits) for x in e['list']]
    if 'tuple' in e:
        return tuple(direct_arg(x, target, lits) for x in e['tuple'])
    if 'set' in e:
        return build_set(set, [direct_arg(x, target, lits) for x in e['set']])
    if 'fset' in e:
        return build_set(frozenset, [direct_arg(x, target, lits) for x in e['fset']])
    if 'dict' in e:
        return build_dict([((lambda k=k: direct_arg(k, target, lits)), (lambda v=v: direct_arg(v, target, lits)))
                           for k, v in e['dict']])
    if 'call' in e:
        return ([direct_arg(x, target, lits) for x in e['call']['args']],
                {k: direct_arg(x, target, lits) for k, x in e['call']['kwargs']})
    raise ValueError(e)


def obj_arg(a, target, cache=None):
    """the reference `arg_val` on a real argument object (of a T expression stored as data): a T / Spec(T)
    is evaluated against the target, an exact list / tuple / dict / set is rebuilt member by member (a list /
    dict that contains itself: once, as glom documents — "can contain themselves"), everything else is the
    object itself"""
    from glom import Spec
    if cache is None:
        cache = {}
    t = type(a)
    if t.__name__ == 'TType':
        return chain_of_ops(a.__ops__, target)
    if t is Spec and type(a.spec).__name__ == 'TType':
        return chain_of_ops(a.spec.__ops__, target)
    if t is list:
        if id(a) in cache:
            return cache[id(a)]
        res = cache[id(a)] = []
        res.extend([obj_arg(x, target, cache) for x in a])
        return res
    if t is tuple:
        return tuple(obj_arg(x, target, cache) for x in a)
    if t is set or t is frozenset:
        return build_set(t, [obj_arg(x, target, cache) for x in a])
    if t is dict:
        if id(a) in cache:
            return cache[id(a)]
        res = cache[id(a)] = {}
        res.update(build_dict([((lambda k=k: obj_arg(k, target, cache)), (lambda v=v: obj_arg(v, target, cache)))
                               for k, v in a.items()]))
        return res
    if t.__name__ == 'Val' and t.__module__.startswith('glom'):
        return a.value
    return a


def reval(cur, target):
    """what happens to the CALLEE of a call before its arguments are evaluated (reference `arg_val` over
    the callee): a glom T expression / Spec(T…) / Val found in the target's data and used as callee is
    evaluated against the target (an exact list / tuple / dict / set is rebuilt, evaluating the spec objects
    in it); a failure in there is the failure of that evaluation; any other object is returned as it is"""
    try:
        return obj_arg(cur, target)
    except DirectFail as f:
        raise DirectFail({'callee': f.obs})


def one_step(k, d, cur, target, argf):
    """operation number k: for a call the callee first, then the argument, then the operation"""
    if d == '__call__':
        cur = reval(cur, target)
    av = None if d in UNARY else argf()
    try:
        return apply_op(d, cur, av)
    except Exception as ex:
        raise DirectFail({'fail': {'k': k, 'kind': KIND[d], 'exc': type(ex).__name__}})


def chain_of_ops(ops, target):
    """the chain a stored T object records, applied directly"""
    cd = char_dunder()
    if repr(ops[0]) != 'T':
        raise DirectFail({'raised': '<unsupported root>'})
    cur = target
    for k in range((len(ops) - 1) // 2):
        d = cd[ops[1 + 2 * k]]
        a = ops[2 + 2 * k]
        if d == '__call__':
            argf = lambda a=a: ([obj_arg(x, target) for x in a[0]], {n: obj_arg(x, target) for n, x in a[1].items()})
        else:
            argf = lambda a=a: obj_arg(a, target)
        cur = one_step(k, d, cur, target, argf)
    return cur


def direct_chain(steps, target, lits=()):
    cur = target
    for k, (d, a) in enumerate(steps):
        # the argument is evaluated now — after the operations before it —, against the ORIGINAL
        # target object in its current state
        cur = one_step(k, d, cur, target, lambda a=a: direct_arg(a, target, lits))
    return cur


def direct_obs(expr, target, lits=()):
    """(observation, the result object or None)"""
    try:
        res = direct_chain(expr['T'], target, lits)
        return {'ok': obs_graph([res, target] + list(lits))}, res
    except DirectFail as f:
        return f.obs, None


# ---------------------------------------------------------------- building the real T expression
def build_arg(e, lits=()):
    from glom import Spec
    if 'lit' in e:
        return dec(e['lit'])
    if 'hl' in e:
        return lits[e['hl']]
    if 'sh' in e:
        built = lits.__dict__.setdefault('built', {})
        if e['sh'] not in built:
            built[e['sh']] = build_arg(lits.shared[e['sh']], lits)
        return built[e['sh']]      # the SAME object at every use
    if 'T' in e:
        return build_t(e['T'], lits)
    if 'Spec' in e:
        return Spec(build_arg(e['Spec'], lits))
    if 'list' in e:
        return [build_arg(x, lits) for x in e['list']]
    if 'tuple' in e:
        return tuple(build_arg(x, lits) for x in e['tuple'])
    if 'set' in e:
        return {build_arg(x, lits) for x in e['set']}
    if 'fset' in e:
        return frozenset(build_arg(x, lits) for x in e['fset'])
    if 'dict' in e:
        return {build_arg(k, lits): build_arg(v, lits) for k, v in e['dict']}
    raise ValueError(e)


def build_t(steps, lits=()):
    """write the expression the way a user does: with Python's operators on T"""
    from glom import T
    t = T
    for d, a in steps:
        if d == '__getattr__':
            t = getattr(t, dec(a['lit']))
        elif d == '__getitem__':
            t = t[build_arg(a, lits)]
        elif d == '__call__':
            t = t(*[build_arg(x, lits) for x in a['call']['args']],
                  **{k: build_arg(x, lits) for k, x in a['call']['kwargs']})
        elif d == '__invert__':
            t = ~t
        elif d == '__neg__':
            t = -t
        else:
            t = BIN[d](t, build_arg(a, lits))
    return t


def exc_name(e):
    for c in type(e).__mro__:
        if not c.__name__.startswith('GlomError.wrap'):
            return c.__name__
    return type(e).__name__


OBS_KEYS = ('impl', 'direct', 'impl_after', 'direct_after', 'g_heap', 'g_target', 'g_lits')


def run_impl(case):
    import glom
    from glom import GlomError, PathAccessError
    out = {k: v for k, v in case.items() if k not in OBS_KEYS}
    target, lits = build_world(case)
    # the object graph as it is before the evaluation: what the Lean side starts from
    g = GEnc()
    out['g_target'] = g.val(target)
    out['g_lits'] = [g.val(x) for x in lits]
    out['g_heap'] = g.cells
    if case.get('prebuild'):
        # a twin expression (equal-but-differently-typed literal at one position) written first in
        # the same process: what `T…` records for the second must not depend on the first
        try:
            pt, pl = build_world(case)
            glom.glom(pt, build_t(case['prebuild']['T'], pl))
        except Exception:
            pass
    spec = build_t(case['expr']['T'], lits)
    res = None
    try:
        res = glom.glom(target, spec)
    except PathAccessError as e:
        out['impl'] = {'pae': {'idx': e.part_idx, 'exc': exc_name(e.exc),
                               'glom': isinstance(e, GlomError)}}
    except Exception as e:
        out['impl'] = {'other': exc_name(e)}
    else:
        # the graph reachable from [result, target, literal objects]: value, identity of the result,
        # and what the recorded calls did to the target and to the literal objects
        out['impl'] = {'ok': obs_graph([res, target] + lits)}
    out['impl_after'] = obs_graph([target, target] + lits)
    # the same chain, applied directly with Python's own operators to a fresh copy of the world
    t2, l2 = build_world(case)
    out['direct'], dres = direct_obs(case['expr'], t2, l2)
    out['direct_after'] = obs_graph([t2, t2] + l2)
    return out


# ---------------------------------------------------------------- generators
NAMES = ['a', 'b', 'c', 'k0']
INTS = [0, 1, 2, 3, 5, 7, -1, -3, -7, 10, 12, 255, -256, 1000]
FLOATS = [0.0, -0.0, 0.5, 1.5, -2.5, 2.0, 3.0, -1.0, 0.1, 4.0, -8.0, 1e-300, 1e308, 2.0 ** 60]
ZEROS = [0, False, 0.0, -0.0]                       # zero divisors / zero bases, of every numeric type
NEGS = [-1, -2, -3, -7, -0.5, -1.0, -2.5]           # negative exponents
HUGE = [10 ** 400, -(10 ** 400), 2 ** 1024, 10 ** 310]      # ints beyond the range of a double
BIGEXP = [10000, 5000, 10 ** 6, 1e10]               # exponents that take |x| > 1 beyond the range of a double
STRS = ['abc', 'x', '', 'a.b', 'hello world', "it's", 'a"b', 'back\\slash', 'aaa']


def lit(v):
    return {'lit': enc(v)}


def gen_scalar(r):
    p = r.random()
    if p < 0.45:
        return r.choice(INTS)
    if p < 0.65:
        return r.choice(STRS)
    if p < 0.8:
        return r.choice([True, False])
    if p < 0.88:
        return None
    if p < 0.93:
        return r.choice(FLOATS)
    return r.choice([10 ** 12, -(2 ** 40), 2 ** 70])


def gen_value(r, depth):
    p = r.random()
    if depth <= 0 or p < 0.3:
        return gen_scalar(r)
    if p < 0.55:
        keys = r.sample(NAMES + [0, 1, 'x y', 'f'], r.choice([1, 2, 3, 3, 4]))
        return {k: (FUNCS[r.choice(list(FUNCS))] if k == 'f' else gen_value(r, depth - 1)) for k in keys}
    if p < 0.72:
        return [gen_value(r, depth - 1) for _ in range(r.choice([0, 1, 2, 3, 4]))]
    if p < 0.82:
        return tuple(gen_value(r, depth - 1) for _ in range(r.choice([0, 1, 2, 3])))
    if p < 0.94:
        cls = r.choice([pyobjs.Obj, pyobjs.Obj, pyobjs.Obj2])
        return cls(**{k: gen_value(r, depth - 1) for k in r.sample(NAMES, r.choice([1, 2, 3]))})
    return FUNCS[r.choice(list(FUNCS))]


def gen_target(r):
    """a root that offers several kinds of values to nested T arguments"""
    p = r.random()
    if p < 0.12:
        return gen_scalar(r)
    root = {}
    root['n'] = r.choice(INTS)
    root['m'] = r.choice(INTS + [0, 0])
    root['s'] = r.choice(STRS)
    root['x'] = r.choice(FLOATS)                    # a float
    root['z'] = r.choice(ZEROS)                     # a zero of some numeric type
    root['e'] = r.choice(NEGS + [True, 2, 0.5])     # an exponent, mostly negative
    if r.random() < 0.3:
        root['h'] = r.choice(HUGE + BIGEXP)
    root['l'] = [gen_scalar(r) for _ in range(r.choice([0, 1, 3, 4]))]
    root['t'] = tuple(r.choice(INTS) for _ in range(r.choice([0, 2, 3])))
    root['o'] = pyobjs.Obj(a=gen_value(r, 2), b=r.choice(INTS), f=FUNCS[r.choice(list(FUNCS))])
    root['d'] = gen_value(r, 2) if r.random() < 0.7 else {'a': 1, 'b': {'c': [1, 2, 3]}}
    for fn in r.sample(list(FUNCS), r.choice([2, 3, 5])):
        root[fn] = FUNCS[fn]
    if r.random() < 0.35:
        root[r.choice(RAISERS)] = FUNCS[r.choice(RAISERS)]
    # objects of the wider data model (each with some probability, so that most targets stay small)
    if r.random() < 0.3:
        root['p'] = Probe(last=None)
    if r.random() < 0.3:
        root['cells'] = {(1, 2): r.choice(STRS), (0, 0): r.choice(INTS), 'k': [1, 2]}
    if r.random() < 0.3:
        root['pt'] = r.choice([Point(r.choice(INTS), r.choice(STRS)), Pair(1, [2, 3])])
        root['col'] = r.choice([MyList, lambda v: Column('c', v)])([r.choice(INTS) for _ in range(r.choice([0, 2, 3]))])
        root['od'] = r.choice([collections.OrderedDict, lambda d: Bag('t', d), collections.Counter,
                               lambda d: collections.defaultdict(const7, d)])({'a': 1, 'b': r.choice(INTS[:8])})
    if r.random() < 0.25:
        root['st'] = r.choice([{1, 2, 3}, {'a', 'b'}, set(), {1, 'a', None}, {0, True}])
        root['fs'] = r.choice([frozenset([1, 2]), frozenset(), frozenset(['a', 3])])
    if r.random() < 0.25:
        root['po'] = PropObj(a=r.choice(INTS), b=r.choice(STRS))
        root['dy'] = DynObj(a=r.choice(INTS), dyn_a=1)
        root['de'] = DescObj(a=r.choice(INTS), nd=r.choice(STRS)) if r.random() < 0.5 else DescObj(a=[1, 2])
    if r.random() < 0.2:
        for fn in ('list', 'tuple'):
            root[fn] = XFUNCS[fn]
    if r.random() < 0.15:
        # glom spec objects stored as DATA (as arguments they come back as they are; as CALLEE they are
        # passed through arg_val: evaluated against the target)
        from glom import T, Spec
        root['g'] = r.choice([T['ident'], T['o'].f, Spec(T['ident']), T['mklist'], T['zz'], T['n'], T['o'].zz,
                              T['d']['a'], T['l'].pop, T['l'].append])
        root.setdefault('ident', ident)
        root.setdefault('mklist', mklist)
    if p < 0.3:
        return pyobjs.Obj(**{k: v for k, v in root.items()})
    if p < 0.4:
        return [root['n'], root['s'], root['l'], root['d'], root['x'], root['z'], root['e']]
    return root


def container_paths(target, maxdepth=3):
    """[(path, object)] of the objects of the target that have identity, by a path of edit steps"""
    out = []

    def walk(v, path, depth):
        if isinstance(v, (list, dict, set)) or type(v) in (pyobjs.Obj, pyobjs.Obj2):
            out.append((path, v))
        if depth >= maxdepth:
            return
        if isinstance(v, dict) and type(v) is not collections.defaultdict:
            for k, x in list(dict.items(v)):
                if type(k) in (int, str):
                    walk(x, path + [['k', enc(k)]], depth + 1)
        elif isinstance(v, (list, tuple)):
            for i, x in enumerate(v[:5]):
                walk(x, path + [['i', i]], depth + 1)
        elif type(v) in (pyobjs.Obj, pyobjs.Obj2):
            for k, x in v.__dict__.items():
                walk(x, path + [['a', k]], depth + 1)
    walk(target, [], 0)
    return out


def share_edits(r, target, n=None):
    """make the target a GRAPH: the member of a container becomes an object the target already has
    somewhere else — an object reachable by two paths, or (the source is an ancestor) a cycle.  The edits
    are applied to `target` and returned (build_world replays them)."""
    edits = []
    for _ in range(n if n is not None else r.choice([1, 1, 2])):
        cps = container_paths(target)
        conts = [(p, c) for p, c in cps if isinstance(c, (list, dict)) or type(c) in (pyobjs.Obj, pyobjs.Obj2)]
        if not conts or not cps:
            break
        cp, cont = r.choice(conts)
        sp, src = r.choice(cps)
        if isinstance(cont, list):
            if cont and r.random() < 0.5:
                step = ['i', r.randrange(len(cont))]
                cont[step[1]] = src
            else:
                step = ['app', None]
                cont.append(src)
        elif isinstance(cont, dict):
            k = r.choice([k for k in cont if type(k) in (int, str)] + ['sh', 'sh'])
            step = ['k', enc(k)]
            cont[k] = src
        else:
            k = r.choice(list(cont.__dict__) + ['sh', 'sh'])
            step = ['a', k]
            cont.__dict__[k] = src
        edits.append([['T', cp], step, ['T', sp]])
    return edits


def gen_world(r, share_p=0.25):
    """(target object, its tree as generated, the sharing edits applied to it afterwards)"""
    target = gen_target(r)
    tj = enc(target)
    edits = share_edits(r, target) if r.random() < share_p else []
    return target, tj, edits


def sources(target, maxdepth=3):
    """[(steps, value)] for the access paths of the target (getitem / getattr only); the target may be any
    graph (sharing, cycles): the depth is bounded"""
    out = []

    def walk(v, steps, depth):
        out.append((steps, v))
        if depth >= maxdepth:
            return
        if isinstance(v, dict):
            if type(v) is collections.defaultdict:
                return
            for k, x in list(dict.items(v)):
                if type(k) in (int, str, bool, tuple, type(None)):
                    walk(x, steps + [['__getitem__', lit(k)]], depth + 1)
        elif isinstance(v, (list, tuple)):
            for i, x in enumerate(v[:4]):
                walk(x, steps + [['__getitem__', lit(i)]], depth + 1)
        elif type(v) in (pyobjs.Obj, pyobjs.Obj2, Probe):
            for k, x in v.__dict__.items():
                walk(x, steps + [['__getattr__', lit(k)]], depth + 1)
    walk(target, [], 0)
    return out


def is_int(v):
    return isinstance(v, int)


def is_intnb(v):
    return isinstance(v, int) and not isinstance(v, bool)


def is_num(v):
    return isinstance(v, (int, float))


def is_finite(v):
    return isinstance(v, int) or (isinstance(v, float) and v == v and abs(v) != float('inf'))


def sub_variant(r, v):
    """an instance of a container SUBCLASS with the content of the exact list / tuple / dict `v`
    (None when no catalogue class fits)"""
    if type(v) is list:
        return r.choice([MyList(v), Column('c', v)])
    if type(v) is tuple:
        if len(v) == 2:
            return r.choice([Point(*v), Pair(*v)])
        return None
    if type(v) is dict:
        opts = [collections.OrderedDict(v), Bag('t', v), collections.defaultdict(const7, v)]
        if all(type(x) is int for x in v.values()):
            opts.append(collections.Counter(v))
        return r.choice(opts)
    return None


class Gen:
    def __init__(self, r, target, nested_p=0.3, sub_p=0.12):
        self.r = r
        self.target = target
        self.src = sources(target)
        self.nested_p = nested_p
        self.sub_p = sub_p           # probability that a container literal is an instance of a subclass
        self.nested_used = False
        self.lits = Lits()           # the literal heap objects of the expression (the generator's own)
        self.lits.shared = []        # shared argument expressions ({"sh": i})
        self.lit_encs = []           # … as they were when they were written

    def hlit(self, obj):
        """the literal `obj` as ONE object of the expression: {"hl": i}"""
        self.lits.append(obj)
        self.lit_encs.append(enc(obj))
        return {'hl': len(self.lits) - 1}

    def value(self, e):
        """the value of an argument expression now (the generator applies every step for real)"""
        return direct_arg(e, self.target, self.lits)

    def case(self, tj, steps, **extra):
        c = {'target': tj, 'expr': {'T': steps}}
        if getattr(self, 'edits', None):
            c['edits'] = self.edits
        if self.lit_encs:
            c['lits'] = list(self.lit_encs)
        if self.lits.shared:
            c['shared'] = list(self.lits.shared)
        c.update(extra)
        return c

    def share(self, e):
        """the argument expression `e` as ONE object of the spec, usable at several places: {"sh": i}"""
        self.lits.shared.append(e)
        return {'sh': len(self.lits.shared) - 1}

    def arg(self, pred, literal):
        """an argument expression whose value satisfies `pred`: a nested T / Spec(T) over the
        original target when one exists (probability nested_p), else the given literal"""
        r = self.r
        if r.random() < self.nested_p:
            cands = [s for s, v in self.src if pred(v)]
            if cands:
                self.nested_used = True
                e = {'T': r.choice(cands)}
                q = r.random()
                if q < 0.15:
                    return {'Spec': e}
                return e
        return self.container(literal)

    def container(self, v):
        """encode a literal; list / tuple / dict literals are spelled structurally and may
        get one member replaced by a nested T with the same value — or (probability sub_p) the literal
        is an instance of a container SUBCLASS with that content: one object of the expression, passed
        through literally, whatever it contains (sometimes a T object: it stays unevaluated)"""
        r = self.r
        if is_heap_literal(v):
            return self.hlit(v)
        if type(v) in (list, tuple, dict) and r.random() < self.sub_p:
            w = v
            if r.random() < 0.2 and v:
                from glom import T
                t = r.choice([T['n'], T['l'], T['zz'], T])
                if type(v) is list:
                    w = [t] + v[1:]
                elif type(v) is tuple:
                    w = (v[0], t) if len(v) == 2 else v
                else:
                    w = dict(v)
                    w[next(iter(w))] = t
            sv = sub_variant(r, w)
            if sv is not None:
                return self.hlit(sv)
        if type(v) is list:
            return {'list': [self.member(x) for x in v]}
        if type(v) is tuple:
            return {'tuple': [self.member(x) for x in v]}
        if type(v) is dict:
            return {'dict': [[self.member(k, key=True), self.member(x)] for k, x in v.items()]}
        if type(v) is set:
            return {'set': [self.member(x, key=True) for x in sorted(v, key=set_key)]}
        if type(v) is frozenset:
            return {'fset': [self.member(x, key=True) for x in sorted(v, key=set_key)]}
        return lit(v)

    def member(self, x, key=False):
        r = self.r
        if r.random() < 0.25:
            cands = [s for s, v in self.src if type(v) is type(x) and v == x
                     and type(v) in (int, str, bool, type(None))]
            if cands:
                self.nested_used = True
                return {'T': r.choice(cands)}
        return self.container(x)

    # one valid step for the current value; returns [dunder, E] or None
    def step(self, cur):
        r = self.r
        opts = []
        if isinstance(cur, dict):
            if cur:
                opts += ['key'] * 6 + (['dpop'] if STATEFUL else [])
            opts += ['get', 'dor'] + (['dsetdefault'] if STATEFUL else [])
            if type(cur) is dict:
                opts += ['dview']
        elif isinstance(cur, (list, tuple)):
            if cur:
                opts += ['idx'] * 4 + ['scount', 'sindex']
                if isinstance(cur, list) and STATEFUL:
                    opts += ['lpop'] * 2
            if isinstance(cur, list) and STATEFUL:
                opts += ['lappend']
            opts += ['slice'] * 2 + ['sadd', 'smul']
            if type(cur) is Point:
                opts += ['ntfield'] * 3
        elif type(cur) is str:
            if cur:
                opts += ['idx'] * 2
            opts += ['slice', 'stradd', 'smul', 'upper', 'strcount', 'startswith'] + ['strmeth'] * 3
        elif isinstance(cur, bool):
            opts += ['arith'] * 3 + ['bit'] * 3 + ['unary'] + ['npow', 'ifloat']
        elif isinstance(cur, int):
            opts += ['arith'] * 6 + ['bit'] * 2 + ['unary'] * 2 + ['pow'] + ['npow', 'ifloat']
        elif isinstance(cur, float):
            opts += ['farith'] * 3 + ['fneg'] + ['ffloor', 'fpow']
        elif type(cur) is Probe:
            opts += ['probe_item'] * 2 + ['probe_op'] * 2 + ['attr']
        elif type(cur) is PropObj:
            opts += ['attr', 'prop', 'prop']
        elif type(cur) is DynObj:
            opts += ['attr', 'dyn', 'dyn']
        elif type(cur) is DescObj:
            opts += ['attr', 'desc', 'desc']
        elif type(cur) in (pyobjs.Obj, pyobjs.Obj2):
            opts += ['attr']
        elif isinstance(cur, (set, frozenset)):
            opts += ['setop'] * 3 + ['setmeth']
        elif id(cur) in FUNC_NAME:
            opts += ['callfn']
        elif type(cur).__name__ == 'builtin_function_or_method':
            opts += ['callmeth']
        elif type(cur).__name__ in ('dict_keys', 'dict_values', 'dict_items'):
            return None
        elif type(cur).__name__ in ('TType', 'Spec') and type(cur).__module__.startswith('glom'):
            # a glom spec object found in the target, used as CALLEE: glom passes it through arg_val
            # (evaluates it against the target) before the arguments are evaluated
            try:
                f = reval(cur, self.target)
            except DirectFail:
                f = None
            if id(f) in FUNC_NAME:
                return ['__call__', self.call_args(FUNC_NAME[id(f)])]
            if type(f).__name__ == 'builtin_function_or_method':
                return ['__call__', self.meth_args(f)]
            return ['__call__', {'call': {'args': [self.anyval()] if r.random() < 0.7 else [], 'kwargs': []}}]
        if not opts:
            return None
        o = r.choice(opts)
        if o in ('lpop', 'dpop'):
            return ['__getattr__', lit('pop')]
        if o == 'lappend':
            return ['__getattr__', lit('append')]
        if o == 'dsetdefault':
            return ['__getattr__', lit('setdefault')]
        if o == 'ntfield':
            return ['__getattr__', lit(r.choice(['x', 'y']))]
        if o in ('probe_item', 'probe_op'):
            # the probe returns its argument ITSELF: a container literal (often an instance of a subclass),
            # a scalar, or a nested T reading an object of the target
            v = r.choice([[1, 2], (1, 2), {'a': 1}, [], (3, 4), {'k': 2, 'j': 3}, gen_scalar(r)])
            save, self.sub_p = self.sub_p, 0.7
            a = self.arg(lambda w: isinstance(w, (list, dict, INST_TYPES)), v)
            self.sub_p = save
            if o == 'probe_item':
                return ['__getitem__', a]
            return [r.choice(list(BIN)), a]
        if o == 'prop':
            return ['__getattr__', lit('p_ok')]
        if o == 'dyn':
            return ['__getattr__', lit(r.choice(['dyn_abc', 'dyn_', 'dyn_x y']))]
        if o == 'desc':
            return ['__getattr__', lit(r.choice(['d', 'nd']))]
        if o == 'dview':
            return ['__getattr__', lit(r.choice(['keys', 'values', 'items']))]
        if o == 'strmeth':
            return ['__getattr__', lit(r.choice(['lower', 'strip', 'lstrip', 'rstrip', 'split', 'join', 'replace',
                                                 'find', 'endswith', 'isdigit', 'capitalize']))]
        if o == 'setop':
            other = r.choice([{1, 2}, {'a'}, set(), {1, 'a', None}, frozenset([2, 3]), frozenset()])
            return [r.choice(['__and__', '__or__', '__xor__', '__sub__']),
                    self.arg(lambda w: type(w) in (set, frozenset), other)]
        if o == 'setmeth':
            if type(cur) is set and STATEFUL:
                return ['__getattr__', lit(r.choice(['add', 'discard', 'union']))]
            return ['__getattr__', lit('union')]
        if o == 'key':
            k = r.choice(list(cur))
            return ['__getitem__', self.arg(lambda v: type(v) is type(k) and v == k, k)]
        if o == 'get':
            k = r.choice(list(cur) + ['zz'])
            return ['__getattr__', lit('get')]
        if o == 'dor':
            d = {r.choice(NAMES): r.choice(INTS)}
            return ['__or__', self.arg(lambda v: type(v) is dict, d)]
        if o == 'idx':
            n = len(cur)
            i = r.randrange(n)
            if r.random() < 0.3:
                i -= n
            return ['__getitem__', self.arg(lambda v: is_int(v) and -n <= v < n, i)]
        if o == 'slice':
            # every kind of bound: absent, inside, at / beyond either end, far out, bools; every kind of step
            n = len(cur)
            f = lambda: r.choice([None, None, 0, 1, 2, 3, -1, -2, -5, 7, n, n - 1, -n, -n - 1, n + 1, True, False,
                                  10 ** 20, -(10 ** 20)])
            st = r.choice([None, None, None, 1, 2, -1, -2, 3, -3, True, n or 1, -(n or 1), 10 ** 20, -(10 ** 20)])
            return ['__getitem__', lit(slice(f(), f(), st))]
        if o == 'sadd':
            extra = [gen_scalar(r) for _ in range(r.choice([0, 1, 2, 2]))]
            base = list if isinstance(cur, list) else tuple
            extra = base(extra)
            return ['__add__', self.arg(lambda v: isinstance(v, base) and len(v) < 6, extra)]
        if o == 'smul':
            return ['__mul__', self.arg(lambda v: is_int(v) and -1 <= v <= 3, r.choice([0, 1, 2, 3, -1, True]))]
        if o in ('scount', 'sindex'):
            return ['__getattr__', lit('count' if o == 'scount' else 'index')]
        if o == 'stradd':
            return ['__add__', self.arg(lambda v: type(v) is str and len(v) < 12, r.choice(STRS))]
        if o == 'upper':
            return ['__getattr__', lit('upper')]
        if o == 'strcount':
            return ['__getattr__', lit(r.choice(['count', 'index']))]
        if o == 'startswith':
            return ['__getattr__', lit('startswith')]
        if o == 'arith':
            d = r.choice(['__add__', '__sub__', '__mul__', '__floordiv__', '__mod__', '__truediv__',
                          '__floordiv__', '__mod__'])
            if d in ('__floordiv__', '__mod__', '__truediv__'):
                pred = lambda v: is_int(v) and v != 0 and abs(v) < 10 ** 15
                v = r.choice([x for x in INTS if x != 0])
            else:
                pred = lambda v: is_int(v) and abs(v) < 10 ** 15
                v = r.choice(INTS + [True])
            if d == '__truediv__' and abs(cur) >= 2 ** 53:
                d = '__floordiv__'
            return [d, self.arg(pred, v)]
        if o == 'bit':
            d = r.choice(['__and__', '__or__', '__xor__'])
            v = r.choice(INTS + [True, False])
            return [d, self.arg(lambda v: is_int(v) and abs(v) < 10 ** 15, v)]
        if o == 'unary':
            return [r.choice(UNARY), lit(None)]
        if o == 'pow':
            if abs(cur) > 1000:
                return ['__neg__', lit(None)]
            return ['__pow__', self.arg(lambda v: is_int(v) and 0 <= v <= 4, r.choice([0, 1, 2, 3, 4]))]
        if o == 'farith':
            d = r.choice(['__add__', '__sub__', '__mul__', '__truediv__'])
            v = r.choice([x for x in INTS if x != 0] + [1.5, 0.5, -2.5, 0.1])
            return [d, self.arg(lambda v: is_num(v) and not isinstance(v, bool) and is_finite(v)
                                and v != 0 and abs(v) < 10 ** 6, v)]
        if o == 'fneg':
            return ['__neg__', lit(None)]
        if o == 'npow':
            # int ** negative int: a float (float(a) ** float(b)); a zero base is the failing twin
            if cur == 0 or abs(cur) > 10 ** 6:
                return ['__neg__', lit(None)]
            return ['__pow__', self.arg(lambda v: is_intnb(v) and -8 <= v < 0, r.choice([-1, -2, -3]))]
        if o == 'ifloat':
            # int <op> float: the int is converted first
            d = r.choice(['__add__', '__sub__', '__mul__', '__truediv__', '__floordiv__', '__mod__'])
            if abs(cur) > 10 ** 300:
                return ['__neg__', lit(None)]
            return [d, self.arg(lambda v: type(v) is float and is_finite(v) and v != 0,
                                r.choice([f for f in FLOATS if f != 0 and abs(f) < 1e100]))]
        if o == 'ffloor':
            # float // x, float % x (C fmod: the kernel knows the result is a float, not its value)
            d = r.choice(['__floordiv__', '__mod__'])
            return [d, self.arg(lambda v: is_num(v) and is_finite(v) and v != 0 and abs(v) < 10 ** 300,
                                r.choice([2, 3, -7, 1.5, 0.5, -2.5, True]))]
        if o == 'fpow':
            if not is_finite(cur):
                return ['__neg__', lit(None)]
            if cur == 0:
                return ['__pow__', lit(r.choice([0, 1, 2, 3, 0.5, True]))]
            if abs(cur) > 1e30 or abs(cur) < 1e-30:
                return ['__pow__', lit(r.choice([0, 1, -1, True]))]
            if cur < 0:
                return ['__pow__', self.arg(lambda v: is_intnb(v) and -4 <= v <= 4, r.choice([0, 1, 2, 3, -1, -2]))]
            return ['__pow__', self.arg(lambda v: is_num(v) and is_finite(v) and abs(v) <= 4,
                                        r.choice([0, 1, 2, 3, -1, -2, 0.5, -0.5, 1.5, False]))]
        if o == 'attr':
            k = r.choice(list(cur.__dict__))
            return ['__getattr__', lit(k)]
        if o == 'callfn':
            return ['__call__', self.call_args(FUNC_NAME[id(cur)])]
        if o == 'callmeth':
            return ['__call__', self.meth_args(cur)]
        return None

    def call_args(self, name):
        r = self.r
        ai = lambda: self.arg(lambda v: is_int(v) and abs(v) < 10 ** 15, r.choice(INTS))
        if name in ('inc', 'neg'):
            return {'call': {'args': [ai()], 'kwargs': []}} if r.random() < 0.8 else \
                   {'call': {'args': [], 'kwargs': [['x', ai()]]}}
        if name == 'add2':
            if r.random() < 0.7:
                return {'call': {'args': [ai(), ai()], 'kwargs': []}}
            s = lambda: self.arg(lambda v: type(v) is str and len(v) < 12, r.choice(STRS))
            return {'call': {'args': [s()], 'kwargs': [['b', s()]]}}
        if name == 'ident':
            v = r.choice([gen_scalar(r), [1, 2], (1,), {'a': 1}, (), [], (1, 2), {'k': 1, 'j': 2}])
            if r.random() < 0.25:
                return {'call': {'args': [], 'kwargs': [['x', self.arg(lambda v: True, v)]]}}
            return {'call': {'args': [self.arg(lambda v: True, v)], 'kwargs': []}}
        if name in ('list', 'tuple'):
            v = r.choice(['abc', [1, 2], (), {'a': 1}, '', (1, 2), {1, 2}])
            if r.random() < 0.15:
                return {'call': {'args': [], 'kwargs': []}}
            return {'call': {'args': [self.arg(lambda v: type(v) in (str, list, tuple, dict, set, frozenset)
                                               or type(v).__name__.startswith('dict_'), v)], 'kwargs': []}}
        if name == 'kw':
            q = r.random()
            if q < 0.3:
                return {'call': {'args': [ai()], 'kwargs': []}}
            if q < 0.6:
                return {'call': {'args': [ai()], 'kwargs': [['b', ai()]]}}
            if q < 0.8:
                return {'call': {'args': [ai(), ai()], 'kwargs': []}}
            return {'call': {'args': [], 'kwargs': [['b', ai()], ['a', ai()]]}}
        if name == 'mklist':
            return {'call': {'args': [self.anyval() for _ in range(r.choice([0, 1, 2, 3]))], 'kwargs': []}}
        if name == 'const7':
            return {'call': {'args': [], 'kwargs': []}}
        if name == 'len':
            v = r.choice(['abc', [1, 2], (), {'a': 1}, '', (1, 2)])
            return {'call': {'args': [self.arg(lambda v: isinstance(v, (str, list, tuple, dict, set, frozenset)), v)],
                             'kwargs': []}}
        # raisers: any arguments
        return {'call': {'args': [lit(r.choice(INTS))] if r.random() < 0.5 else [], 'kwargs': []}}

    def anyval(self):
        """any argument: a scalar, or a container literal (sometimes an instance of a subclass), or a nested T"""
        r = self.r
        v = r.choice([gen_scalar(r), gen_scalar(r), [1, 2], (1, 2), {'a': 1}, [], (), (0, 0),
                      FUNCS[r.choice(['len', 'ident', 'const7'])], {1, 2}, frozenset(['a'])])
        return self.arg(lambda w: True, v)

    def meth_args(self, m):
        r = self.r
        slf, name = m.__self__, m.__name__
        call = lambda *a: {'call': {'args': list(a), 'kwargs': []}}
        if name in ('upper', 'lower', 'strip', 'lstrip', 'rstrip', 'isdigit', 'capitalize', 'keys', 'values', 'items'):
            return call()
        if name == 'split':
            q = r.random()
            if q < 0.4:
                return call()
            return call(self.arg(lambda v: type(v) is str and 0 < len(v) < 4, r.choice([' ', 'a', '.', 'b', 'll', ''])))
        if name == 'join':
            parts = [r.choice(STRS) for _ in range(r.choice([0, 1, 2, 3]))]
            return call(self.arg(lambda v: isinstance(v, (list, tuple)) and all(type(x) is str for x in v),
                                 r.choice([parts, tuple(parts)])))
        if name == 'replace':
            old = r.choice([slf[:1], slf[1:3], 'a', 'zz', ''])
            return call(lit(old), self.arg(lambda v: type(v) is str and len(v) < 5, r.choice(['', 'X', 'ab'])))
        if name == 'find':
            return call(self.arg(lambda v: type(v) is str and len(v) < 5, r.choice([slf[:1], slf[1:3], 'zz', ''])))
        if name == 'endswith':
            return call(self.arg(lambda v: type(v) is str, r.choice([slf[-2:], 'a', ''])))
        if name in ('add', 'discard'):
            return call(self.arg(lambda v: type(v) in (int, str, bool), r.choice([1, 2, 'a', 'zz', True, None])))
        if name == 'union':
            return call(self.arg(lambda v: type(v) in (set, frozenset, list, tuple) and len(v) < 5,
                                 r.choice([{1, 2}, [1, 'a'], (None,), frozenset([3]), []])))
        if name == 'pop' and isinstance(slf, list):
            if not slf or r.random() < 0.6:
                return call()
            return call(self.arg(lambda v: is_int(v) and -len(slf) <= v < len(slf), r.randrange(len(slf))))
        if name == 'append':
            return call(self.anyval())
        if name == 'pop' and isinstance(slf, dict):
            ks = [k for k in slf if type(k) in (int, str, tuple)] or ['zz']
            k = r.choice(ks)
            if r.random() < 0.3:
                return call(lit(r.choice([k, 'zz'])), lit(r.choice(INTS)))
            return call(self.arg(lambda v: type(v) is type(k) and v == k, k))
        if name == 'setdefault':
            ks = [k for k in slf if type(k) in (int, str)] + ['zz', 'new']
            if r.random() < 0.3:
                return call(lit(r.choice(ks)), self.anyval())
            return call(lit(r.choice(ks)), self.arg(is_int, r.choice(INTS)))
        if name in ('count', 'index') and type(slf) is str:
            sub = r.choice([slf[:1], slf[1:2], 'a', 'zz', '']) if name == 'count' else \
                r.choice([slf[:1], slf[1:3], slf[:1], 'zz'])
            return call(self.arg(lambda v: type(v) is str and v in slf and len(v) < 5, sub))
        if name == 'startswith':
            return call(self.arg(lambda v: type(v) is str, r.choice([slf[:2], 'a', ''])))
        if name in ('count', 'index'):
            simple = [x for x in slf if type(x) in (int, str, bool, type(None))]
            if simple and (name == 'index' or r.random() < 0.8):
                x = r.choice(simple)
            else:
                x = r.choice([0, 'zz', None]) if name == 'count' else (simple[0] if simple else 0)
            return call(lit(x))
        if name == 'get':
            ks = [k for k in slf if type(k) in (int, str, tuple)] + ['zz']
            k = r.choice(ks)
            if r.random() < 0.4:
                return call(lit(k), self.arg(is_int, r.choice(INTS)))
            return call(self.arg(lambda v: type(v) is type(k) and v == k, k))
        return call()

    # ------------------------------------------------------------ failing arithmetic, by error class
    def arith_fail(self, cur, cls=None):
        """steps ending in an arithmetic operation that FAILS, chosen by the class of error the
        plain Python operation raises on the value reached — every class each operator can raise on
        the modelled value types:
          ZeroDivisionError  / // % by a zero of any numeric type (0, False, 0.0, -0.0);
                             ** of a zero base (int, bool, float, -0.0) to a negative int / float power
          TypeError          a right operand of a foreign type; & | ^ ~ on floats
          OverflowError      float ** big; an int beyond the range of a double meeting a float
                             (either side) or dividing to a quotient beyond it; int ** negative with such
                             a base; seq * an int beyond Py_ssize_t; '%c' % big
          ValueError         str % x with a malformed format
        The right operand is a literal or a nested T / Spec(T) reading a suitable value of the original
        target.  When the value reached cannot fail that way as it is, one valid step in front makes it
        suitable (x * 0, x + 10**400, s + '%'): the failing operation is then the LAST step returned."""
        r = self.r
        num = isinstance(cur, (int, float)) and is_finite(cur)
        seq = type(cur) in (str, list, tuple)
        classes = []
        if num:
            classes += ['zd-div'] * 3 + ['zd-pow'] * 4 + ['type'] * 2 + ['ovf-pow', 'ovf-conv', 'ovf-conv', 'ovf-cur']
        if seq:
            classes += ['type', 'ovf-seq', 'ovf-seq']
        if type(cur) is str:
            classes += ['value', 'value', 'fmt-type', 'ovf-fmt']
        if not classes:
            classes = ['type']
        c = cls if cls in classes else r.choice(classes)
        if c == 'zd-div':
            d = r.choice(['__truediv__', '__floordiv__', '__mod__'])
            return [[d, self.arg(lambda v: is_num(v) and v == 0, r.choice(ZEROS))]]
        if c == 'zd-pow':
            pre = []
            if cur != 0:
                # a zero of the value's own type first: x * 0 (0, 0.0, -0.0 for a negative float)
                pre = [['__mul__', self.arg(lambda v: is_num(v) and v == 0 and not isinstance(v, float),
                                            r.choice([0, False]))]]
            neg = self.arg(lambda v: is_num(v) and is_finite(v) and v < 0 and abs(v) < 10 ** 6, r.choice(NEGS))
            return pre + [['__pow__', neg]]
        if c == 'type':
            if isinstance(cur, float) and r.random() < 0.4:
                if r.random() < 0.3:
                    return [['__invert__', lit(None)]]
                return [[r.choice(['__and__', '__or__', '__xor__']),
                         self.arg(lambda v: is_intnb(v) and abs(v) < 100, r.choice([1, 3, 0]))]]
            d = r.choice(['__add__', '__sub__', '__mul__', '__truediv__', '__floordiv__', '__mod__', '__pow__',
                          '__and__', '__or__', '__xor__'])
            bad = self.arg(lambda v: v is None or type(v) is dict, r.choice([None, {'a': 1}]))
            if type(cur) is str and d in ('__mod__', '__mul__', '__add__'):
                d = '__sub__'
            if type(cur) in (list, tuple) and d in ('__mul__', '__add__'):
                d = '__truediv__'
            if type(cur) is dict and d == '__or__':
                d = '__and__'
            return [[d, bad]]
        if c == 'ovf-pow':
            # float ** big (|x| > 1), int ** big float
            pre = []
            if isinstance(cur, float) and abs(cur) > 1.0 and abs(cur) < 1e300:
                pass
            elif isinstance(cur, int) and abs(cur) >= 2:
                return [['__pow__', self.arg(lambda v: type(v) is float and is_finite(v) and v >= 5000,
                                             r.choice([1e4, 1e10]))]]
            else:
                pre = [['__add__', lit(r.choice([2.5, 3.0]))]] if cur >= 0 else [['__sub__', lit(2.5)]]
                if isinstance(cur, float) and abs(cur) >= 1e300:
                    pre = [['__truediv__', lit(1e299)], ['__add__', lit(2.5)]] if cur > 0 else \
                          [['__truediv__', lit(1e299)], ['__sub__', lit(2.5)]]
            big = self.arg(lambda v: is_num(v) and is_finite(v) and v >= 5000 and v == int(v)
                           and int(v) % 2 == 0 and v < 10 ** 300, r.choice([10000, 5000, 10 ** 6, 1e10]))
            return pre + [['__pow__', big]]
        if c == 'ovf-conv':
            # a float meets an int beyond the range of a double: the int is converted first
            huge = self.arg(lambda v: is_intnb(v) and abs(v) >= 2 ** 1024, r.choice(HUGE))
            d = r.choice(['__add__', '__sub__', '__mul__', '__truediv__', '__floordiv__', '__mod__', '__pow__'])
            pre = [] if isinstance(cur, float) else [['__add__', lit(r.choice([0.5, 1.5]))]]
            return pre + [[d, huge]]
        if c == 'ovf-cur':
            # the value reached is such an int: <huge> / 1.0, <huge> * 1.5, <huge> / 3, <huge> ** -1
            if not isinstance(cur, int):
                return self.arith_fail(cur, 'ovf-conv')
            pre = [['__add__', lit(r.choice(HUGE[:2]))]]
            q = r.random()
            if q < 0.4:
                last = [r.choice(['__truediv__', '__mul__', '__sub__', '__add__', '__floordiv__', '__mod__']),
                        self.arg(lambda v: type(v) is float and is_finite(v) and v != 0 and abs(v) < 1e100,
                                 r.choice([1.0, 1.5, 0.5, -2.5]))]
            elif q < 0.7:
                last = ['__truediv__', self.arg(lambda v: is_intnb(v) and 0 < abs(v) < 1000, r.choice([3, 1, -7]))]
            else:
                last = ['__pow__', self.arg(lambda v: is_num(v) and is_finite(v) and -8 <= v < 0, r.choice(NEGS))]
            return pre + [last]
        if c == 'ovf-seq':
            return [['__mul__', self.arg(lambda v: is_intnb(v) and abs(v) >= 2 ** 64, r.choice([10 ** 30, -(10 ** 30), 2 ** 64]))]]
        if c == 'value':
            bad = r.choice(['%', '%q', '100%', '%(a', '% '])
            return [['__add__', lit(bad)], ['__mod__', self.arg(lambda v: is_intnb(v) and abs(v) < 1000, r.choice([1, 7]))]]
        if c == 'fmt-type':
            fmt, v = r.choice([('%d %d', 1), ('%d', 'x'), ('%d', None), ('', 1), ('%(a)s', 1)])
            return [['__add__', lit(fmt)], ['__mod__', lit(v)]]
        if c == 'ovf-fmt':
            return [['__add__', lit('%c')], ['__mod__', lit(r.choice([10 ** 9, -1]))]]
        return [['__add__', lit(None)]]

    def nc_args(self):
        """arguments for a call of a value that is not callable: fine / failing / target-changing nested
        T arguments, positional and keyword, in every order"""
        r = self.r
        call0 = {'call': {'args': [], 'kwargs': []}}

        def one():
            q = r.random()
            if q < 0.3:
                return self.arg(lambda v: type(v) in (int, str), r.choice(INTS))
            if q < 0.6:
                return {'T': r.choice([[['__getitem__', lit('zz')]], [['__getattr__', lit('zz')]],
                                       [['__getitem__', lit('n')], ['__getitem__', lit('y')]],
                                       [['__floordiv__', lit(0)]]])}
            ls = [st for st, v in self.src if type(v) is list]
            ds = [st for st, v in self.src if type(v) is dict and st]
            if ls and (not ds or r.random() < 0.7):
                st = r.choice(ls)
                if r.random() < 0.5:
                    return {'T': st + [['__getattr__', lit('pop')], ['__call__', call0]]}
                return {'T': st + [['__getattr__', lit('append')],
                                   ['__call__', {'call': {'args': [lit(r.choice(INTS))], 'kwargs': []}}]]}
            if ds:
                return {'T': r.choice(ds) + [['__getattr__', lit('setdefault')],
                                             ['__call__', {'call': {'args': [lit('new'), lit(1)], 'kwargs': []}}]]}
            return lit(r.choice(INTS))
        n = r.choice([1, 1, 2, 3])
        items = [one() for _ in range(n)]
        nkw = r.choice([0, 0, 1]) if n > 1 else r.choice([0, 0, 0, 1])
        args, kws = items[:n - nkw], items[n - nkw:]
        return {'call': {'args': args, 'kwargs': [[r.choice(['x', 'b', 'k%d' % i]), e] for i, e in enumerate(kws)]}}

    def bad_step(self, cur):
        """a step that fails on `cur` (one-edit mutation); a list of steps when a valid step in front is
        needed to reach a value on which the last one fails (see arith_fail)"""
        r = self.r
        if (isinstance(cur, (int, float)) and r.random() < 0.45) or \
                (type(cur) in (str, list, tuple) and r.random() < 0.12):
            return self.arith_fail(cur)
        opts = ['zzattr', 'callraiser', 'nestedfail', 'unhashable']
        if isinstance(cur, dict):
            opts += ['zzkey'] * 3 + ['addint', 'neg', 'call0']
        elif isinstance(cur, (list, tuple, str)):
            opts += ['oob'] * 3 + ['stridx', 'addint', 'neg', 'call0', 'step0', 'zzindex', 'bigidx', 'badslice']
        elif type(cur) is PropObj:
            opts += ['propfail'] * 6 + ['item', 'call0']
        elif type(cur) is DynObj:
            opts += ['dynfail'] * 6 + ['item', 'call0']
        elif type(cur) is DescObj:
            opts += ['descfail'] * 4 + ['item', 'call0', 'zzattr']
        elif isinstance(cur, (set, frozenset)):
            opts += ['setbad'] * 4 + ['item', 'neg', 'call0']
        elif type(cur).__name__ in ('dict_keys', 'dict_values', 'dict_items'):
            opts += ['item', 'call0', 'zzattr', 'neg']
        elif isinstance(cur, int) and not isinstance(cur, float):
            opts += ['div0'] * 4 + ['addstr'] * 2 + ['item', 'call0', 'zeropow']
        elif isinstance(cur, float):
            opts += ['fdiv0', 'addstr', 'item', 'call0', 'invert']
        elif cur is None:
            opts += ['item', 'addint', 'neg', 'call0']
        elif type(cur) in (pyobjs.Obj, pyobjs.Obj2):
            opts += ['zzattr'] * 2 + ['item', 'addint', 'call0']
        elif id(cur) in FUNC_NAME:
            opts += ['arity'] * 3 + ['item', 'addint', 'badkw']
        o = r.choice(opts)
        if o == 'zzattr':
            return ['__getattr__', lit('zz')]
        if o == 'propfail':
            # a property that raises: AttributeError is an access failure; any other class escapes as it is
            return ['__getattr__', lit(r.choice(['p_attr', 'p_val', 'p_key', 'p_zero', 'p_attr']))]
        if o == 'dynfail':
            return ['__getattr__', lit(r.choice(['zz', 'boom', 'lookup', 'other']))]
        if o == 'descfail':
            return ['__getattr__', lit(r.choice(['dbad', 'dbad', 'zz']))]
        if o == 'setbad':
            return [r.choice(['__add__', '__mul__', '__or__', '__and__', '__sub__', '__truediv__', '__pow__']),
                    self.arg(lambda v: type(v) in (list, int, dict, str), r.choice([[1], 2, {'a': 1}, 'x', (1,)]))]
        if o == 'bigidx':
            return ['__getitem__', lit(r.choice([2 ** 64, -(2 ** 70), 10 ** 30]))]
        if o == 'badslice':
            return ['__getitem__', lit(r.choice([slice('a', None, None), slice(None, 1.5, None), slice(None, None, 0),
                                                 slice(0, 2, 'x'), slice(None, None, 0.5)]))]
        if o == 'zzkey':
            return ['__getitem__', lit(r.choice(['zz', 99, None, ('q',)]))]
        if o == 'oob':
            return ['__getitem__', lit(r.choice([len(cur), len(cur) + 3, -len(cur) - 1, 99]))]
        if o == 'stridx':
            return ['__getitem__', lit(r.choice(['a', None, '0']))]
        if o == 'step0':
            return ['__getitem__', lit(slice(None, None, 0))]
        if o == 'zzindex':
            return ['__getattr__', lit('get')]
        if o == 'addint':
            return [r.choice(['__add__', '__sub__', '__floordiv__', '__and__', '__pow__']), lit(r.choice([1, 2]))]
        if o == 'addstr':
            return [r.choice(['__add__', '__sub__', '__truediv__', '__xor__', '__or__']), lit(r.choice(['x', None]))]
        if o == 'neg':
            return [r.choice(UNARY), lit(None)]
        if o == 'invert':
            return ['__invert__', lit(None)]
        if o == 'call0':
            if r.random() < 0.6:
                # a non-callable value called WITH arguments: they are evaluated (may fail, may change
                # the target) before the call finds out that the value cannot be called
                return ['__call__', self.nc_args()]
            return ['__call__', {'call': {'args': [], 'kwargs': []}}]
        if o == 'item':
            return ['__getitem__', lit(r.choice([0, 'a']))]
        if o == 'div0':
            d = r.choice(['__floordiv__', '__mod__', '__truediv__'])
            zero = self.arg(lambda v: is_int(v) and v == 0, r.choice([0, False]))
            return [d, zero]
        if o == 'fdiv0':
            return ['__truediv__', lit(0)]
        if o == 'zeropow':
            return ['__pow__', lit(r.choice(['x', None]))] if cur != 0 else ['__pow__', lit(-1)]
        if o == 'arity':
            return ['__call__', {'call': {'args': [lit(1), lit(2), lit(3), lit(4)], 'kwargs': []}}]
        if o == 'badkw':
            return ['__call__', {'call': {'args': [], 'kwargs': [['nope', lit(1)]]}}]
        if o == 'callraiser':
            cands = [s for s, v in self.src if id(v) in FUNC_NAME and FUNC_NAME[id(v)] in RAISERS]
            if cands:
                # the failing call is reached through the argument of an identity-like step
                return ['__getitem__', {'T': r.choice(cands) + [['__call__', {'call': {'args': [], 'kwargs': []}}]]}]
            return ['__getattr__', lit('zz')]
        if o == 'nestedfail':
            inner = r.choice([[['__getitem__', lit('zz')]], [['__getattr__', lit('zz')]],
                              [['__getitem__', lit('n')], ['__getitem__', lit(0)]],
                              [['__floordiv__', lit(0)]]])
            return [r.choice(['__getitem__', '__add__', '__mul__']), {'T': inner}]
        if o == 'unhashable':
            cands = [s for s, v in self.src if type(v) in (list, dict)]
            if cands:
                entries = [[{'T': r.choice(cands)}, lit(1)]]
                q = r.random()
                if q < 0.25:
                    # a later entry that would fail as well: never evaluated (the key is hashed first)
                    entries.append([lit('k'), {'T': [['__getitem__', lit('nope')]]}])
                elif q < 0.4:
                    entries.insert(0, [lit('k'), {'T': [['__getattr__', lit('zz')]]}])
                elif q < 0.6 and STATEFUL:
                    # … or would change the target
                    ls = [s for s, v in self.src if type(v) is list]
                    if ls:
                        entries.append([lit('k'), {'T': r.choice(ls) + [['__getattr__', lit('append')],
                                                   ['__call__', {'call': {'args': [lit(1)], 'kwargs': []}}]]}])
                return ['__getitem__', {'dict': entries}]
            return ['__getitem__', lit('zz')]
        return ['__getattr__', lit('zz')]


def too_big(v):
    if isinstance(v, bool):
        return False
    if isinstance(v, int):
        return abs(v) > 10 ** 40
    if isinstance(v, (str, list, tuple, dict)):
        return len(v) > 300
    return False


def grow(r, target, n, nested_p=0.3, prefer=None, edits=None, g=None, start=()):
    """a valid chain of up to n steps (behind the given `start` steps) with the values reached:
    (steps, [cur0, cur1, …], gen, clean)"""
    if g is None:
        g = Gen(r, target, nested_p)
        g.edits = edits or []
    cur = target
    steps, vals = [], [target]
    todo = list(start)
    for _ in range(n + len(todo)):
        st = todo.pop(0) if todo else None
        if st is None and prefer and r.random() < 0.5 and isinstance(cur, int):
            st = [r.choice(prefer), g.arg(lambda v: is_int(v) and v != 0 and abs(v) < 10 ** 9,
                                          r.choice([x for x in INTS if x != 0]))]
            if st[0] in UNARY:
                st = [st[0], lit(None)]
        if st is None:
            st = g.step(cur)
        if st is None:
            break
        try:
            if st[0] == '__call__':
                cur = reval(cur, target)
            av = None if st[0] in UNARY else g.value(st[1])
            nxt = apply_op(st[0], cur, av)
        except Exception:
            steps.append(st)       # an unplanned failure is still a legitimate case; stop here
            steps.extend(todo)
            vals.append(None)
            return steps, vals, g, False
        if too_big(nxt):
            break
        if st[0] == '__call__' and getattr(cur, '__name__', None) in MUTATORS:
            g.src = sources(target)       # the target changed: later nested arguments see the new state
        steps.append(st)
        vals.append(nxt)
        cur = nxt
    return steps, vals, g, True


SUB_MAKERS = [
    ('Point', lambda r: Point(r.choice([1, 0]), r.choice([2, 0]))),
    ('Pair', lambda r: Pair(r.choice([1, 0]), r.choice([2, 0, [5]]))),
    ('Column', lambda r: Column('price', [r.choice(INTS) for _ in range(r.choice([0, 2, 3]))])),
    ('MyList', lambda r: MyList([r.choice(STRS[:4]) for _ in range(r.choice([0, 1, 3]))])),
    ('Bag', lambda r: Bag('t', {'a': r.choice(INTS), 'q': [1]})),
    ('OrderedDict', lambda r: collections.OrderedDict([('b', 1), ('a', r.choice(INTS))])),
    ('defaultdict', lambda r: collections.defaultdict(const7, {'a': r.choice(INTS)})),
    ('Counter', lambda r: collections.Counter({'a': 2, 'b': r.choice([1, 3])})),
    ('MySet', lambda r: MySet([1, 'a'])),
    ('FSet', lambda r: FSet([1, 2])),
]
SUB_POSITIONS = ['index-probe', 'index-dict', 'call-pos', 'call-kw', 'call-twice', 'arith-probe', 'arith-builtin',
                 'method-arg', 'member-list', 'member-dict', 'member-tuple', 'holds-T']


def sublit_case(r, cls=None, position=None, follow=None):
    """A literal argument that is an instance of a container SUBCLASS (namedtuple, a tuple / list / dict
    subclass with its own constructor signature, plain list subclass, OrderedDict, defaultdict, Counter, set /
    frozenset subclasses) at every ARGUMENT POSITION of a recorded operation — index, positional and keyword
    call argument, right operand of every arithmetic operator, argument of a builtin method (which may store it
    in the target), member of a list / dict / tuple literal that arg_val rebuilds — with the identity of what
    arrives observable: a probe object / the identity function return the argument itself, the object graph of
    [result, target, literal objects] is compared (so is what later operations did THROUGH the result to the
    literal object)."""
    from glom import T
    name, mk = r.choice(SUB_MAKERS) if cls is None else next(m for m in SUB_MAKERS if m[0] == cls)
    obj = mk(r)
    position = position or r.choice(SUB_POSITIONS)
    if position == 'holds-T':
        # the literal CONTAINS a T object: it is an ordinary object, nothing in it is evaluated
        t = r.choice([T['n'], T['zz'], T, T['l']])
        base = SUBCLS[name][0]
        if base == 'list':
            obj = SUBCLS[name][1]([t, 1])
        elif base == 'tuple':
            obj = SUBCLS[name][1]([1, t])
        elif base == 'dict' and name != 'Counter':
            obj = SUBCLS[name][1]({'a': t})
        position = r.choice(['call-pos', 'index-probe', 'arith-probe', 'member-list'])
    target = {'ident': ident, 'mklist': mklist, 'len': len, 'add2': add2, 'p': Probe(last=None),
              'l': [r.choice(INTS) for _ in range(r.choice([1, 2, 3]))], 't': (1, 2),
              'd': {'a': 1, (1, 2): 'x', (0, 0): [7]}, 'n': r.choice(INTS), 's': '-'}
    tj = enc(target)
    g = Gen(r, target, nested_p=0.25, sub_p=0.3)
    L = g.hlit(obj)
    G = lambda *ks: [['__getitem__', lit(k)] for k in ks]
    call = lambda *a, **k: ['__call__', {'call': {'args': list(a), 'kwargs': [[x, y] for x, y in k.items()]}}]
    base = SUBCLS[name][0]
    if position == 'index-probe':
        start = G('p') + [['__getitem__', L]]
    elif position == 'index-dict':
        start = G('d') + [['__getitem__', L]]            # a hit for Point(1, 2) / Pair(0, 0); else Key/TypeError
    elif position == 'call-pos':
        start = G('ident') + [call(L)]
    elif position == 'call-kw':
        start = G('ident') + [call(x=L)]
    elif position == 'call-twice':
        start = G('mklist') + [call(lit(r.choice(INTS)), L, L)]        # the same object twice in the result
    elif position == 'arith-probe':
        start = G('p') + [[r.choice(list(BIN)), L]]
    elif position == 'arith-builtin':
        src, d = {'list': ('l', '__add__'), 'tuple': ('t', '__add__'), 'dict': ('d', '__or__'),
                  'set': ('n', '__or__'), 'frozenset': ('n', '__and__')}[base]
        if r.random() < 0.3:
            src, d = 'n', r.choice(['__mul__', '__add__', '__mod__'])
        start = G(src) + [[d, L]]
    elif position == 'method-arg':
        q = r.random()
        if q < 0.35:
            start = G('l') + [['__getattr__', lit('append')], call(L)]      # the target holds the literal afterwards
        elif q < 0.6:
            start = G('d') + [['__getattr__', lit('setdefault')], call(lit('new'), L)]
        elif q < 0.8:
            start = G('d') + [['__getattr__', lit('get')], call(L) if base in ('tuple', 'frozenset') else call(lit('zz'), L)]
        else:
            start = G('l') + [['__getattr__', lit(r.choice(['count', 'index']))], call(L)]
    elif position == 'member-list':
        start = G('ident') + [call({'list': [L, lit(1)]})]
    elif position == 'member-dict':
        start = G('ident') + [call({'dict': [[lit('k'), L]]})]
    else:
        start = G('p') + [['__getitem__', {'tuple': [L, lit(2)]}]]
    n = follow if follow is not None else r.choice([0, 1, 1, 2, 3])
    steps, vals, g, clean = grow(r, target, n, g=g, start=start)
    if clean and r.random() < 0.3:
        # afterwards: what the probe remembers / what the target holds now
        steps = steps  # (the graph of [result, target, literals] already shows it)
    return g.case(tj, steps)


TWINS = {0: [0.0, False], 1: [1.0, True], 2: [2.0], True: [1, 1.0], False: [0, 0.0]}


def twin_case(r, tj, steps, g=None):
    """the same chain with one int / bool literal replaced by an equal value of another type;
    the original is written first (`prebuild`) in the same process"""
    idx = [i for i, (d, a) in enumerate(steps) if d not in UNARY and isinstance(a, dict) and 'lit' in a
           and isinstance(a['lit'], dict) and (('i' in a['lit'] and a['lit']['i'] in (0, 1, 2)) or 'b' in a['lit'])]
    if not idx:
        return None
    i = r.choice(idx)
    v = dec(steps[i][1]['lit'])
    w = r.choice(TWINS[v])
    twin = steps[:i] + [[steps[i][0], lit(w)]] + steps[i + 1:]
    if g is not None:
        return g.case(tj, twin, prebuild={'T': steps})
    return {'target': tj, 'prebuild': {'T': steps}, 'expr': {'T': twin}}


def twin_templates(r):
    """T['n'] + 1 then T['n'] + 1.0, T['l'][1] then T['l'][1.0] / T['l'][True], …"""
    target = {'n': r.choice([7, 2, -3, 10]), 's': 'v=%s', 'l': ['a', 'b', 'c'], 'f': 2.5,
              't': (4, 5, 6), 'd': {1: 'one', 0: 'zero', 2: 'two'}}
    key, d, v = r.choice([('n', '__add__', 1), ('n', '__sub__', 1), ('n', '__mul__', 2), ('n', '__floordiv__', 2),
                          ('n', '__truediv__', 2), ('n', '__mod__', 2), ('n', '__pow__', 2), ('n', '__and__', 1),
                          ('n', '__or__', 0), ('n', '__xor__', 1), ('s', '__mod__', 1), ('l', '__getitem__', 1),
                          ('l', '__getitem__', 0), ('l', '__mul__', 2), ('t', '__getitem__', 2), ('t', '__mul__', 1),
                          ('f', '__mul__', 0), ('f', '__add__', 1), ('d', '__getitem__', 1), ('d', '__getitem__', 0)])
    tail = r.choice([[], [], [['__neg__', lit(None)]], [['__add__', lit(1)]]]) if key in ('n', 'f') else []
    first = [['__getitem__', lit(key)], [d, lit(v)]] + tail
    second = [['__getitem__', lit(key)], [d, lit(r.choice(TWINS[v]))]] + tail
    if r.random() < 0.3:
        first, second = second, first
    return {'target': enc(target), 'prebuild': {'T': first}, 'expr': {'T': second}}


def stateful_templates(r):
    """a call that changes the target, then an operation whose nested T argument reads the same
    object: the argument must see the state *after* the call (T['l'].pop() + T['l'][-1])"""
    n = r.randint(3, 5)
    target = {'l': [r.choice(INTS[:11]) for _ in range(n)], 'd': {'a': r.choice(INTS), 'b': r.choice(INTS)},
              'n': r.choice(INTS)}
    k = r.random()
    call0 = {'call': {'args': [], 'kwargs': []}}
    if k < 0.4:
        steps = [['__getitem__', lit('l')], ['__getattr__', lit('pop')], ['__call__', call0],
                 [r.choice(['__add__', '__sub__', '__mul__']),
                  {'T': [['__getitem__', lit('l')], ['__getitem__', lit(r.choice([-1, 0, n - 2]))]]}]]
    elif k < 0.6:
        steps = [['__getitem__', lit('l')], ['__getattr__', lit('pop')],
                 ['__call__', {'call': {'args': [lit(0)], 'kwargs': []}}],
                 ['__add__', {'T': [['__getitem__', lit('len')],
                                    ['__call__', {'call': {'args': [{'T': [['__getitem__', lit('l')]]}], 'kwargs': []}}]]}]]
        target['len'] = len
    elif k < 0.8:
        steps = [['__getitem__', lit('d')], ['__getattr__', lit('pop')],
                 ['__call__', {'call': {'args': [lit('a')], 'kwargs': []}}],
                 ['__add__', {'T': [['__getitem__', lit('d')], ['__getattr__', lit('get')],
                                    ['__call__', {'call': {'args': [lit('a'), lit(1000)], 'kwargs': []}}]]}]]
    else:
        steps = [['__getitem__', lit('d')], ['__getattr__', lit('setdefault')],
                 ['__call__', {'call': {'args': [lit('new'), {'T': [['__getitem__', lit('n')]]}], 'kwargs': []}}],
                 ['__mul__', {'T': [['__getitem__', lit('d')], ['__getitem__', lit('new')]]}]]
    return {'target': enc(target), 'expr': {'T': steps}}


def reference_templates(r):
    """a recorded call is a plain Python call: the callee receives the very objects its arguments
    evaluate to (identity of a returned argument, mutation through it), and an argument is evaluated
    once (a T object stored in the target comes back as that object)"""
    from glom import T
    n = r.randint(2, 4)
    target = {'l': [r.choice(INTS[:11]) for _ in range(n)], 'd': {'a': r.choice(INTS), 'b': r.choice(INTS)},
              'o': pyobjs.Obj(a=[1, 2], b=r.choice(INTS)), 'n': r.choice(INTS), 'b': r.choice(INTS),
              'ident': ident, 'mklist': mklist, 'kw': kw, 'len': len,
              'a': r.choice([T['b'], T['n'], T['l'][0], T['zz']])}
    call = lambda *a, **k: ['__call__', {'call': {'args': list(a), 'kwargs': [[x, y] for x, y in k.items()]}}]
    G = lambda *ks: {'T': [['__getitem__', lit(k)] for k in ks]}
    src = r.choice([G('l'), G('d'), G('o'), {'T': [['__getitem__', lit('o')], ['__getattr__', lit('a')]]}])
    f = ['__getitem__', lit('ident')]
    k = r.random()
    if k < 0.2:       # identity of the returned argument
        steps = [f, call(src) if r.random() < 0.6 else call(x=src)]
    elif k < 0.3:
        steps = [['__getitem__', lit('mklist')], call(G('n'), src, src), ['__getitem__', lit(r.choice([1, 2, -1]))]]
    elif k < 0.5:     # mutation through the returned argument, then a read of the same object
        steps = [f, call(G('l')), ['__getattr__', lit('pop')], call(),
                 [r.choice(['__add__', '__mul__', '__sub__']), {'T': [['__getitem__', lit('l')], ['__getitem__', lit(-1)]]}]]
    elif k < 0.6:
        inner = {'T': [f, call(G('l')), ['__getattr__', lit('append')], call(lit(r.choice(INTS)))]}
        steps = [['__getitem__', lit('mklist')], call(inner, G('l'))]
    elif k < 0.7:
        steps = [f, call(G('d')), ['__getattr__', lit('setdefault')], call(lit('new'), G('n')),
                 ['__add__', {'T': [['__getitem__', lit('d')], ['__getitem__', lit('new')]]}]]
    elif k < 0.78:
        steps = [f, call(G('d')), ['__getattr__', lit('pop')], call(lit('a')),
                 ['__add__', {'T': [['__getitem__', lit('len')], call(G('d'))]}]]
    elif k < 0.9:     # a T object stored in the target, passed as an argument: evaluated once
        steps = [f, call(G('a')) if r.random() < 0.6 else call(x=G('a'))]
    else:
        steps = [['__getitem__', lit('mklist')], call(G('a'), G('b'), {'list': [G('a')]})]
    return {'target': enc(target), 'expr': {'T': steps}}



def sharing_templates(r):
    """The target is a GRAPH when the evaluation starts: one list reachable by two paths (change it through
    one, read it through the other), a list that contains itself, a dict that reaches the root again, a list
    shared between a tuple and a dict, an attribute object reachable twice."""
    xs = [r.choice(INTS[:11]) for _ in range(r.randint(2, 4))]
    call = lambda *a: ['__call__', {'call': {'args': list(a), 'kwargs': []}}]
    G = lambda *ks: [['__getitem__', lit(k)] for k in ks]
    K = lambda *ks: [['k', enc(k)] for k in ks]
    kind = r.choice(['two-paths', 'two-paths', 'self-list', 'root-cycle', 'via-tuple', 'obj-shared', 'dict-self'])
    op = r.choice(['__add__', '__sub__', '__mul__'])
    if kind == 'two-paths':
        tree = {'a': {'l': xs}, 'b': {'l': [0]}, 'n': r.choice(INTS), 'len': len, 'ident': ident}
        edits = [[['T', K('b')], ['k', enc('l')], ['T', K('a', 'l')]]]
        mut = r.choice([[['__getattr__', lit('pop')], call()], [['__getattr__', lit('append')], call(lit(r.choice(INTS)))],
                        [['__getattr__', lit('pop')], call(lit(0))]])
        rd = r.choice([{'T': G('b', 'l') + [['__getitem__', lit(-1)]]},
                       {'T': G('len') + [call({'T': G('b', 'l')})]}])
        if mut[0][1] == lit('append'):
            start = G('a', 'l') + mut + [['__getitem__', rd]] if r.random() < 0.3 else G('ident') + [call({'T': G('a', 'l') + mut})] + G() + [['__getitem__', lit(0)]] if False else G('a', 'l') + mut
            start = G('b', 'l') + [['__getitem__', lit(0)]] + [[op, {'T': G('a', 'l') + mut}]] + [[op, rd]]
        else:
            start = G('a', 'l') + mut + [[op, rd]]
    elif kind == 'self-list':
        tree = {'l': xs, 'len': len}
        edits = [[['T', K('l')], ['app', None], ['T', K('l')]]]
        start = G('l') + [['__getitem__', lit(-1)]] * r.choice([1, 2, 3]) + \
            r.choice([[['__getitem__', lit(0)]], [['__getattr__', lit('pop')], call(lit(0))],
                      [['__getattr__', lit('append')], call(lit(5))], [['__getattr__', lit('pop')], call()]])
    elif kind == 'root-cycle':
        tree = {'d': {'up': None, 'v': xs}, 'n': r.choice(INTS)}
        edits = [[['T', K('d')], ['k', enc('up')], ['T', []]]]
        start = G('d', 'up') * r.choice([1, 2, 3]) + r.choice([G('n'), G('d', 'v') + [['__getattr__', lit('pop')], call()]])
    elif kind == 'dict-self':
        tree = {'d': {'a': 1}, 'ident': ident}
        edits = [[['T', K('d')], ['k', enc('self')], ['T', K('d')]]]
        start = G('ident') + [call({'T': G('d', 'self', 'self')})] + [['__getattr__', lit('setdefault')],
                                                                       call(lit('new'), {'T': G('d', 'a')})]
    elif kind == 'via-tuple':
        tree = {'t': (xs, 1), 'l': None, 'len': len}
        edits = [[['T', []], ['k', enc('l')], ['T', K('t') + [['i', 0]]]]]
        start = G('l') + [['__getattr__', lit('append')], call(lit(9))] if r.random() < 0.5 else \
            G('l') + [['__getattr__', lit('pop')], call()]
        start = G('len') + [call({'T': G('t') + [['__getitem__', lit(0)]]})] + [[op, {'T': start}]] + \
            [[op, {'T': G('len') + [call({'T': G('t') + [['__getitem__', lit(0)]]})]}]]
    else:
        tree = {'o': pyobjs.Obj(a=xs, b=1), 'p': {'q': None}, 'len': len}
        edits = [[['T', K('p')], ['k', enc('q')], ['T', K('o')]]]
        start = G('p', 'q') + [['__getattr__', lit('a')], ['__getattr__', lit('pop')], call()] + \
            [[op, {'T': G('len') + [call({'T': G('o') + [['__getattr__', lit('a')]]})]}]]
    case = {'target': enc(tree), 'edits': edits}
    target, _ = build_world(case)
    g = Gen(r, target, nested_p=0.4)
    g.edits = edits
    steps, vals, g, clean = grow(r, target, r.choice([0, 0, 1, 2]), g=g, start=start)
    return g.case(case['target'], steps)


def spec_callee_templates(r):
    """A glom spec object (a T expression, Spec(T…), Val(x), a list holding one) found in the target's DATA and
    used as CALLEE of a recorded call: glom passes the callee through arg_val — evaluates it against the target
    (which may fail, with the position of ITS chain, may call, may change the target) — BEFORE the arguments are
    evaluated; then the arguments, then the call (a non-callable result: TypeError, a failing call)."""
    from glom import T, Spec
    from glom.core import Val
    xs = [r.choice(INTS[:11]) for _ in range(r.randint(2, 4))]
    g_choices = [
        T['ident'], T['ident'], T['inc'], T['mklist'], T['o'].f, T['l'].pop, T['l'].append, T['d'].get, T['len'],
        Spec(T['ident']), Spec(T['l'].pop), Val(ident), Val(5), T['n'], T['s'], T['l'],
        T['zz'], T['o'].zz, T['n']['x'], T['n'] // 0, T['o'].f.zz,
        T['mklist'](1), T['l'].pop(), T['l'].append(7), T['g2'], T['g2'](), [T['ident']], (T['zz'],), T['raise_key'](),
        T['const7'], T['ident'](T['ident']), T['ident'](T['inc']),
    ]
    gobj = r.choice(g_choices)
    tree = {'ident': ident, 'inc': inc, 'mklist': mklist, 'len': len, 'const7': const7, 'raise_key': raise_key,
            'l': xs, 'd': {'a': 1, 'b': [2]}, 'n': r.choice(INTS), 's': 'abc', 'o': pyobjs.Obj(f=ident, b=2),
            'g2': T['const7'], 'g': gobj}
    tj = enc(tree)
    target = dec(tj)
    g = Gen(r, target, nested_p=0.5)
    call0 = {'call': {'args': [], 'kwargs': []}}
    muts = [{'T': [['__getitem__', lit('l')], ['__getattr__', lit('pop')], ['__call__', call0]]},
            {'T': [['__getitem__', lit('l')], ['__getattr__', lit('append')],
                   ['__call__', {'call': {'args': [lit(3)], 'kwargs': []}}]]},
            {'T': [['__getitem__', lit('zz')]]}, {'T': [['__getitem__', lit('l')], ['__getitem__', lit(0)]]}]
    args = []
    for _ in range(r.choice([0, 1, 1, 1, 2])):
        q = r.random()
        args.append(r.choice(muts) if q < 0.4 else g.anyval())
    kws = []
    if args and r.random() < 0.15:
        kws = [['x', args.pop()]]
    start = [['__getitem__', lit('g')], ['__call__', {'call': {'args': args, 'kwargs': kws}}]]
    steps, vals, g, clean = grow(r, target, r.choice([0, 0, 1, 2]), g=g, start=start)
    if r.random() < 0.2:
        steps.append(failing_nested_step(r, g))
    return g.case(tj, steps)


def view_templates(r):
    """dict views (live: they show what later calls did to the dict), list() / tuple() / len() over views,
    strs, lists, tuples; the str methods; sets"""
    tree = {'d': {'a': 1, 'b': [2], 'c': 'x'}, 'len': len, 'list': list, 'tuple': tuple, 'mklist': mklist,
            's': r.choice(['a b  c', ' x,y,z ', 'Hello World', 'aXbXc', '', '42']), 'l': ['p', 'q'],
            'st': {1, 2, 'a'}, 'one': {5}, 'fs': frozenset([2, 3])}
    tj = enc(tree)
    target = dec(tj)
    g = Gen(r, target, nested_p=0.5)
    call = lambda *a: ['__call__', {'call': {'args': list(a), 'kwargs': []}}]
    G = lambda *ks: [['__getitem__', lit(k)] for k in ks]
    view = lambda k: {'T': G('d') + [['__getattr__', lit(k)], call()]}
    vk = r.choice(['keys', 'values', 'items'])
    kind = r.choice(['list-view', 'len-view', 'live', 'view', 'tuple-str', 'join', 'set', 'set'])
    if kind == 'list-view':
        start = G(r.choice(['list', 'tuple'])) + [call(view(vk))]
    elif kind == 'len-view':
        start = G('len') + [call(view(vk))]
    elif kind == 'live':
        # the view is taken first, then the dict changes, then the view is listed
        change = r.choice([{'T': G('d') + [['__getattr__', lit('pop')], call(lit('a'))]},
                           {'T': G('d') + [['__getattr__', lit('setdefault')], call(lit('new'), lit(9))]}])
        start = G('list') + [call({'T': G('mklist') + [call(view(vk), change), ['__getitem__', lit(0)]]})]
    elif kind == 'view':
        start = G('d') + [['__getattr__', lit(vk)], call()]
    elif kind == 'tuple-str':
        start = G(r.choice(['list', 'tuple'])) + [call({'T': G(r.choice(['s', 'l', 'd', 'one']))})]
    elif kind == 'join':
        start = G('s') + [['__getattr__', lit('join')],
                          call(r.choice([{'T': G('l')}, {'T': G('d')}, view('keys'), {'T': G('s')}, lit(5), view('values')]))]
    else:
        start = G(r.choice(['st', 'fs', 'one']))
    steps, vals, g, clean = grow(r, target, r.choice([0, 1, 2, 3]), g=g, start=start)
    return g.case(tj, steps)


def share_equal_args(r, case, p=0.5):
    """the nested T arguments of the expression that are EQUAL become ONE object of the spec (a user writes
    `k = T['key']` once and uses `k` twice): {"sh": i} at every use; chosen per group with probability p"""
    groups = {}

    def visit(e, top):
        if isinstance(e, dict):
            if ('T' in e or 'Spec' in e) and not top:
                groups.setdefault(json.dumps(e, sort_keys=True), []).append(e)
            for k, v in list(e.items()):
                if k in ('lit', 'hl', 'sh'):
                    continue
                visit(v, False)
        elif isinstance(e, list):
            for v in e:
                visit(v, False)
    visit(case['expr'], True)
    shared = list(case.get('shared', []))
    done = False
    for k, es in sorted(groups.items()):
        if len(es) >= 2 and r.random() < p:
            orig = json.loads(k)
            shared.append(orig)
            for e in es:
                e.clear()
                e['sh'] = len(shared) - 1
            done = True
    if done:
        case['shared'] = shared
    return case


def shared_arg_templates(r):
    """THE SAME argument object at several places of one expression, with a call in between (or inside a later
    argument) that changes what it reads: every use is evaluated when its operation is reached.  R reads the
    last element / the length / a cursor; M pops / appends / moves the cursor; R is a direct argument (index,
    arithmetic operand), an argument of a nested T, a member of a list argument, a call argument — used before
    and after M; also a second use that fails only after M."""
    xs = [r.choice(INTS[:11]) for _ in range(r.randint(3, 5))]
    tree = {'l': xs, 'c': [0], 'n': r.choice(INTS), 'len': len, 'ident': ident, 'mklist': mklist,
            'o': pyobjs.Obj(cursor=0, items=[r.choice(STRS) for _ in range(3)])}
    tj = enc(tree)
    target = dec(tj)
    g = Gen(r, target, nested_p=0.3)
    call = lambda *a: ['__call__', {'call': {'args': list(a), 'kwargs': []}}]
    G = lambda *ks: [['__getitem__', lit(k)] for k in ks]
    op = lambda: r.choice(['__add__', '__sub__', '__mul__'])
    kind = r.choice(['last', 'last', 'len', 'cursor', 'cursor-fail', 'outer', 'in-call', 'in-list'])
    if kind in ('last', 'len'):
        R = g.share({'T': G('l') + [['__getitem__', lit(-1)]]} if kind == 'last' else
                    {'T': G('len') + [call({'T': G('l')})]})
        M = {'T': G('l') + r.choice([[['__getattr__', lit('pop')], call()],
                                       [['__getattr__', lit('pop')], call(lit(0))]])}
        steps = G('n') + [[op(), R], [op(), M], [op(), R]]
        if r.random() < 0.3:
            steps += [[op(), M], [op(), R]]
    elif kind in ('cursor', 'cursor-fail'):
        # the cursor cell c[-1] indexes l; appending to c moves it
        R = g.share({'T': G('c') + [['__getitem__', lit(-1)]]})
        move = r.choice([1, 2]) if kind == 'cursor' else r.choice([len(xs), 99, -len(xs) - 1])
        M = {'T': G('c') + [['__getattr__', lit('append')], call(lit(move))]}
        steps = G('l') + [['__getitem__', R], [op(), {'T': G('mklist') + [call(M), ['__getitem__', lit(0)]]}]]
        steps = G('mklist') + [call({'T': G('l') + [['__getitem__', R]]}, M, {'T': G('l') + [['__getitem__', R]]})]
        if r.random() < 0.5:
            # … as direct index arguments of the outer chain, the move inside an argument in between
            steps = G('l') + [['__getitem__', R], ['__add__', {'T': G('len') + [call({'T': G('mklist') + [call(M)]})]}],
                              ['__add__', {'T': G('l') + [['__getitem__', R]]}]]
    elif kind == 'outer':
        # the shared object is itself built from a shared object
        R = g.share({'T': G('l') + [['__getitem__', lit(-1)]]})
        A = g.share({'T': G('n') + [[op(), R]]})
        M = {'T': G('l') + [['__getattr__', lit('pop')], call()]}
        steps = G('n') + [[op(), A], [op(), M], [op(), A], [op(), R]]
    elif kind == 'in-call':
        R = g.share({'T': G('l') + [['__getitem__', lit(0)]]})
        M = {'T': G('l') + [['__getattr__', lit('pop')], call(lit(0))]}
        steps = G('mklist') + [call(R, M, R, {'T': G('ident') + [call(R)]})]
    else:
        R = g.share({'T': G('l') + [['__getitem__', lit(-1)]]})
        M = {'T': G('l') + [['__getattr__', lit('pop')], call()]}
        steps = G('ident') + [call({'list': [R, M, R, {'tuple': [R]}]})]
    steps, vals, g, clean = grow(r, target, r.choice([0, 0, 1]), g=g, start=steps)
    return g.case(tj, steps)


def failing_nested_step(r, g):
    """a later operation whose nested T argument fails as well (never reached)"""
    inner = r.choice([[['__getitem__', lit('nope')]], [['__getattr__', lit('zz')]],
                      [['__getitem__', lit('n')], ['__getitem__', lit('y')]],
                      [['__floordiv__', lit(0)]]])
    if r.random() < 0.3:
        return ['__call__', {'call': {'args': [{'T': inner}], 'kwargs': []}}]
    return [r.choice(['__getitem__', '__add__', '__mul__', '__sub__']), {'T': inner}]


def has_sent(j):
    """does the encoded value contain a glom T object (stored as data)?"""
    if isinstance(j, dict):
        return 'sent' in j or any(has_sent(v) for v in j.values())
    if isinstance(j, list):
        return any(has_sent(v) for v in j)
    return False


def noncallable_templates(r):
    """T['f'](args…) where target['f'] is NOT callable (int / str / None / float / list / tuple / dict /
    attribute object): as in Python, the arguments are evaluated first — a failing nested T argument
    surfaces with its own position, a mutating one changes the target — and only then the call fails
    with TypeError (which keeps its class: a failing call)"""
    n = r.randint(2, 4)
    f = r.choice([3, 'abc', None, 2.5, [1, 2], (1,), {'a': 1}, pyobjs.Obj(a=1), True])
    target = {'f': f, 'l': [r.choice(INTS[:11]) for _ in range(n)], 'd': {'a': r.choice(INTS), 'b': r.choice(INTS)},
              'n': r.choice(INTS), 'len': len}
    tj = enc(target)
    g = Gen(r, target, nested_p=0.6)
    if r.random() < 0.25:
        callee = [['__getitem__', lit('l')], ['__getitem__', lit(0)]]
    elif r.random() < 0.15:
        callee = []                                   # the target itself (a dict) is called
    else:
        callee = [['__getitem__', lit('f')]]
    steps = callee + [['__call__', g.nc_args()]]
    q = r.random()
    if q < 0.3:
        steps.append(['__getitem__', lit(0)])          # never reached
    elif q < 0.45:
        steps.append(failing_nested_step(r, g))
    return g.case(tj, steps)


def as_steps(st):
    """bad_step returns one step [dunder, E] or a list of steps"""
    return [st] if st and isinstance(st[0], str) else list(st)


ARITH_KINDS = ('add', 'sub', 'mul', 'floordiv', 'truediv', 'mod', 'pow', 'and', 'or', 'xor', 'invert', 'neg')


def arith_failures(r):
    """One case of the failing-arithmetic stream: an access path of a generated target to a number /
    str / list / tuple, up to two valid arithmetic steps, then a failing arithmetic operation of a
    chosen error class (Gen.arith_fail; literal or nested-T right operand, probability 1/2 each), then —
    sometimes — operations that are never reached.  The case is kept only if the chain applied
    directly in Python fails where intended (at the last step of arith_fail, in an arithmetic
    operation); the expected outcome is always computed by Python, never assumed."""
    for _ in range(20):
        target, tj, edits = gen_world(r, share_p=0.1)
        g = Gen(r, target, nested_p=0.5, sub_p=0.05)
        g.edits = edits
        starts = [(st, v) for st, v in g.src
                  if (isinstance(v, (int, float)) and is_finite(v)) or type(v) in (str, list, tuple)]
        nums = [(st, v) for st, v in starts if isinstance(v, (int, float))]
        if not starts:
            continue
        steps, cur = r.choice(nums if nums and r.random() < 0.8 else starts)
        steps = list(steps)
        ok = True
        for _ in range(r.choice([0, 0, 1, 2])):
            st = g.step(cur)
            if st is None or st[0] in ('__getattr__', '__getitem__', '__call__'):
                break
            try:
                cur = apply_op(st[0], cur, None if st[0] in UNARY else g.value(st[1]))
            except Exception:
                ok = False
                break
            if too_big(cur):
                ok = False
                break
            steps.append(st)
        if not ok:
            continue
        fail = g.arith_fail(cur)
        pos = len(steps) + len(fail) - 1
        steps = steps + fail
        q = r.random()
        if q < 0.25:
            steps.append(failing_nested_step(r, g))       # never reached
        elif q < 0.5:
            steps.append([r.choice(['__add__', '__truediv__', '__pow__']), lit(r.choice([1, 0, -1]))])
        c = g.case(tj, steps)
        w_t, w_l = build_world(c)
        obs, _ = direct_obs({'T': steps}, w_t, w_l)
        f = obs.get('fail')
        if f and f['k'] == pos and f['kind'] in ARITH_KINDS:
            return c
    return None


def generate(rng, tier, scale, **focus):
    n = (2000 if tier == 'quick' else 30000) * scale
    maxlen = 6 if tier == 'quick' else 9
    prefer = focus.get('prefer')
    for i in range(n):
        target, tj, edits = gen_world(rng)   # tj: before the chain is grown (calls may change the target)
        want = rng.randint(1, maxlen)
        steps, vals, g, clean = grow(rng, target, want, prefer=prefer, edits=edits)
        mode = rng.random()
        if clean and mode < 0.30:
            # one-edit mutation: the step at position k is replaced by a failing one …
            k = rng.randrange(len(steps) + 1)
            bad = as_steps(g.bad_step(vals[k]))
            steps = steps[:k] + bad + steps[k + 1:]
            if rng.random() < 0.4:
                # … and a later operation has a nested T argument that would fail too
                j = rng.randint(k + len(bad), len(steps))
                steps = steps[:j] + [failing_nested_step(rng, g)] + steps[j:]
        elif clean and mode < 0.36 and steps:
            # an operation appended beyond the end of a valid chain
            steps = steps + as_steps(g.bad_step(vals[-1]))
        elif clean and mode < 0.46:
            tw = twin_case(rng, tj, steps, g)
            if tw is not None:
                yield tw
                continue
        yield share_equal_args(rng, g.case(tj, steps))
    for i in range(n // 5):
        c = arith_failures(rng)
        if c is not None:
            yield c
    for i in range(n // 4):
        yield sublit_case(rng)
    for i in range(n // 12):
        yield shared_arg_templates(rng)
        yield sharing_templates(rng)
        yield spec_callee_templates(rng)
        yield view_templates(rng)
        yield noncallable_templates(rng)
        yield twin_templates(rng)
        if STATEFUL:
            yield share_equal_args(rng, stateful_templates(rng), 0.7)
        yield reference_templates(rng)
    grid = list(BIN)
    for i in range(n // 20):
        # a sample of the operator x type x type grid (thorough: all of it)
        yield type_grid_case(rng.choice(grid), rng.choice(TYPE_GRID), rng.choice(TYPE_GRID), rng.random() < 0.5)
    if tier == 'thorough' and not focus:
        yield from exhaustive_types()
        yield from exhaustive_sublit(rng)
        yield from exhaustive()
        yield from exhaustive_arith_errors()
        if STATEFUL:
            yield from exhaustive_stateful()


def exhaustive():
    """every binary operator x a grid of int/bool operands, and every unary, as one- and two-step chains"""
    vals = [0, 1, -1, 2, 3, -3, 7, -7, 12, 255, -256, True, False]
    for d in BIN:
        for a in vals:
            for b in vals:
                if d == '__pow__' and (not isinstance(b, int) or b < 0 and a != 0 or b > 8):
                    continue
                yield {'target': enc(a), 'expr': {'T': [[d, lit(b)]]}}
                yield {'target': enc({'x': a, 'y': b}),
                       'expr': {'T': [['__getitem__', lit('x')], [d, {'T': [['__getitem__', lit('y')]]}],
                                      ['__neg__', lit(None)]]}}
    for d in UNARY:
        for a in vals:
            yield {'target': enc(a), 'expr': {'T': [[d, lit(None)], [d, lit(None)]]}}



TYPE_GRID = [3, 0, True, 2.5, 'ab', '', [1], [], (1,), (), {1}, set(), frozenset([1]), {'a': 1}, {}, None]


def type_grid_case(d, a, b, nested):
    """one binary operator on operands of two given types (literal or nested-T right operand)"""
    if nested:
        g = Gen(random.Random(0), None, nested_p=0, sub_p=0)
        return {'target': enc({'x': a, 'y': b}),
                'expr': {'T': [['__getitem__', lit('x')], [d, {'T': [['__getitem__', lit('y')]]}]]}}
    g = Gen(random.Random(0), None, nested_p=0, sub_p=0)
    return {'target': enc({'x': a}), 'expr': {'T': [['__getitem__', lit('x')], [d, g.container(b)]]}}


def exhaustive_types():
    """every binary operator x (int, bool, float, str, list, tuple, set, frozenset, dict, None; empty and
    non-empty) on both sides, literal and nested-T right operand, and both unary operators on each: the exact
    class of every outcome (a value of the right type, or TypeError / ZeroDivisionError / … as PathAccessError)"""
    for d in BIN:
        for a in TYPE_GRID:
            for b in TYPE_GRID:
                if d == '__mod__' and type(a) is str:
                    continue
                yield type_grid_case(d, a, b, False)
                yield type_grid_case(d, a, b, True)
    for d in UNARY:
        for a in TYPE_GRID:
            yield {'target': enc({'x': a}), 'expr': {'T': [['__getitem__', lit('x')], [d, lit(None)]]}}


def exhaustive_sublit(r):
    """every catalogue class of container-subclass literal x every argument position, with and without
    operations on the result"""
    for name, _ in SUB_MAKERS:
        for pos in SUB_POSITIONS:
            for follow in (0, 2):
                for _ in range(3):
                    yield sublit_case(r, cls=name, position=pos, follow=follow)


def exhaustive_arith_errors():
    """every binary operator x (int / bool / float / huge int / str / list left operand) x (zero of every
    numeric type, negative int / float exponents, big exponents, huge ints, foreign types), with a
    literal and with a nested-T right operand: every error class every operator raises on these types
    (and the successful neighbours), the failing operation at positions 0 and 1"""
    lefts = [0, False, True, 2, -3, 0.0, -0.0, 1.5, -2.0, 2.0, 10 ** 400, 'ab', 'a%', [1]]
    rights = [0, False, 0.0, -0.0, -1, -2, -0.5, -1.0, 3, 1.5, 10000, 1e10, 10 ** 400, 10 ** 30, None, 'x']
    for d in BIN:
        for a in lefts:
            for b in rights:
                if d == '__pow__' and isinstance(a, int) and isinstance(b, int) and abs(a) >= 2 and b > 64:
                    continue          # an exact int power with millions of digits
                if d == '__mul__' and type(a) in (str, list) and isinstance(b, int) and 1000 < b < 2 ** 63:
                    continue
                yield {'target': enc(a), 'expr': {'T': [[d, lit(b)]]}}
                yield {'target': enc({'x': a, 'y': b}),
                       'expr': {'T': [['__getitem__', lit('x')], [d, {'T': [['__getitem__', lit('y')]]}],
                                      ['__neg__', lit(None)]]}}


def exhaustive_stateful():
    """every (call changing a small list / dict) x (nested read of the same container afterwards)
    x (outer operator), and the same with the read in front (hoisting would swap them)"""
    call = lambda *a: ['__call__', {'call': {'args': [lit(x) for x in a], 'kwargs': []}}]
    L = ['__getitem__', lit('l')]
    D = ['__getitem__', lit('d')]
    muts = [[L, ['__getattr__', lit('pop')], call()], [L, ['__getattr__', lit('pop')], call(0)],
            [L, ['__getattr__', lit('pop')], call(1)], [L, ['__getattr__', lit('pop')], call(-2)],
            [L, ['__getattr__', lit('append')], call(5)], [L, ['__getattr__', lit('pop')], call(7)],
            [D, ['__getattr__', lit('pop')], call('a')], [D, ['__getattr__', lit('pop')], call('zz', 9)],
            [D, ['__getattr__', lit('pop')], call('zz')],
            [D, ['__getattr__', lit('setdefault')], call('a', 4)],
            [D, ['__getattr__', lit('setdefault')], call('n', 4)]]
    reads = [[L, ['__getitem__', lit(i)]] for i in (0, 1, -1, 2, 3)] + \
            [[D, ['__getitem__', lit(k)]] for k in ('a', 'n')] + \
            [[D, ['__getattr__', lit('get')], call('a', 100)],
             [['__getitem__', lit('len')], ['__call__', {'call': {'args': [{'T': [L]}], 'kwargs': []}}]],
             [['__getitem__', lit('len')], ['__call__', {'call': {'args': [{'T': [D]}], 'kwargs': []}}]],
             [L, ['__getattr__', lit('pop')], call()]]
    for n in (1, 3):
        target = {'l': [10, 20, 30][:n], 'd': {'a': 1, 'b': 2}, 'len': len}
        for m in muts:
            for rd in reads:
                for d in ('__add__', '__mul__', '__getitem__'):
                    yield {'target': enc(target), 'expr': {'T': m + [[d, {'T': rd}]]}}
                # the call as an ARGUMENT of a later operation on a value read before it
                yield {'target': enc(target), 'expr': {'T': rd + [['__add__', {'T': m}]]}}
                yield {'target': enc(target),
                       'expr': {'T': [['__getitem__', lit('len')],
                                      ['__call__', {'call': {'args': [{'list': [{'T': m}, {'T': rd}]}],
                                                             'kwargs': []}}]]}}


def corpus():
    out = [
        # the defect repaired by e2222c4: T // 2 was silently dropped
        {'target': enc(7), 'expr': {'T': [['__floordiv__', lit(2)]]}},
        {'target': enc({'a': 7, 'b': 2}),
         'expr': {'T': [['__getitem__', lit('a')], ['__floordiv__', {'T': [['__getitem__', lit('b')]]}],
                        ['__add__', lit(1)]]}},
        # a called function raising KeyError keeps its class (no PathAccessError)
        {'target': enc({'f': raise_key}), 'expr': {'T': [['__getitem__', lit('f')],
                                                        ['__call__', {'call': {'args': [], 'kwargs': []}}]]}},
        # arguments are evaluated against the original target
        {'target': enc({'a': {'n': 1}, 'n': 5}),
         'expr': {'T': [['__getitem__', lit('a')], ['__getitem__', lit('n')],
                        ['__add__', {'T': [['__getitem__', lit('n')]]}]]}},
        # a nested argument sees what the calls before it did to the target (seeded change C02-s2)
        {'target': enc({'l': [10, 20, 30]}),
         'expr': {'T': [['__getitem__', lit('l')], ['__getattr__', lit('pop')],
                        ['__call__', {'call': {'args': [], 'kwargs': []}}],
                        ['__add__', {'T': [['__getitem__', lit('l')], ['__getitem__', lit(-1)]]}]]}},
        # arguments reach the callee by reference: the identity function returns the target's own list
        {'target': enc({'f': ident, 'l': [1]}),
         'expr': {'T': [['__getitem__', lit('f')],
                        ['__call__', {'call': {'args': [{'T': [['__getitem__', lit('l')]]}], 'kwargs': []}}],
                        ['__getattr__', lit('append')],
                        ['__call__', {'call': {'args': [lit(2)], 'kwargs': []}}]]}},
        # a new list shares its members with the old one
        {'target': enc({'l': [[1], [2]]}),
         'expr': {'T': [['__getitem__', lit('l')], ['__add__', {'list': []}], ['__getitem__', lit(0)],
                        ['__getattr__', lit('append')],
                        ['__call__', {'call': {'args': [lit(2)], 'kwargs': []}}]]}},
        # the target keeps the change when a later operation fails
        {'target': enc({'l': [1, 2]}),
         'expr': {'T': [['__getitem__', lit('l')], ['__getattr__', lit('pop')],
                        ['__call__', {'call': {'args': [], 'kwargs': []}}], ['__getitem__', lit('zz')]]}},
    ]
    p = os.path.join(os.path.dirname(os.path.dirname(os.path.dirname(os.path.abspath(__file__)))),
                     'corpus', 'C02.jsonl')
    if os.path.exists(p):
        for line in open(p):
            if line.strip():
                out.append(json.loads(line))
    return out


def key(case):
    k = {'target': case['target'], 'expr': case['expr']}
    for f in ('prebuild', 'lits', 'edits', 'shared'):
        if case.get(f):
            k[f] = case[f]
    return k


def has_nested(e):
    if isinstance(e, dict):
        if 'T' in e or 'Spec' in e or 'sh' in e:
            return True
        return any(has_nested(v) for v in e.values())
    if isinstance(e, list):
        return any(has_nested(v) for v in e)
    return False


def nontrivial(case, verdict):
    steps = case['expr']['T']
    return (len(steps) >= 2 or 'ok' not in (case.get('impl') or {})
            or any(has_nested(a) for _, a in steps) or bool(case.get('lits')) or bool(case.get('edits')))


def plain_tree(v, depth=0):
    """a value `lit` can spell: scalars and exact list / tuple / dict of such"""
    if depth > 6:
        return False
    if v is None or type(v) in (bool, int, str, float):
        return True
    if type(v) in (list, tuple):
        return all(plain_tree(x, depth + 1) for x in v)
    if type(v) is dict:
        return all(plain_tree(k, depth + 1) and plain_tree(x, depth + 1) for k, x in v.items())
    return False


def shrink(case):
    base = {k: v for k, v in case.items() if k not in OBS_KEYS}
    steps = case['expr']['T']
    for i in range(len(steps)):
        c = dict(base)
        c['expr'] = {'T': steps[:i] + steps[i + 1:]}
        yield c
    # without one of the sharing edits
    edits = case.get('edits') or []
    for i in range(len(edits)):
        c = dict(base)
        c['edits'] = edits[:i] + edits[i + 1:]
        yield c
    # replace nested arguments by their value
    try:
        target, lits = build_world(case)
    except Exception:
        return
    for i, (d, a) in enumerate(steps):
        if has_nested(a) and 'call' not in a:
            try:
                v = direct_arg(a, target, lits)
            except Exception:
                continue
            if not plain_tree(v):
                continue
            c = dict(base)
            c['expr'] = {'T': steps[:i] + [[d, lit(v)]] + steps[i + 1:]}
            yield c
    # shrink the target: keep only what a dict root needs
    t = case['target']
    if isinstance(t, dict) and 'd' in t:
        for i in range(len(t['d'])):
            c = dict(base)
            c['target'] = {'d': t['d'][:i] + t['d'][i + 1:]}
            yield c
    if isinstance(t, dict) and 'o' in t and t['o'][0] in ('Obj', 'Obj2'):
        attrs = t['o'][1]
        for i in range(len(attrs)):
            c = dict(base)
            c['target'] = {'o': [t['o'][0], attrs[:i] + attrs[i + 1:]]}
            yield c


def focus(disagreements, facts_changed):
    """bias the search towards arithmetic operators when the T facts changed or cases disagree"""
    ops = set()
    for c, v in disagreements or []:
        for d, _ in c['expr']['T']:
            if d in BIN or d in UNARY:
                ops.add(d)
    if not ops:
        ops = set(BIN) | set(UNARY)
    return {'prefer': sorted(ops)}
