"""C02 — T expressions replay the recorded operations: generators, implementation runner, shrinker.

A case is {"target": PV, "expr": E}:
  PV  tree value (lean/Glom/Py/PV.lean JSON shape): null | {"b":…} | {"i":…} | {"s":…} | {"f":hex}
      (Lean side only: {"f":"?"} — a float whose value the kernel does not reproduce)
      | {"l":[…]} | {"t":[…]} | {"d":[[k,v]…]} | {"fn":name} | {"o":[cls,[[attr,v]…]]}
      (cls "Obj"/"Obj2": plain attribute objects, "slice": slice(start, stop, step),
       "<bound>": a bound method of a builtin value)
  E   {"lit":PV} | {"T":[[dunder,E]…]} | {"Spec":E} | {"list":[E…]} | {"tuple":[E…]}
      | {"dict":[[E,E]…]} | {"call":{"args":[E…],"kwargs":[[name,E]…]}}
run_impl builds the real objects from the case, runs glom.glom(target, T-expression) and —
independently, on a fresh copy of the target — applies the same chain of operations directly with
Python's own operators (arguments evaluated when their operation is reached; a call is a plain
Python call).  Both legs also report the target object as it is afterwards (`impl_after`,
`direct_after`: recorded calls may change it — list.pop / append, dict.pop / setdefault) and where in
the target the very result object sits (`impl_alias`, `direct_alias`: identity, not equality).
"""
import json
import operator
import os
import warnings

from harness import pyobjs

PROP = 'C02'
LEAN_MODULES = ['Glom.Props.C02']
FACT_FILES = ['TFacts', 'ExcFacts']
READY = True
MANIFEST = dict(
    text="Lean 4 theorems, for every value type, every state type and every primitive semantics `prim` of getattr/subscription/arithmetic/calls — each operation takes a state and returns the state it leaves, so calls may CHANGE the target — (a parameter, so the statement is about glom's record-and-replay logic), every target, every start state and every T expression of any length and nesting of T / Spec(T) / list / tuple / dict arguments: `_t_eval` on the object recorded by the TType overloads (flat tuple, index stepping by 2, branch table, arg_val on every argument INSIDE the loop against the original target object in its current state, the recorded (args, kwargs) of a call handed unevaluated to Call, which evaluates callee / arguments / keyword arguments once and calls) equals the chain of operations applied directly, left to right, as a pair (outcome, state left) — also when it ends with an error (`c02_replay`); the first failing attribute/item/arithmetic step is PathAccessError(position) — for an arithmetic step whatever the right operand is, for TypeError, ZeroDivisionError, OverflowError and ValueError; the facts obligation demands that the branch's `except` clause covers these four (by the class or a base class, decided on the exception table extracted from Python) with a handler that converts unconditionally, `c02_conditional_handler_counterexample` —, a failing call keeps its class (`c02_error_classes`); a nested argument is evaluated on the original target object in the state left by the operations before it (`c02_args_from_root`); evaluating all arguments in front of the loop is NOT equivalent (`c02_hoisted_args_counterexample`); the callee of a recorded call receives the very objects its arguments evaluate to, each evaluated exactly once (`c02_call_by_reference`, `c02_args_evaluated_once`; the code shape before /repo commit db9b8f7, a second arg_val pass, does not replay: `c02_second_pass_counterexample`); per-run facts obligation `c02_facts_wf` by `decide` on the tables regenerated from /repo: every op char recorded by a TType overload has a `_t_eval` branch performing the operation its dunder denotes (no recorded operation is dropped). Model tied to the code by a three-way differential check: real glom vs the same chain applied with Python's own operators vs the compiled Lean model/reference (instance: values with object identity in a heap), comparing outcome, identity of the result object (its alias path in the target) AND the target object afterwards.",
    note="trusted: Lean kernel + {propext, Classical.choice, Quot.sound}; extractor (TType overloads, _t_eval branch table, except clauses, part_idx expression); harness/driver; Python's primitive semantics is a theorem parameter, its executable instance (Glom/Model/C02Heap.lean on top of C02Prim.lean: a heap of list/tuple/dict/object/slice/bound-method cells with identity, list.pop/append, dict.pop/setdefault/get, floor division, two's-complement bit ops, IEEE true division, slices, str/list/tuple/dict operations, a catalogue of callables) is validated on every case against CPython itself, including the final state of the target; hypothesis `PlainCallee` (the CALLEE of a recorded call is not a glom spec object stored in the target: Call.glomit passes the already evaluated callee through arg_val, a callable is a literal there; counter-example kept as theorem `c02_callee_eval_counterexample`; arguments need no hypothesis); the exemption `if op != '('` of the loop is a hard-coded character in the model, tied to the extracted branch table by the facts obligation `callCharOk` (the exempted character is the call branch's and only it); reading §6.1 (a failing call keeps its exception class; a failing nested T argument reports its own position); S/A roots, Path segments and wildcards are other properties.",
    technique='Lean 4 refinement proof (flat ops loop + arg_val recursion = direct application of the operator chain, generic in the primitive semantics) + facts obligation by decide + three-way differential correspondence',
    ref='DESIGN.md §3 C02, §6.1')
RULE = ('type-directed: a nested target (dict / list / tuple / attribute objects / str / int / bool / None / '
        'catalogue callables) is generated first; the chain is then grown step by step, each step chosen '
        'among the operations valid for the type of the value reached so far (computed by applying the '
        'step with Python itself): .attr, [key], [index], [slice], (call) of catalogue functions and '
        'builtin methods, + - * / // % ** & | ^ ~ neg; arguments are literals or — with probability ~0.3 — '
        'nested T / Spec(T) expressions (or list/tuple/dict literals containing them) drawn from an index '
        'of the access paths of the ORIGINAL target that yield a value of the needed type; depth <= 6 '
        '(quick) / <= 9 (thorough). A one-edit mutation stream replaces the step at every position by a '
        'failing one (missing key/attr, index out of range, wrong operand type, zero divisor, 0 ** -1, '
        'calling a non-callable, wrong arity, a called function raising Key/Value/Type/ZeroDivision/'
        'Attribute/IndexError, a failing nested T argument, an unhashable key in a dict argument). '
        'Calls that change the target (list.pop([i]) / append(x), dict.pop(k[, d]) / setdefault(k, v)) are '
        'ordinary steps; after one, the index of access paths is rebuilt so that later nested arguments read '
        'the changed containers; templates T[l].pop() <op> T[l][i], … + len(T[l]), dict pop / setdefault then a '
        'read of the same key; thorough: every (list op) x (later nested read) x (outer operator) on a small '
        'list. Reference templates: the identity / mklist / kw catalogue functions called with containers of '
        'the target (the result must BE the target\'s object: alias path compared), mutation through the returned '
        'argument followed by a read of the same container, a T object stored in the target passed as '
        '(keyword) argument or inside a list argument (must come back as that object, compared by repr). '
        'Targets are trees (no object reachable by two paths) — sharing only arises during evaluation. '
        'Non-callable callee templates: T[f](args…) with target[f] an int / str / None / float / list / tuple / '
        'dict / attribute object (or the target itself) x fine / failing / target-changing nested T arguments, '
        'positional and keyword, in every order (the arguments are evaluated before the call finds out that '
        'the value cannot be called); the same as a one-edit mutation at every position. '
        'Numbers of every type: targets carry floats (0.0, -0.0, 1.5, 1e308 …), a zero of some numeric type '
        '(0 / False / 0.0 / -0.0), a mostly negative exponent and sometimes an int beyond the range of a double; '
        'valid steps include int <op> float, float // % **, int ** negative. FAILING-ARITHMETIC STREAM (a fifth '
        'of the cases, and 45% of the one-edit mutations on a number): the failing step is chosen by the CLASS '
        'of error the plain Python operation raises on the value reached, for every class each operator can '
        'raise on the modelled types — ZeroDivisionError (/ // % by a zero of any numeric type; ** of a zero '
        'int / bool / float / -0.0 base to a negative int or float power: a non-zero right operand), TypeError '
        '(foreign operand types, & | ^ ~ on floats, str % with too few / wrong arguments), OverflowError (float ** '
        'big, an int beyond 2**1024 meeting a float on either side, int / int beyond the range of a double, '
        'int ** negative with such a base, seq * an int beyond Py_ssize_t, "%c" % big), ValueError (str % x with a '
        'malformed format) — with a literal or (probability 1/2) nested T / Spec(T) right operand read from the '
        'original target; when the value reached cannot fail that way, one valid step in front makes it suitable '
        '(x * 0, x + 10**400, s + "%"); the case is kept only when the chain applied directly in Python fails '
        'at the intended position; operations behind the failing one are never reached. thorough: every '
        'binary operator x 14 left operands x 16 right operands (zeros, negative / big exponents, huge ints, '
        'foreign types) with literal and nested-T right operand. '
        'non-trivial = at least two operations, or a failing chain, or a nested T argument; '
        'distinct = distinct (target, expression)')
TRUSTED = ['Glom/Model/C02Prim.lean (executable instance of the primitive semantics) is validated against '
           'CPython on every generated case (third leg of the comparison), not verified',
           'strings are ASCII; floats are compared by float.hex(); + - * / and unary minus on floats, int / int and '
           'float(int) for ints of any size (round-half-even by integer arithmetic), exact powers of two are '
           'reproduced bit for bit; for float // %, x ** y through libm pow the kernel decides the CLASS of the '
           'outcome (a float / ZeroDivisionError / OverflowError / TypeError) and returns an opaque float that '
           'matches any float (observations are compared modulo opaque floats; the property itself is then '
           'evaluated against Python\'s own result); x / opaque, opaque ** x, x ** opaque, a power within 0.01 of '
           'the overflow threshold in log2, complex results, inf / nan operands of **, str % x are outside the '
           'kernel (property still evaluated against Python\'s own result)',
           'the extractor lists a class of an `except` clause of _t_eval only when the handler\'s whole body is '
           '`pae = PathAccessError(e, Path(_t), <position>)`']
ASSUMPTIONS = ['the CALLEE of a recorded call is not a glom spec object stored in the target (Call.glomit runs '
               'arg_val over the already evaluated callee: glom({"g": T["f"], "f": ident}, T["g"](1)) calls ident, '
               'target["g"](1) would build the expression T["f"](1)); stored T objects as ARGUMENTS are fine and '
               'generated (evaluated once since /repo commit db9b8f7)',
               'the target is a tree when the evaluation starts (no object reachable by two paths)',
               'T-rooted expressions; S/A roots are C07, Path segments C01, wildcards C14',
               'Spec arguments wrap T expressions; Val/Call/other spec objects as arguments are outside the fragment',
               'reading DESIGN §6.1: an exception raised by a called function keeps its class; '
               'a failing nested T argument surfaces with its own position']

warnings.simplefilter('ignore', DeprecationWarning)

# ---------------------------------------------------------------- catalogue of callables


def inc(x):
    return x + 1


def add2(a, b):
    return a + b


def neg(x):
    return -x


def ident(x):
    return x


def kw(a, b=10):
    return a - b


def mklist(*args):
    return list(args)


def const7():
    return 7


def raise_value(*a, **k):
    raise ValueError('boom')


def raise_key(*a, **k):
    raise KeyError('boom')


def raise_type(*a, **k):
    raise TypeError('boom')


def raise_zero(*a, **k):
    raise ZeroDivisionError('boom')


def raise_attr(*a, **k):
    raise AttributeError('boom')


def raise_index(*a, **k):
    raise IndexError('boom')


FUNCS = {f.__name__: f for f in [inc, add2, neg, ident, kw, mklist, const7, raise_value, raise_key,
                                 raise_type, raise_zero, raise_attr, raise_index, len]}
FUNC_NAME = {id(f): n for n, f in FUNCS.items()}
RAISERS = ['raise_value', 'raise_key', 'raise_type', 'raise_zero', 'raise_attr', 'raise_index']
METHODS = {'str': ['upper', 'count', 'index', 'startswith'], 'list': ['count', 'index', 'pop', 'append'],
           'tuple': ['count', 'index'], 'dict': ['get', 'pop', 'setdefault']}
MUTATORS = ('pop', 'append', 'setdefault')
# calls that change the target: the Lean model threads the target's state through the replay
# (Model/C02.lean: every function takes and returns the state; Model/C02Heap.lean: values with
# object identity in a heap)
STATEFUL = True

# ---------------------------------------------------------------- PV codec


def dec(j):
    if j is None:
        return None
    if 'b' in j:
        return j['b']
    if 'i' in j:
        return j['i']
    if 's' in j:
        return j['s']
    if 'f' in j:
        return float.fromhex(j['f'])
    if 'l' in j:
        return [dec(x) for x in j['l']]
    if 't' in j:
        return tuple(dec(x) for x in j['t'])
    if 'd' in j:
        return {dec(k): dec(v) for k, v in j['d']}
    if 'fn' in j:
        return FUNCS[j['fn']]
    if 'sent' in j:
        return tobjs()[j['sent']]            # a glom T object stored in the target as plain data
    if 'o' in j:
        cls, attrs = j['o']
        if cls == 'slice':
            a = dict((k, dec(v)) for k, v in attrs)
            return slice(a['start'], a['stop'], a['step'])
        if cls == '<bound>':
            a = dict((k, dec(v)) for k, v in attrs)
            return getattr(a['self'], a['name'])
        o = pyobjs.CLASSES[cls].__new__(pyobjs.CLASSES[cls])
        for k, v in attrs:
            o.__dict__[k] = dec(v)
        return o
    raise ValueError('cannot decode %r' % (j,))


_TOBJS = {}


def tobjs():
    """the T objects a target may contain as data, by their repr"""
    if not _TOBJS:
        from glom import T
        for t in (T['b'], T['n'], T['l'][0], T['zz']):
            _TOBJS[repr(t)] = t
    return _TOBJS


def enc(v, depth=0):
    if depth > 40:
        return {'sent': '<deep>'}
    if type(v).__name__ == 'TType':
        return {'sent': repr(v)}
    if v is None:
        return None
    if isinstance(v, bool):
        return {'b': v}
    if isinstance(v, int):
        return {'i': v}
    if isinstance(v, str):
        return {'s': v}
    if isinstance(v, float):
        return {'f': v.hex()}
    if type(v) is list:
        return {'l': [enc(x, depth + 1) for x in v]}
    if type(v) is tuple:
        return {'t': [enc(x, depth + 1) for x in v]}
    if type(v) is dict:
        return {'d': [[enc(k, depth + 1), enc(x, depth + 1)] for k, x in v.items()]}
    if id(v) in FUNC_NAME:
        return {'fn': FUNC_NAME[id(v)]}
    if type(v) is slice:
        return {'o': ['slice', [['start', enc(v.start)], ['stop', enc(v.stop)], ['step', enc(v.step)]]]}
    if type(v) in (pyobjs.Obj, pyobjs.Obj2):
        return {'o': [type(v).__name__, [[k, enc(x, depth + 1)] for k, x in v.__dict__.items()]]}
    slf = getattr(v, '__self__', None)
    if slf is not None and type(v).__name__ == 'builtin_function_or_method' and not isinstance(slf, type(os)):
        return {'o': ['<bound>', [['self', enc(slf, depth + 1)], ['name', {'s': v.__name__}]]]}
    return {'sent': '<%s>' % type(v).__name__}


# ---------------------------------------------------------------- the chain applied directly in Python
BIN = {'__add__': operator.add, '__sub__': operator.sub, '__mul__': operator.mul,
       '__floordiv__': operator.floordiv, '__truediv__': operator.truediv, '__mod__': operator.mod,
       '__pow__': operator.pow, '__and__': operator.and_, '__or__': operator.or_,
       '__xor__': operator.xor}
KIND = {'__getattr__': 'getattr', '__getitem__': 'getitem', '__call__': 'call', '__add__': 'add',
        '__sub__': 'sub', '__mul__': 'mul', '__floordiv__': 'floordiv', '__truediv__': 'truediv',
        '__mod__': 'mod', '__pow__': 'pow', '__and__': 'and', '__or__': 'or', '__xor__': 'xor',
        '__invert__': 'invert', '__neg__': 'neg'}
UNARY = ('__invert__', '__neg__')


class DirectFail(Exception):
    def __init__(self, obs):
        self.obs = obs


def apply_op(d, cur, av):
    """the Python operation the dunder denotes, applied directly"""
    if d == '__getattr__':
        return getattr(cur, av)
    if d == '__getitem__':
        return cur[av]
    if d == '__call__':
        args, kwargs = av
        return cur(*args, **kwargs)           # a plain Python call: arguments by reference
    if d == '__invert__':
        return ~cur
    if d == '__neg__':
        return -cur
    return BIN[d](cur, av)


def direct_arg(e, target):
    if 'lit' in e:
        return dec(e['lit'])
    if 'T' in e:
        return direct_chain(e['T'], target)
    if 'Spec' in e:
        return direct_arg(e['Spec'], target)
    if 'list' in e:
        return [direct_arg(x, target) for x in e['list']]
    if 'tuple' in e:
        return tuple(direct_arg(x, target) for x in e['tuple'])
    if 'dict' in e:
        out = {}                  # a dict display: key, value, insert — entry by entry
        for k, v in e['dict']:
            kk, vv = direct_arg(k, target), direct_arg(v, target)
            try:
                out[kk] = vv
            except Exception as ex:
                raise DirectFail({'raised': type(ex).__name__})
        return out
    if 'call' in e:
        return ([direct_arg(x, target) for x in e['call']['args']],
                {k: direct_arg(x, target) for k, x in e['call']['kwargs']})
    raise ValueError(e)


def direct_chain(steps, target):
    cur = target
    for k, (d, a) in enumerate(steps):
        # the argument is evaluated now — after the operations before it —, against the ORIGINAL
        # target object in its current state
        av = None if d in UNARY else direct_arg(a, target)
        try:
            cur = apply_op(d, cur, av)
        except Exception as ex:
            raise DirectFail({'fail': {'k': k, 'kind': KIND[d], 'exc': type(ex).__name__}})
    return cur


def direct_obs(expr, target):
    """(observation, the result object or None)"""
    try:
        res = direct_chain(expr['T'], target)
        return {'ok': enc(res)}, res
    except DirectFail as f:
        return f.obs, None


def alias_path(root, x):
    """where the very object `x` (identity) sits in `root`: the first access path, depth-first in
    container order, as a PV list of dict keys / indices / attribute names; None when `x` is not
    a list / dict / attribute object or is not reachable"""
    if type(x) not in (list, dict, pyobjs.Obj, pyobjs.Obj2):
        return None
    seen = set()

    def walk(v, path):
        if v is x:
            return path
        if type(v) not in (list, tuple, dict, pyobjs.Obj, pyobjs.Obj2) or id(v) in seen:
            return None
        seen.add(id(v))
        if type(v) is dict:
            kids = [(enc(k), c) for k, c in v.items()]
        elif type(v) in (list, tuple):
            kids = [({'i': i}, c) for i, c in enumerate(v)]
        else:
            kids = [({'s': k}, c) for k, c in v.__dict__.items()]
        for step, c in kids:
            p = walk(c, path + [step])
            if p is not None:
                return p
        return None
    p = walk(root, [])
    return None if p is None else {'l': p}


# ---------------------------------------------------------------- building the real T expression
def build_arg(e):
    from glom import Spec
    if 'lit' in e:
        return dec(e['lit'])
    if 'T' in e:
        return build_t(e['T'])
    if 'Spec' in e:
        return Spec(build_arg(e['Spec']))
    if 'list' in e:
        return [build_arg(x) for x in e['list']]
    if 'tuple' in e:
        return tuple(build_arg(x) for x in e['tuple'])
    if 'dict' in e:
        return {build_arg(k): build_arg(v) for k, v in e['dict']}
    raise ValueError(e)


def build_t(steps):
    """write the expression the way a user does: with Python's operators on T"""
    from glom import T
    t = T
    for d, a in steps:
        if d == '__getattr__':
            t = getattr(t, dec(a['lit']))
        elif d == '__getitem__':
            t = t[build_arg(a)]
        elif d == '__call__':
            t = t(*[build_arg(x) for x in a['call']['args']],
                  **{k: build_arg(x) for k, x in a['call']['kwargs']})
        elif d == '__invert__':
            t = ~t
        elif d == '__neg__':
            t = -t
        else:
            t = BIN[d](t, build_arg(a))
    return t


def exc_name(e):
    for c in type(e).__mro__:
        if not c.__name__.startswith('GlomError.wrap'):
            return c.__name__
    return type(e).__name__


def run_impl(case):
    import glom
    from glom import GlomError, PathAccessError
    out = {k: v for k, v in case.items() if k not in ('impl', 'direct', 'impl_after', 'direct_after', 'impl_alias', 'direct_alias')}
    target = dec(case['target'])
    if case.get('prebuild'):
        # a twin expression (equal-but-differently-typed literal at one position) written first in
        # the same process: what `T…` records for the second must not depend on the first
        try:
            glom.glom(dec(case['target']), build_t(case['prebuild']['T']))
        except Exception:
            pass
    spec = build_t(case['expr']['T'])
    res = None
    try:
        res = glom.glom(target, spec)
    except PathAccessError as e:
        out['impl'] = {'pae': {'idx': e.part_idx, 'exc': exc_name(e.exc),
                               'glom': isinstance(e, GlomError)}}
    except Exception as e:
        out['impl'] = {'other': exc_name(e)}
    else:
        out['impl'] = {'ok': enc(res)}
    out['impl_after'] = enc(target)          # what the recorded calls did to the target object
    out['impl_alias'] = alias_path(target, res)     # is the result one of the target's own objects?
    # the same chain, applied directly with Python's own operators to a fresh copy of the target
    fresh = dec(case['target'])
    out['direct'], dres = direct_obs(case['expr'], fresh)
    out['direct_after'] = enc(fresh)
    out['direct_alias'] = alias_path(fresh, dres)
    return out


# ---------------------------------------------------------------- generators
NAMES = ['a', 'b', 'c', 'k0']
INTS = [0, 1, 2, 3, 5, 7, -1, -3, -7, 10, 12, 255, -256, 1000]
FLOATS = [0.0, -0.0, 0.5, 1.5, -2.5, 2.0, 3.0, -1.0, 0.1, 4.0, -8.0, 1e-300, 1e308, 2.0 ** 60]
ZEROS = [0, False, 0.0, -0.0]                       # zero divisors / zero bases, of every numeric type
NEGS = [-1, -2, -3, -7, -0.5, -1.0, -2.5]           # negative exponents
HUGE = [10 ** 400, -(10 ** 400), 2 ** 1024, 10 ** 310]      # ints beyond the range of a double
BIGEXP = [10000, 5000, 10 ** 6, 1e10]               # exponents that take |x| > 1 beyond the range of a double
STRS = ['abc', 'x', '', 'a.b', 'hello world', "it's", 'a"b', 'back\\slash', 'aaa']


def lit(v):
    return {'lit': enc(v)}


def gen_scalar(r):
    p = r.random()
    if p < 0.45:
        return r.choice(INTS)
    if p < 0.65:
        return r.choice(STRS)
    if p < 0.8:
        return r.choice([True, False])
    if p < 0.88:
        return None
    if p < 0.93:
        return r.choice(FLOATS)
    return r.choice([10 ** 12, -(2 ** 40), 2 ** 70])


def gen_value(r, depth):
    p = r.random()
    if depth <= 0 or p < 0.3:
        return gen_scalar(r)
    if p < 0.55:
        keys = r.sample(NAMES + [0, 1, 'x y', 'f'], r.choice([1, 2, 3, 3, 4]))
        return {k: (FUNCS[r.choice(list(FUNCS))] if k == 'f' else gen_value(r, depth - 1)) for k in keys}
    if p < 0.72:
        return [gen_value(r, depth - 1) for _ in range(r.choice([0, 1, 2, 3, 4]))]
    if p < 0.82:
        return tuple(gen_value(r, depth - 1) for _ in range(r.choice([0, 1, 2, 3])))
    if p < 0.94:
        cls = r.choice([pyobjs.Obj, pyobjs.Obj, pyobjs.Obj2])
        return cls(**{k: gen_value(r, depth - 1) for k in r.sample(NAMES, r.choice([1, 2, 3]))})
    return FUNCS[r.choice(list(FUNCS))]


def gen_target(r):
    """a root that offers several kinds of values to nested T arguments"""
    p = r.random()
    if p < 0.12:
        return gen_scalar(r)
    root = {}
    root['n'] = r.choice(INTS)
    root['m'] = r.choice(INTS + [0, 0])
    root['s'] = r.choice(STRS)
    root['x'] = r.choice(FLOATS)                    # a float
    root['z'] = r.choice(ZEROS)                     # a zero of some numeric type
    root['e'] = r.choice(NEGS + [True, 2, 0.5])     # an exponent, mostly negative
    if r.random() < 0.3:
        root['h'] = r.choice(HUGE + BIGEXP)
    root['l'] = [gen_scalar(r) for _ in range(r.choice([0, 1, 3, 4]))]
    root['t'] = tuple(r.choice(INTS) for _ in range(r.choice([0, 2, 3])))
    root['o'] = pyobjs.Obj(a=gen_value(r, 2), b=r.choice(INTS), f=FUNCS[r.choice(list(FUNCS))])
    root['d'] = gen_value(r, 2) if r.random() < 0.7 else {'a': 1, 'b': {'c': [1, 2, 3]}}
    for fn in r.sample(list(FUNCS), r.choice([2, 3, 5])):
        root[fn] = FUNCS[fn]
    if r.random() < 0.35:
        root[r.choice(RAISERS)] = FUNCS[r.choice(RAISERS)]
    if p < 0.3:
        return pyobjs.Obj(**{k: v for k, v in root.items()})
    if p < 0.4:
        return [root['n'], root['s'], root['l'], root['d'], root['x'], root['z'], root['e']]
    return root


def sources(target, maxdepth=3):
    """[(steps, value)] for the access paths of the target (getitem / getattr only)"""
    out = []

    def walk(v, steps, depth):
        out.append((steps, v))
        if depth >= maxdepth:
            return
        if type(v) is dict:
            for k, x in v.items():
                walk(x, steps + [['__getitem__', lit(k)]], depth + 1)
        elif type(v) in (list, tuple):
            for i, x in enumerate(v[:4]):
                walk(x, steps + [['__getitem__', lit(i)]], depth + 1)
        elif type(v) in (pyobjs.Obj, pyobjs.Obj2):
            for k, x in v.__dict__.items():
                walk(x, steps + [['__getattr__', lit(k)]], depth + 1)
    walk(target, [], 0)
    return out


def is_int(v):
    return isinstance(v, int)


def is_intnb(v):
    return isinstance(v, int) and not isinstance(v, bool)


def is_num(v):
    return isinstance(v, (int, float))


def is_finite(v):
    return isinstance(v, int) or (isinstance(v, float) and v == v and abs(v) != float('inf'))


class Gen:
    def __init__(self, r, target, nested_p=0.3):
        self.r = r
        self.target = target
        self.src = sources(target)
        self.nested_p = nested_p
        self.nested_used = False

    def arg(self, pred, literal):
        """an argument expression whose value satisfies `pred`: a nested T / Spec(T) over the
        original target when one exists (probability nested_p), else the given literal"""
        r = self.r
        if r.random() < self.nested_p:
            cands = [s for s, v in self.src if pred(v)]
            if cands:
                self.nested_used = True
                e = {'T': r.choice(cands)}
                q = r.random()
                if q < 0.15:
                    return {'Spec': e}
                return e
        return self.container(literal)

    def container(self, v):
        """encode a literal; list / tuple / dict literals are spelled structurally and may
        get one member replaced by a nested T with the same value"""
        r = self.r
        if type(v) is list:
            return {'list': [self.member(x) for x in v]}
        if type(v) is tuple:
            return {'tuple': [self.member(x) for x in v]}
        if type(v) is dict:
            return {'dict': [[self.member(k, key=True), self.member(x)] for k, x in v.items()]}
        return lit(v)

    def member(self, x, key=False):
        r = self.r
        if r.random() < 0.25:
            cands = [s for s, v in self.src if type(v) is type(x) and v == x
                     and type(v) in (int, str, bool, type(None))]
            if cands:
                self.nested_used = True
                return {'T': r.choice(cands)}
        return self.container(x)

    # one valid step for the current value; returns [dunder, E] or None
    def step(self, cur):
        r = self.r
        opts = []
        if type(cur) is dict:
            if cur:
                opts += ['key'] * 6 + (['dpop'] if STATEFUL else [])
            opts += ['get', 'dor'] + (['dsetdefault'] if STATEFUL else [])
        elif type(cur) in (list, tuple):
            if cur:
                opts += ['idx'] * 4 + ['scount', 'sindex']
                if type(cur) is list and STATEFUL:
                    opts += ['lpop'] * 2
            if type(cur) is list and STATEFUL:
                opts += ['lappend']
            opts += ['slice'] * 2 + ['sadd', 'smul']
        elif type(cur) is str:
            if cur:
                opts += ['idx'] * 2
            opts += ['slice', 'stradd', 'smul', 'upper', 'strcount', 'startswith']
        elif isinstance(cur, bool):
            opts += ['arith'] * 3 + ['bit'] * 3 + ['unary'] + ['npow', 'ifloat']
        elif isinstance(cur, int):
            opts += ['arith'] * 6 + ['bit'] * 2 + ['unary'] * 2 + ['pow'] + ['npow', 'ifloat']
        elif isinstance(cur, float):
            opts += ['farith'] * 3 + ['fneg'] + ['ffloor', 'fpow']
        elif type(cur) in (pyobjs.Obj, pyobjs.Obj2):
            opts += ['attr']
        elif id(cur) in FUNC_NAME:
            opts += ['callfn']
        elif type(cur).__name__ == 'builtin_function_or_method':
            opts += ['callmeth']
        if not opts:
            return None
        o = r.choice(opts)
        if o in ('lpop', 'dpop'):
            return ['__getattr__', lit('pop')]
        if o == 'lappend':
            return ['__getattr__', lit('append')]
        if o == 'dsetdefault':
            return ['__getattr__', lit('setdefault')]
        if o == 'key':
            k = r.choice(list(cur))
            return ['__getitem__', self.arg(lambda v: type(v) is type(k) and v == k, k)]
        if o == 'get':
            k = r.choice(list(cur) + ['zz'])
            return ['__getattr__', lit('get')]
        if o == 'dor':
            d = {r.choice(NAMES): r.choice(INTS)}
            return ['__or__', self.arg(lambda v: type(v) is dict, d)]
        if o == 'idx':
            n = len(cur)
            i = r.randrange(n)
            if r.random() < 0.3:
                i -= n
            return ['__getitem__', self.arg(lambda v: is_int(v) and -n <= v < n, i)]
        if o == 'slice':
            f = lambda: r.choice([None, None, 0, 1, 2, 3, -1, -2, -5, 7])
            st = r.choice([None, None, None, 1, 2, -1, -2, 3])
            return ['__getitem__', lit(slice(f(), f(), st))]
        if o == 'sadd':
            extra = [gen_scalar(r) for _ in range(r.choice([0, 1, 2]))]
            extra = extra if type(cur) is list else tuple(extra)
            return ['__add__', self.arg(lambda v: type(v) is type(cur) and len(v) < 6, extra)]
        if o == 'smul':
            return ['__mul__', self.arg(lambda v: is_int(v) and -1 <= v <= 3, r.choice([0, 1, 2, 3, -1, True]))]
        if o in ('scount', 'sindex'):
            return ['__getattr__', lit('count' if o == 'scount' else 'index')]
        if o == 'stradd':
            return ['__add__', self.arg(lambda v: type(v) is str and len(v) < 12, r.choice(STRS))]
        if o == 'upper':
            return ['__getattr__', lit('upper')]
        if o == 'strcount':
            return ['__getattr__', lit(r.choice(['count', 'index']))]
        if o == 'startswith':
            return ['__getattr__', lit('startswith')]
        if o == 'arith':
            d = r.choice(['__add__', '__sub__', '__mul__', '__floordiv__', '__mod__', '__truediv__',
                          '__floordiv__', '__mod__'])
            if d in ('__floordiv__', '__mod__', '__truediv__'):
                pred = lambda v: is_int(v) and v != 0 and abs(v) < 10 ** 15
                v = r.choice([x for x in INTS if x != 0])
            else:
                pred = lambda v: is_int(v) and abs(v) < 10 ** 15
                v = r.choice(INTS + [True])
            if d == '__truediv__' and abs(cur) >= 2 ** 53:
                d = '__floordiv__'
            return [d, self.arg(pred, v)]
        if o == 'bit':
            d = r.choice(['__and__', '__or__', '__xor__'])
            v = r.choice(INTS + [True, False])
            return [d, self.arg(lambda v: is_int(v) and abs(v) < 10 ** 15, v)]
        if o == 'unary':
            return [r.choice(UNARY), lit(None)]
        if o == 'pow':
            if abs(cur) > 1000:
                return ['__neg__', lit(None)]
            return ['__pow__', self.arg(lambda v: is_int(v) and 0 <= v <= 4, r.choice([0, 1, 2, 3, 4]))]
        if o == 'farith':
            d = r.choice(['__add__', '__sub__', '__mul__', '__truediv__'])
            v = r.choice([x for x in INTS if x != 0] + [1.5, 0.5, -2.5, 0.1])
            return [d, self.arg(lambda v: is_num(v) and not isinstance(v, bool) and is_finite(v)
                                and v != 0 and abs(v) < 10 ** 6, v)]
        if o == 'fneg':
            return ['__neg__', lit(None)]
        if o == 'npow':
            # int ** negative int: a float (float(a) ** float(b)); a zero base is the failing twin
            if cur == 0 or abs(cur) > 10 ** 6:
                return ['__neg__', lit(None)]
            return ['__pow__', self.arg(lambda v: is_intnb(v) and -8 <= v < 0, r.choice([-1, -2, -3]))]
        if o == 'ifloat':
            # int <op> float: the int is converted first
            d = r.choice(['__add__', '__sub__', '__mul__', '__truediv__', '__floordiv__', '__mod__'])
            if abs(cur) > 10 ** 300:
                return ['__neg__', lit(None)]
            return [d, self.arg(lambda v: type(v) is float and is_finite(v) and v != 0,
                                r.choice([f for f in FLOATS if f != 0 and abs(f) < 1e100]))]
        if o == 'ffloor':
            # float // x, float % x (C fmod: the kernel knows the result is a float, not its value)
            d = r.choice(['__floordiv__', '__mod__'])
            return [d, self.arg(lambda v: is_num(v) and is_finite(v) and v != 0 and abs(v) < 10 ** 300,
                                r.choice([2, 3, -7, 1.5, 0.5, -2.5, True]))]
        if o == 'fpow':
            if not is_finite(cur):
                return ['__neg__', lit(None)]
            if cur == 0:
                return ['__pow__', lit(r.choice([0, 1, 2, 3, 0.5, True]))]
            if abs(cur) > 1e30 or abs(cur) < 1e-30:
                return ['__pow__', lit(r.choice([0, 1, -1, True]))]
            if cur < 0:
                return ['__pow__', self.arg(lambda v: is_intnb(v) and -4 <= v <= 4, r.choice([0, 1, 2, 3, -1, -2]))]
            return ['__pow__', self.arg(lambda v: is_num(v) and is_finite(v) and abs(v) <= 4,
                                        r.choice([0, 1, 2, 3, -1, -2, 0.5, -0.5, 1.5, False]))]
        if o == 'attr':
            k = r.choice(list(cur.__dict__))
            return ['__getattr__', lit(k)]
        if o == 'callfn':
            return ['__call__', self.call_args(FUNC_NAME[id(cur)])]
        if o == 'callmeth':
            return ['__call__', self.meth_args(cur)]
        return None

    def call_args(self, name):
        r = self.r
        ai = lambda: self.arg(lambda v: is_int(v) and abs(v) < 10 ** 15, r.choice(INTS))
        if name in ('inc', 'neg'):
            return {'call': {'args': [ai()], 'kwargs': []}} if r.random() < 0.8 else \
                   {'call': {'args': [], 'kwargs': [['x', ai()]]}}
        if name == 'add2':
            if r.random() < 0.7:
                return {'call': {'args': [ai(), ai()], 'kwargs': []}}
            s = lambda: self.arg(lambda v: type(v) is str and len(v) < 12, r.choice(STRS))
            return {'call': {'args': [s()], 'kwargs': [['b', s()]]}}
        if name == 'ident':
            v = r.choice([gen_scalar(r), [1, 2], (1,), {'a': 1}, (), []])
            return {'call': {'args': [self.arg(lambda v: True, v)], 'kwargs': []}}
        if name == 'kw':
            q = r.random()
            if q < 0.3:
                return {'call': {'args': [ai()], 'kwargs': []}}
            if q < 0.6:
                return {'call': {'args': [ai()], 'kwargs': [['b', ai()]]}}
            if q < 0.8:
                return {'call': {'args': [ai(), ai()], 'kwargs': []}}
            return {'call': {'args': [], 'kwargs': [['b', ai()], ['a', ai()]]}}
        if name == 'mklist':
            return {'call': {'args': [self.arg(lambda v: True, gen_scalar(r))
                                      for _ in range(r.choice([0, 1, 2, 3]))], 'kwargs': []}}
        if name == 'const7':
            return {'call': {'args': [], 'kwargs': []}}
        if name == 'len':
            v = r.choice(['abc', [1, 2], (), {'a': 1}, ''])
            return {'call': {'args': [self.arg(lambda v: type(v) in (str, list, tuple, dict), v)],
                             'kwargs': []}}
        # raisers: any arguments
        return {'call': {'args': [lit(r.choice(INTS))] if r.random() < 0.5 else [], 'kwargs': []}}

    def meth_args(self, m):
        r = self.r
        slf, name = m.__self__, m.__name__
        if name == 'upper':
            return {'call': {'args': [], 'kwargs': []}}
        if name == 'pop' and type(slf) is list:
            if not slf or r.random() < 0.6:
                return {'call': {'args': [], 'kwargs': []}}
            return {'call': {'args': [self.arg(lambda v: is_int(v) and -len(slf) <= v < len(slf),
                                               r.randrange(len(slf)))], 'kwargs': []}}
        if name == 'append':
            return {'call': {'args': [self.arg(lambda v: True, gen_scalar(r))], 'kwargs': []}}
        if name == 'pop' and type(slf) is dict:
            ks = [k for k in slf if type(k) in (int, str)] or ['zz']
            k = r.choice(ks)
            if r.random() < 0.3:
                return {'call': {'args': [lit(r.choice([k, 'zz'])), lit(r.choice(INTS))], 'kwargs': []}}
            return {'call': {'args': [self.arg(lambda v: type(v) is type(k) and v == k, k)], 'kwargs': []}}
        if name == 'setdefault':
            ks = [k for k in slf if type(k) in (int, str)] + ['zz', 'new']
            return {'call': {'args': [lit(r.choice(ks)), self.arg(is_int, r.choice(INTS))], 'kwargs': []}}
        if name in ('count', 'index') and type(slf) is str:
            sub = r.choice([slf[:1], slf[1:2], 'a', 'zz', '']) if name == 'count' else \
                r.choice([slf[:1], slf[1:3], slf[:1], 'zz'])
            return {'call': {'args': [self.arg(lambda v: type(v) is str and v in slf and len(v) < 5, sub)],
                             'kwargs': []}}
        if name == 'startswith':
            return {'call': {'args': [self.arg(lambda v: type(v) is str, r.choice([slf[:2], 'a', '']))],
                             'kwargs': []}}
        if name in ('count', 'index'):
            simple = [x for x in slf if type(x) in (int, str, bool, type(None))]
            if simple and (name == 'index' or r.random() < 0.8):
                x = r.choice(simple)
            else:
                x = r.choice([0, 'zz', None]) if name == 'count' else (simple[0] if simple else 0)
            return {'call': {'args': [lit(x)], 'kwargs': []}}
        if name == 'get':
            ks = [k for k in slf if type(k) in (int, str)] + ['zz']
            k = r.choice(ks)
            if r.random() < 0.4:
                return {'call': {'args': [lit(k), self.arg(is_int, r.choice(INTS))], 'kwargs': []}}
            return {'call': {'args': [self.arg(lambda v: type(v) is type(k) and v == k, k)], 'kwargs': []}}
        return {'call': {'args': [], 'kwargs': []}}

    # ------------------------------------------------------------ failing arithmetic, by error class
    def arith_fail(self, cur, cls=None):
        """steps ending in an arithmetic operation that FAILS, chosen by the class of error the
        plain Python operation raises on the value reached — every class each operator can raise on
        the modelled value types:
          ZeroDivisionError  / // % by a zero of any numeric type (0, False, 0.0, -0.0);
                             ** of a zero base (int, bool, float, -0.0) to a negative int / float power
          TypeError          a right operand of a foreign type; & | ^ ~ on floats
          OverflowError      float ** big; an int beyond the range of a double meeting a float
                             (either side) or dividing to a quotient beyond it; int ** negative with such
                             a base; seq * an int beyond Py_ssize_t; '%c' % big
          ValueError         str % x with a malformed format
        The right operand is a literal or a nested T / Spec(T) reading a suitable value of the original
        target.  When the value reached cannot fail that way as it is, one valid step in front makes it
        suitable (x * 0, x + 10**400, s + '%'): the failing operation is then the LAST step returned."""
        r = self.r
        num = isinstance(cur, (int, float)) and is_finite(cur)
        seq = type(cur) in (str, list, tuple)
        classes = []
        if num:
            classes += ['zd-div'] * 3 + ['zd-pow'] * 4 + ['type'] * 2 + ['ovf-pow', 'ovf-conv', 'ovf-conv', 'ovf-cur']
        if seq:
            classes += ['type', 'ovf-seq', 'ovf-seq']
        if type(cur) is str:
            classes += ['value', 'value', 'fmt-type', 'ovf-fmt']
        if not classes:
            classes = ['type']
        c = cls if cls in classes else r.choice(classes)
        if c == 'zd-div':
            d = r.choice(['__truediv__', '__floordiv__', '__mod__'])
            return [[d, self.arg(lambda v: is_num(v) and v == 0, r.choice(ZEROS))]]
        if c == 'zd-pow':
            pre = []
            if cur != 0:
                # a zero of the value's own type first: x * 0 (0, 0.0, -0.0 for a negative float)
                pre = [['__mul__', self.arg(lambda v: is_num(v) and v == 0 and not isinstance(v, float),
                                            r.choice([0, False]))]]
            neg = self.arg(lambda v: is_num(v) and is_finite(v) and v < 0 and abs(v) < 10 ** 6, r.choice(NEGS))
            return pre + [['__pow__', neg]]
        if c == 'type':
            if isinstance(cur, float) and r.random() < 0.4:
                if r.random() < 0.3:
                    return [['__invert__', lit(None)]]
                return [[r.choice(['__and__', '__or__', '__xor__']),
                         self.arg(lambda v: is_intnb(v) and abs(v) < 100, r.choice([1, 3, 0]))]]
            d = r.choice(['__add__', '__sub__', '__mul__', '__truediv__', '__floordiv__', '__mod__', '__pow__',
                          '__and__', '__or__', '__xor__'])
            bad = self.arg(lambda v: v is None or type(v) is dict, r.choice([None, {'a': 1}]))
            if type(cur) is str and d in ('__mod__', '__mul__', '__add__'):
                d = '__sub__'
            if type(cur) in (list, tuple) and d in ('__mul__', '__add__'):
                d = '__truediv__'
            if type(cur) is dict and d == '__or__':
                d = '__and__'
            return [[d, bad]]
        if c == 'ovf-pow':
            # float ** big (|x| > 1), int ** big float
            pre = []
            if isinstance(cur, float) and abs(cur) > 1.0 and abs(cur) < 1e300:
                pass
            elif isinstance(cur, int) and abs(cur) >= 2:
                return [['__pow__', self.arg(lambda v: type(v) is float and is_finite(v) and v >= 5000,
                                             r.choice([1e4, 1e10]))]]
            else:
                pre = [['__add__', lit(r.choice([2.5, 3.0]))]] if cur >= 0 else [['__sub__', lit(2.5)]]
                if isinstance(cur, float) and abs(cur) >= 1e300:
                    pre = [['__truediv__', lit(1e299)], ['__add__', lit(2.5)]] if cur > 0 else \
                          [['__truediv__', lit(1e299)], ['__sub__', lit(2.5)]]
            big = self.arg(lambda v: is_num(v) and is_finite(v) and v >= 5000 and v == int(v)
                           and int(v) % 2 == 0 and v < 10 ** 300, r.choice([10000, 5000, 10 ** 6, 1e10]))
            return pre + [['__pow__', big]]
        if c == 'ovf-conv':
            # a float meets an int beyond the range of a double: the int is converted first
            huge = self.arg(lambda v: is_intnb(v) and abs(v) >= 2 ** 1024, r.choice(HUGE))
            d = r.choice(['__add__', '__sub__', '__mul__', '__truediv__', '__floordiv__', '__mod__', '__pow__'])
            pre = [] if isinstance(cur, float) else [['__add__', lit(r.choice([0.5, 1.5]))]]
            return pre + [[d, huge]]
        if c == 'ovf-cur':
            # the value reached is such an int: <huge> / 1.0, <huge> * 1.5, <huge> / 3, <huge> ** -1
            if not isinstance(cur, int):
                return self.arith_fail(cur, 'ovf-conv')
            pre = [['__add__', lit(r.choice(HUGE[:2]))]]
            q = r.random()
            if q < 0.4:
                last = [r.choice(['__truediv__', '__mul__', '__sub__', '__add__', '__floordiv__', '__mod__']),
                        self.arg(lambda v: type(v) is float and is_finite(v) and v != 0 and abs(v) < 1e100,
                                 r.choice([1.0, 1.5, 0.5, -2.5]))]
            elif q < 0.7:
                last = ['__truediv__', self.arg(lambda v: is_intnb(v) and 0 < abs(v) < 1000, r.choice([3, 1, -7]))]
            else:
                last = ['__pow__', self.arg(lambda v: is_num(v) and is_finite(v) and -8 <= v < 0, r.choice(NEGS))]
            return pre + [last]
        if c == 'ovf-seq':
            return [['__mul__', self.arg(lambda v: is_intnb(v) and abs(v) >= 2 ** 64, r.choice([10 ** 30, -(10 ** 30), 2 ** 64]))]]
        if c == 'value':
            bad = r.choice(['%', '%q', '100%', '%(a', '% '])
            return [['__add__', lit(bad)], ['__mod__', self.arg(lambda v: is_intnb(v) and abs(v) < 1000, r.choice([1, 7]))]]
        if c == 'fmt-type':
            fmt, v = r.choice([('%d %d', 1), ('%d', 'x'), ('%d', None), ('', 1), ('%(a)s', 1)])
            return [['__add__', lit(fmt)], ['__mod__', lit(v)]]
        if c == 'ovf-fmt':
            return [['__add__', lit('%c')], ['__mod__', lit(r.choice([10 ** 9, -1]))]]
        return [['__add__', lit(None)]]

    def nc_args(self):
        """arguments for a call of a value that is not callable: fine / failing / target-changing nested
        T arguments, positional and keyword, in every order"""
        r = self.r
        call0 = {'call': {'args': [], 'kwargs': []}}

        def one():
            q = r.random()
            if q < 0.3:
                return self.arg(lambda v: type(v) in (int, str), r.choice(INTS))
            if q < 0.6:
                return {'T': r.choice([[['__getitem__', lit('zz')]], [['__getattr__', lit('zz')]],
                                       [['__getitem__', lit('n')], ['__getitem__', lit('y')]],
                                       [['__floordiv__', lit(0)]]])}
            ls = [st for st, v in self.src if type(v) is list]
            ds = [st for st, v in self.src if type(v) is dict and st]
            if ls and (not ds or r.random() < 0.7):
                st = r.choice(ls)
                if r.random() < 0.5:
                    return {'T': st + [['__getattr__', lit('pop')], ['__call__', call0]]}
                return {'T': st + [['__getattr__', lit('append')],
                                   ['__call__', {'call': {'args': [lit(r.choice(INTS))], 'kwargs': []}}]]}
            if ds:
                return {'T': r.choice(ds) + [['__getattr__', lit('setdefault')],
                                             ['__call__', {'call': {'args': [lit('new'), lit(1)], 'kwargs': []}}]]}
            return lit(r.choice(INTS))
        n = r.choice([1, 1, 2, 3])
        items = [one() for _ in range(n)]
        nkw = r.choice([0, 0, 1]) if n > 1 else r.choice([0, 0, 0, 1])
        args, kws = items[:n - nkw], items[n - nkw:]
        return {'call': {'args': args, 'kwargs': [[r.choice(['x', 'b', 'k%d' % i]), e] for i, e in enumerate(kws)]}}

    def bad_step(self, cur):
        """a step that fails on `cur` (one-edit mutation); a list of steps when a valid step in front is
        needed to reach a value on which the last one fails (see arith_fail)"""
        r = self.r
        if (isinstance(cur, (int, float)) and r.random() < 0.45) or \
                (type(cur) in (str, list, tuple) and r.random() < 0.12):
            return self.arith_fail(cur)
        opts = ['zzattr', 'callraiser', 'nestedfail', 'unhashable']
        if type(cur) is dict:
            opts += ['zzkey'] * 3 + ['addint', 'neg', 'call0']
        elif type(cur) in (list, tuple, str):
            opts += ['oob'] * 3 + ['stridx', 'addint', 'neg', 'call0', 'step0', 'zzindex']
        elif isinstance(cur, int) and not isinstance(cur, float):
            opts += ['div0'] * 4 + ['addstr'] * 2 + ['item', 'call0', 'zeropow']
        elif isinstance(cur, float):
            opts += ['fdiv0', 'addstr', 'item', 'call0', 'invert']
        elif cur is None:
            opts += ['item', 'addint', 'neg', 'call0']
        elif type(cur) in (pyobjs.Obj, pyobjs.Obj2):
            opts += ['zzattr'] * 2 + ['item', 'addint', 'call0']
        elif id(cur) in FUNC_NAME:
            opts += ['arity'] * 3 + ['item', 'addint', 'badkw']
        o = r.choice(opts)
        if o == 'zzattr':
            return ['__getattr__', lit('zz')]
        if o == 'zzkey':
            return ['__getitem__', lit(r.choice(['zz', 99, None, ('q',)]))]
        if o == 'oob':
            return ['__getitem__', lit(r.choice([len(cur), len(cur) + 3, -len(cur) - 1, 99]))]
        if o == 'stridx':
            return ['__getitem__', lit(r.choice(['a', None, '0']))]
        if o == 'step0':
            return ['__getitem__', lit(slice(None, None, 0))]
        if o == 'zzindex':
            return ['__getattr__', lit('get')]
        if o == 'addint':
            return [r.choice(['__add__', '__sub__', '__floordiv__', '__and__', '__pow__']), lit(r.choice([1, 2]))]
        if o == 'addstr':
            return [r.choice(['__add__', '__sub__', '__truediv__', '__xor__', '__or__']), lit(r.choice(['x', None]))]
        if o == 'neg':
            return [r.choice(UNARY), lit(None)]
        if o == 'invert':
            return ['__invert__', lit(None)]
        if o == 'call0':
            if r.random() < 0.6 and not has_sent(enc(cur)):
                # a non-callable value called WITH arguments: they are evaluated (may fail, may change
                # the target) before the call finds out that the value cannot be called
                return ['__call__', self.nc_args()]
            return ['__call__', {'call': {'args': [], 'kwargs': []}}]
        if o == 'item':
            return ['__getitem__', lit(r.choice([0, 'a']))]
        if o == 'div0':
            d = r.choice(['__floordiv__', '__mod__', '__truediv__'])
            zero = self.arg(lambda v: is_int(v) and v == 0, r.choice([0, False]))
            return [d, zero]
        if o == 'fdiv0':
            return ['__truediv__', lit(0)]
        if o == 'zeropow':
            return ['__pow__', lit(r.choice(['x', None]))] if cur != 0 else ['__pow__', lit(-1)]
        if o == 'arity':
            return ['__call__', {'call': {'args': [lit(1), lit(2), lit(3), lit(4)], 'kwargs': []}}]
        if o == 'badkw':
            return ['__call__', {'call': {'args': [], 'kwargs': [['nope', lit(1)]]}}]
        if o == 'callraiser':
            cands = [s for s, v in self.src if id(v) in FUNC_NAME and FUNC_NAME[id(v)] in RAISERS]
            if cands:
                # the failing call is reached through the argument of an identity-like step
                return ['__getitem__', {'T': r.choice(cands) + [['__call__', {'call': {'args': [], 'kwargs': []}}]]}]
            return ['__getattr__', lit('zz')]
        if o == 'nestedfail':
            inner = r.choice([[['__getitem__', lit('zz')]], [['__getattr__', lit('zz')]],
                              [['__getitem__', lit('n')], ['__getitem__', lit(0)]],
                              [['__floordiv__', lit(0)]]])
            return [r.choice(['__getitem__', '__add__', '__mul__']), {'T': inner}]
        if o == 'unhashable':
            cands = [s for s, v in self.src if type(v) in (list, dict)]
            if cands:
                entries = [[{'T': r.choice(cands)}, lit(1)]]
                q = r.random()
                if q < 0.25:
                    # a later entry that would fail as well: never evaluated (the key is hashed first)
                    entries.append([lit('k'), {'T': [['__getitem__', lit('nope')]]}])
                elif q < 0.4:
                    entries.insert(0, [lit('k'), {'T': [['__getattr__', lit('zz')]]}])
                elif q < 0.6 and STATEFUL:
                    # … or would change the target
                    ls = [s for s, v in self.src if type(v) is list]
                    if ls:
                        entries.append([lit('k'), {'T': r.choice(ls) + [['__getattr__', lit('append')],
                                                   ['__call__', {'call': {'args': [lit(1)], 'kwargs': []}}]]}])
                return ['__getitem__', {'dict': entries}]
            return ['__getitem__', lit('zz')]
        return ['__getattr__', lit('zz')]


def too_big(v):
    if isinstance(v, bool):
        return False
    if isinstance(v, int):
        return abs(v) > 10 ** 40
    if isinstance(v, (str, list, tuple, dict)):
        return len(v) > 300
    return False


def grow(r, target, n, nested_p=0.3, prefer=None):
    """a valid chain of up to n steps with the values reached: (steps, [cur0, cur1, …], gen)"""
    g = Gen(r, target, nested_p)
    cur = target
    steps, vals = [], [target]
    for _ in range(n):
        st = None
        if prefer and r.random() < 0.5 and isinstance(cur, int):
            st = [r.choice(prefer), g.arg(lambda v: is_int(v) and v != 0 and abs(v) < 10 ** 9,
                                          r.choice([x for x in INTS if x != 0]))]
            if st[0] in UNARY:
                st = [st[0], lit(None)]
        if st is None:
            st = g.step(cur)
        if st is None:
            break
        try:
            av = None if st[0] in UNARY else direct_arg(st[1], target)
            nxt = apply_op(st[0], cur, av)
        except Exception:
            steps.append(st)       # an unplanned failure is still a legitimate case; stop here
            vals.append(None)
            return steps, vals, g, False
        if too_big(nxt):
            break
        if st[0] == '__call__' and getattr(cur, '__name__', None) in MUTATORS:
            g.src = sources(target)       # the target changed: later nested arguments see the new state
        steps.append(st)
        vals.append(nxt)
        cur = nxt
    return steps, vals, g, True


TWINS = {0: [0.0, False], 1: [1.0, True], 2: [2.0], True: [1, 1.0], False: [0, 0.0]}


def twin_case(r, tj, steps):
    """the same chain with one int / bool literal replaced by an equal value of another type;
    the original is written first (`prebuild`) in the same process"""
    idx = [i for i, (d, a) in enumerate(steps) if d not in UNARY and isinstance(a, dict) and 'lit' in a
           and isinstance(a['lit'], dict) and (('i' in a['lit'] and a['lit']['i'] in (0, 1, 2)) or 'b' in a['lit'])]
    if not idx:
        return None
    i = r.choice(idx)
    v = dec(steps[i][1]['lit'])
    w = r.choice(TWINS[v])
    twin = steps[:i] + [[steps[i][0], lit(w)]] + steps[i + 1:]
    return {'target': tj, 'prebuild': {'T': steps}, 'expr': {'T': twin}}


def twin_templates(r):
    """T['n'] + 1 then T['n'] + 1.0, T['l'][1] then T['l'][1.0] / T['l'][True], …"""
    target = {'n': r.choice([7, 2, -3, 10]), 's': 'v=%s', 'l': ['a', 'b', 'c'], 'f': 2.5,
              't': (4, 5, 6), 'd': {1: 'one', 0: 'zero', 2: 'two'}}
    key, d, v = r.choice([('n', '__add__', 1), ('n', '__sub__', 1), ('n', '__mul__', 2), ('n', '__floordiv__', 2),
                          ('n', '__truediv__', 2), ('n', '__mod__', 2), ('n', '__pow__', 2), ('n', '__and__', 1),
                          ('n', '__or__', 0), ('n', '__xor__', 1), ('s', '__mod__', 1), ('l', '__getitem__', 1),
                          ('l', '__getitem__', 0), ('l', '__mul__', 2), ('t', '__getitem__', 2), ('t', '__mul__', 1),
                          ('f', '__mul__', 0), ('f', '__add__', 1), ('d', '__getitem__', 1), ('d', '__getitem__', 0)])
    tail = r.choice([[], [], [['__neg__', lit(None)]], [['__add__', lit(1)]]]) if key in ('n', 'f') else []
    first = [['__getitem__', lit(key)], [d, lit(v)]] + tail
    second = [['__getitem__', lit(key)], [d, lit(r.choice(TWINS[v]))]] + tail
    if r.random() < 0.3:
        first, second = second, first
    return {'target': enc(target), 'prebuild': {'T': first}, 'expr': {'T': second}}


def stateful_templates(r):
    """a call that changes the target, then an operation whose nested T argument reads the same
    object: the argument must see the state *after* the call (T['l'].pop() + T['l'][-1])"""
    n = r.randint(3, 5)
    target = {'l': [r.choice(INTS[:11]) for _ in range(n)], 'd': {'a': r.choice(INTS), 'b': r.choice(INTS)},
              'n': r.choice(INTS)}
    k = r.random()
    call0 = {'call': {'args': [], 'kwargs': []}}
    if k < 0.4:
        steps = [['__getitem__', lit('l')], ['__getattr__', lit('pop')], ['__call__', call0],
                 [r.choice(['__add__', '__sub__', '__mul__']),
                  {'T': [['__getitem__', lit('l')], ['__getitem__', lit(r.choice([-1, 0, n - 2]))]]}]]
    elif k < 0.6:
        steps = [['__getitem__', lit('l')], ['__getattr__', lit('pop')],
                 ['__call__', {'call': {'args': [lit(0)], 'kwargs': []}}],
                 ['__add__', {'T': [['__getitem__', lit('len')],
                                    ['__call__', {'call': {'args': [{'T': [['__getitem__', lit('l')]]}], 'kwargs': []}}]]}]]
        target['len'] = len
    elif k < 0.8:
        steps = [['__getitem__', lit('d')], ['__getattr__', lit('pop')],
                 ['__call__', {'call': {'args': [lit('a')], 'kwargs': []}}],
                 ['__add__', {'T': [['__getitem__', lit('d')], ['__getattr__', lit('get')],
                                    ['__call__', {'call': {'args': [lit('a'), lit(1000)], 'kwargs': []}}]]}]]
    else:
        steps = [['__getitem__', lit('d')], ['__getattr__', lit('setdefault')],
                 ['__call__', {'call': {'args': [lit('new'), {'T': [['__getitem__', lit('n')]]}], 'kwargs': []}}],
                 ['__mul__', {'T': [['__getitem__', lit('d')], ['__getitem__', lit('new')]]}]]
    return {'target': enc(target), 'expr': {'T': steps}}


def reference_templates(r):
    """a recorded call is a plain Python call: the callee receives the very objects its arguments
    evaluate to (identity of a returned argument, mutation through it), and an argument is evaluated
    once (a T object stored in the target comes back as that object)"""
    from glom import T
    n = r.randint(2, 4)
    target = {'l': [r.choice(INTS[:11]) for _ in range(n)], 'd': {'a': r.choice(INTS), 'b': r.choice(INTS)},
              'o': pyobjs.Obj(a=[1, 2], b=r.choice(INTS)), 'n': r.choice(INTS), 'b': r.choice(INTS),
              'ident': ident, 'mklist': mklist, 'kw': kw, 'len': len,
              'a': r.choice([T['b'], T['n'], T['l'][0], T['zz']])}
    call = lambda *a, **k: ['__call__', {'call': {'args': list(a), 'kwargs': [[x, y] for x, y in k.items()]}}]
    G = lambda *ks: {'T': [['__getitem__', lit(k)] for k in ks]}
    src = r.choice([G('l'), G('d'), G('o'), {'T': [['__getitem__', lit('o')], ['__getattr__', lit('a')]]}])
    f = ['__getitem__', lit('ident')]
    k = r.random()
    if k < 0.2:       # identity of the returned argument
        steps = [f, call(src) if r.random() < 0.6 else call(x=src)]
    elif k < 0.3:
        steps = [['__getitem__', lit('mklist')], call(G('n'), src, src), ['__getitem__', lit(r.choice([1, 2, -1]))]]
    elif k < 0.5:     # mutation through the returned argument, then a read of the same object
        steps = [f, call(G('l')), ['__getattr__', lit('pop')], call(),
                 [r.choice(['__add__', '__mul__', '__sub__']), {'T': [['__getitem__', lit('l')], ['__getitem__', lit(-1)]]}]]
    elif k < 0.6:
        inner = {'T': [f, call(G('l')), ['__getattr__', lit('append')], call(lit(r.choice(INTS)))]}
        steps = [['__getitem__', lit('mklist')], call(inner, G('l'))]
    elif k < 0.7:
        steps = [f, call(G('d')), ['__getattr__', lit('setdefault')], call(lit('new'), G('n')),
                 ['__add__', {'T': [['__getitem__', lit('d')], ['__getitem__', lit('new')]]}]]
    elif k < 0.78:
        steps = [f, call(G('d')), ['__getattr__', lit('pop')], call(lit('a')),
                 ['__add__', {'T': [['__getitem__', lit('len')], call(G('d'))]}]]
    elif k < 0.9:     # a T object stored in the target, passed as an argument: evaluated once
        steps = [f, call(G('a')) if r.random() < 0.6 else call(x=G('a'))]
    else:
        steps = [['__getitem__', lit('mklist')], call(G('a'), G('b'), {'list': [G('a')]})]
    return {'target': enc(target), 'expr': {'T': steps}}


def failing_nested_step(r, g):
    """a later operation whose nested T argument fails as well (never reached)"""
    inner = r.choice([[['__getitem__', lit('nope')]], [['__getattr__', lit('zz')]],
                      [['__getitem__', lit('n')], ['__getitem__', lit('y')]],
                      [['__floordiv__', lit(0)]]])
    if r.random() < 0.3:
        return ['__call__', {'call': {'args': [{'T': inner}], 'kwargs': []}}]
    return [r.choice(['__getitem__', '__add__', '__mul__', '__sub__']), {'T': inner}]


def has_sent(j):
    """does the encoded value contain a glom T object (stored as data)?"""
    if isinstance(j, dict):
        return 'sent' in j or any(has_sent(v) for v in j.values())
    if isinstance(j, list):
        return any(has_sent(v) for v in j)
    return False


def noncallable_templates(r):
    """T['f'](args…) where target['f'] is NOT callable (int / str / None / float / list / tuple / dict /
    attribute object): as in Python, the arguments are evaluated first — a failing nested T argument
    surfaces with its own position, a mutating one changes the target — and only then the call fails
    with TypeError (which keeps its class: a failing call)"""
    n = r.randint(2, 4)
    f = r.choice([3, 'abc', None, 2.5, [1, 2], (1,), {'a': 1}, pyobjs.Obj(a=1), True])
    target = {'f': f, 'l': [r.choice(INTS[:11]) for _ in range(n)], 'd': {'a': r.choice(INTS), 'b': r.choice(INTS)},
              'n': r.choice(INTS), 'len': len}
    g = Gen(r, target, nested_p=0.6)
    if r.random() < 0.25:
        callee = [['__getitem__', lit('l')], ['__getitem__', lit(0)]]
    elif r.random() < 0.15:
        callee = []                                   # the target itself (a dict) is called
    else:
        callee = [['__getitem__', lit('f')]]
    steps = callee + [['__call__', g.nc_args()]]
    q = r.random()
    if q < 0.3:
        steps.append(['__getitem__', lit(0)])          # never reached
    elif q < 0.45:
        steps.append(failing_nested_step(r, g))
    return {'target': enc(target), 'expr': {'T': steps}}


def as_steps(st):
    """bad_step returns one step [dunder, E] or a list of steps"""
    return [st] if st and isinstance(st[0], str) else list(st)


ARITH_KINDS = ('add', 'sub', 'mul', 'floordiv', 'truediv', 'mod', 'pow', 'and', 'or', 'xor', 'invert', 'neg')


def arith_failures(r):
    """One case of the failing-arithmetic stream: an access path of a generated target to a number /
    str / list / tuple, up to two valid arithmetic steps, then a failing arithmetic operation of a
    chosen error class (Gen.arith_fail; literal or nested-T right operand, probability 1/2 each), then —
    sometimes — operations that are never reached.  The case is kept only if the chain applied
    directly in Python fails where intended (at the last step of arith_fail, in an arithmetic
    operation); the expected outcome is always computed by Python, never assumed."""
    for _ in range(20):
        target = gen_target(r)
        tj = enc(target)
        g = Gen(r, target, nested_p=0.5)
        starts = [(st, v) for st, v in g.src
                  if (isinstance(v, (int, float)) and is_finite(v)) or type(v) in (str, list, tuple)]
        nums = [(st, v) for st, v in starts if isinstance(v, (int, float))]
        if not starts:
            continue
        steps, cur = r.choice(nums if nums and r.random() < 0.8 else starts)
        steps = list(steps)
        ok = True
        for _ in range(r.choice([0, 0, 1, 2])):
            st = g.step(cur)
            if st is None or st[0] in ('__getattr__', '__getitem__', '__call__'):
                break
            try:
                cur = apply_op(st[0], cur, None if st[0] in UNARY else direct_arg(st[1], target))
            except Exception:
                ok = False
                break
            if too_big(cur):
                ok = False
                break
            steps.append(st)
        if not ok:
            continue
        fail = g.arith_fail(cur)
        pos = len(steps) + len(fail) - 1
        steps = steps + fail
        q = r.random()
        if q < 0.25:
            steps.append(failing_nested_step(r, g))       # never reached
        elif q < 0.5:
            steps.append([r.choice(['__add__', '__truediv__', '__pow__']), lit(r.choice([1, 0, -1]))])
        obs, _ = direct_obs({'T': steps}, dec(tj))
        f = obs.get('fail')
        if f and f['k'] == pos and f['kind'] in ARITH_KINDS:
            return {'target': tj, 'expr': {'T': steps}}
    return None


def generate(rng, tier, scale, **focus):
    n = (1200 if tier == 'quick' else 30000) * scale
    maxlen = 6 if tier == 'quick' else 9
    prefer = focus.get('prefer')
    for i in range(n):
        target = gen_target(rng)
        tj = enc(target)                 # before the chain is grown: calls may change the target
        want = rng.randint(1, maxlen)
        steps, vals, g, clean = grow(rng, target, want, prefer=prefer)
        mode = rng.random()
        if clean and mode < 0.30:
            # one-edit mutation: the step at position k is replaced by a failing one …
            k = rng.randrange(len(steps) + 1)
            bad = as_steps(g.bad_step(vals[k]))
            steps = steps[:k] + bad + steps[k + 1:]
            if rng.random() < 0.4:
                # … and a later operation has a nested T argument that would fail too
                j = rng.randint(k + len(bad), len(steps))
                steps = steps[:j] + [failing_nested_step(rng, g)] + steps[j:]
        elif clean and mode < 0.36 and steps:
            # an operation appended beyond the end of a valid chain
            steps = steps + as_steps(g.bad_step(vals[-1]))
        elif clean and mode < 0.46:
            tw = twin_case(rng, tj, steps)
            if tw is not None:
                yield tw
                continue
        yield {'target': tj, 'expr': {'T': steps}}
    for i in range(n // 5):
        c = arith_failures(rng)
        if c is not None:
            yield c
    for i in range(n // 12):
        yield noncallable_templates(rng)
        yield twin_templates(rng)
        if STATEFUL:
            yield stateful_templates(rng)
        yield reference_templates(rng)
    if tier == 'thorough' and not focus:
        yield from exhaustive()
        yield from exhaustive_arith_errors()
        if STATEFUL:
            yield from exhaustive_stateful()


def exhaustive():
    """every binary operator x a grid of int/bool operands, and every unary, as one- and two-step chains"""
    vals = [0, 1, -1, 2, 3, -3, 7, -7, 12, 255, -256, True, False]
    for d in BIN:
        for a in vals:
            for b in vals:
                if d == '__pow__' and (not isinstance(b, int) or b < 0 and a != 0 or b > 8):
                    continue
                yield {'target': enc(a), 'expr': {'T': [[d, lit(b)]]}}
                yield {'target': enc({'x': a, 'y': b}),
                       'expr': {'T': [['__getitem__', lit('x')], [d, {'T': [['__getitem__', lit('y')]]}],
                                      ['__neg__', lit(None)]]}}
    for d in UNARY:
        for a in vals:
            yield {'target': enc(a), 'expr': {'T': [[d, lit(None)], [d, lit(None)]]}}


def exhaustive_arith_errors():
    """every binary operator x (int / bool / float / huge int / str / list left operand) x (zero of every
    numeric type, negative int / float exponents, big exponents, huge ints, foreign types), with a
    literal and with a nested-T right operand: every error class every operator raises on these types
    (and the successful neighbours), the failing operation at positions 0 and 1"""
    lefts = [0, False, True, 2, -3, 0.0, -0.0, 1.5, -2.0, 2.0, 10 ** 400, 'ab', 'a%', [1]]
    rights = [0, False, 0.0, -0.0, -1, -2, -0.5, -1.0, 3, 1.5, 10000, 1e10, 10 ** 400, 10 ** 30, None, 'x']
    for d in BIN:
        for a in lefts:
            for b in rights:
                if d == '__pow__' and isinstance(a, int) and isinstance(b, int) and abs(a) >= 2 and b > 64:
                    continue          # an exact int power with millions of digits
                if d == '__mul__' and type(a) in (str, list) and isinstance(b, int) and 1000 < b < 2 ** 63:
                    continue
                yield {'target': enc(a), 'expr': {'T': [[d, lit(b)]]}}
                yield {'target': enc({'x': a, 'y': b}),
                       'expr': {'T': [['__getitem__', lit('x')], [d, {'T': [['__getitem__', lit('y')]]}],
                                      ['__neg__', lit(None)]]}}


def exhaustive_stateful():
    """every (call changing a small list / dict) x (nested read of the same container afterwards)
    x (outer operator), and the same with the read in front (hoisting would swap them)"""
    call = lambda *a: ['__call__', {'call': {'args': [lit(x) for x in a], 'kwargs': []}}]
    L = ['__getitem__', lit('l')]
    D = ['__getitem__', lit('d')]
    muts = [[L, ['__getattr__', lit('pop')], call()], [L, ['__getattr__', lit('pop')], call(0)],
            [L, ['__getattr__', lit('pop')], call(1)], [L, ['__getattr__', lit('pop')], call(-2)],
            [L, ['__getattr__', lit('append')], call(5)], [L, ['__getattr__', lit('pop')], call(7)],
            [D, ['__getattr__', lit('pop')], call('a')], [D, ['__getattr__', lit('pop')], call('zz', 9)],
            [D, ['__getattr__', lit('pop')], call('zz')],
            [D, ['__getattr__', lit('setdefault')], call('a', 4)],
            [D, ['__getattr__', lit('setdefault')], call('n', 4)]]
    reads = [[L, ['__getitem__', lit(i)]] for i in (0, 1, -1, 2, 3)] + \
            [[D, ['__getitem__', lit(k)]] for k in ('a', 'n')] + \
            [[D, ['__getattr__', lit('get')], call('a', 100)],
             [['__getitem__', lit('len')], ['__call__', {'call': {'args': [{'T': [L]}], 'kwargs': []}}]],
             [['__getitem__', lit('len')], ['__call__', {'call': {'args': [{'T': [D]}], 'kwargs': []}}]],
             [L, ['__getattr__', lit('pop')], call()]]
    for n in (1, 3):
        target = {'l': [10, 20, 30][:n], 'd': {'a': 1, 'b': 2}, 'len': len}
        for m in muts:
            for rd in reads:
                for d in ('__add__', '__mul__', '__getitem__'):
                    yield {'target': enc(target), 'expr': {'T': m + [[d, {'T': rd}]]}}
                # the call as an ARGUMENT of a later operation on a value read before it
                yield {'target': enc(target), 'expr': {'T': rd + [['__add__', {'T': m}]]}}
                yield {'target': enc(target),
                       'expr': {'T': [['__getitem__', lit('len')],
                                      ['__call__', {'call': {'args': [{'list': [{'T': m}, {'T': rd}]}],
                                                             'kwargs': []}}]]}}


def corpus():
    out = [
        # the defect repaired by e2222c4: T // 2 was silently dropped
        {'target': enc(7), 'expr': {'T': [['__floordiv__', lit(2)]]}},
        {'target': enc({'a': 7, 'b': 2}),
         'expr': {'T': [['__getitem__', lit('a')], ['__floordiv__', {'T': [['__getitem__', lit('b')]]}],
                        ['__add__', lit(1)]]}},
        # a called function raising KeyError keeps its class (no PathAccessError)
        {'target': enc({'f': raise_key}), 'expr': {'T': [['__getitem__', lit('f')],
                                                        ['__call__', {'call': {'args': [], 'kwargs': []}}]]}},
        # arguments are evaluated against the original target
        {'target': enc({'a': {'n': 1}, 'n': 5}),
         'expr': {'T': [['__getitem__', lit('a')], ['__getitem__', lit('n')],
                        ['__add__', {'T': [['__getitem__', lit('n')]]}]]}},
        # a nested argument sees what the calls before it did to the target (seeded change C02-s2)
        {'target': enc({'l': [10, 20, 30]}),
         'expr': {'T': [['__getitem__', lit('l')], ['__getattr__', lit('pop')],
                        ['__call__', {'call': {'args': [], 'kwargs': []}}],
                        ['__add__', {'T': [['__getitem__', lit('l')], ['__getitem__', lit(-1)]]}]]}},
        # arguments reach the callee by reference: the identity function returns the target's own list
        {'target': enc({'f': ident, 'l': [1]}),
         'expr': {'T': [['__getitem__', lit('f')],
                        ['__call__', {'call': {'args': [{'T': [['__getitem__', lit('l')]]}], 'kwargs': []}}],
                        ['__getattr__', lit('append')],
                        ['__call__', {'call': {'args': [lit(2)], 'kwargs': []}}]]}},
        # a new list shares its members with the old one
        {'target': enc({'l': [[1], [2]]}),
         'expr': {'T': [['__getitem__', lit('l')], ['__add__', {'list': []}], ['__getitem__', lit(0)],
                        ['__getattr__', lit('append')],
                        ['__call__', {'call': {'args': [lit(2)], 'kwargs': []}}]]}},
        # the target keeps the change when a later operation fails
        {'target': enc({'l': [1, 2]}),
         'expr': {'T': [['__getitem__', lit('l')], ['__getattr__', lit('pop')],
                        ['__call__', {'call': {'args': [], 'kwargs': []}}], ['__getitem__', lit('zz')]]}},
    ]
    p = os.path.join(os.path.dirname(os.path.dirname(os.path.dirname(os.path.abspath(__file__)))),
                     'corpus', 'C02.jsonl')
    if os.path.exists(p):
        for line in open(p):
            if line.strip():
                out.append(json.loads(line))
    return out


def key(case):
    k = {'target': case['target'], 'expr': case['expr']}
    if case.get('prebuild'):
        k['prebuild'] = case['prebuild']
    return k


def has_nested(e):
    if isinstance(e, dict):
        if 'T' in e or 'Spec' in e:
            return True
        return any(has_nested(v) for v in e.values())
    if isinstance(e, list):
        return any(has_nested(v) for v in e)
    return False


def nontrivial(case, verdict):
    steps = case['expr']['T']
    return (len(steps) >= 2 or 'ok' not in (case.get('impl') or {})
            or any(has_nested(a) for _, a in steps))


def shrink(case):
    base = {k: v for k, v in case.items() if k not in ('impl', 'direct', 'impl_after', 'direct_after', 'impl_alias', 'direct_alias')}
    steps = case['expr']['T']
    for i in range(len(steps)):
        c = dict(base)
        c['expr'] = {'T': steps[:i] + steps[i + 1:]}
        yield c
    # replace nested arguments by their value
    target = dec(case['target'])
    for i, (d, a) in enumerate(steps):
        if has_nested(a) and 'call' not in a:
            try:
                v = direct_arg(a, target)
            except Exception:
                continue
            c = dict(base)
            c['expr'] = {'T': steps[:i] + [[d, lit(v)]] + steps[i + 1:]}
            yield c
    # shrink the target: keep only what a dict root needs
    t = case['target']
    if isinstance(t, dict) and 'd' in t:
        for i in range(len(t['d'])):
            c = dict(base)
            c['target'] = {'d': t['d'][:i] + t['d'][i + 1:]}
            yield c
    if isinstance(t, dict) and 'o' in t and t['o'][0] in ('Obj', 'Obj2'):
        attrs = t['o'][1]
        for i in range(len(attrs)):
            c = dict(base)
            c['target'] = {'o': [t['o'][0], attrs[:i] + attrs[i + 1:]]}
            yield c


def focus(disagreements, facts_changed):
    """bias the search towards arithmetic operators when the T facts changed or cases disagree"""
    ops = set()
    for c, v in disagreements or []:
        for d, _ in c['expr']['T']:
            if d in BIN or d in UNARY:
                ops.add(d)
    if not ops:
        ops = set(BIN) | set(UNARY)
    return {'prefer': sorted(ops)}
