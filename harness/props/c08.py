"""C08 — modes apply exactly to the wrapped spec; Fill and argument mode keep shape."""
import json
import os

from harness import interp_common as ic
from harness.interp_gen import Gen
from harness.props import c03 as _c03

PROP = 'C08'
LEAN_MODULES = ['Glom.Props.C08']
FACT_FILES = ['ExcFacts']
READY = True
RULE = ('spec trees of depth <= 3 (quick) / 4 (thorough) built from nestings of Fill / Auto / Match / Group wrappers placed '
        'at every step position of tuples and Pipes, as dict values, Coalesce branches, Switch keys and values, And/Or '
        'children and call arguments; leaves are mode probes (a custom spec object recording scope[MODE] at its '
        'position, unique id per position), mode-sensitive plain objects (a string, a tuple, a list, a dict: they mean '
        'something different in every mode), T, instrumented callables; plus Fill over random literal container shapes '
        '(dict/list/tuple/set/frozenset nested to depth 3) with T / Spec / Val / callable leaves; plus containers with T leaves '
        'in argument position (Coalesce default, Call args/kwargs, S(k=..) value, Fill) evaluated once per record of a '
        'list of distinct records after an access step of the same chain. Observed: result, '
        'ordered call log and the (probe id, mode) log. non-trivial = at least one wrapper and one probe or '
        'mode-sensitive object; distinct = distinct (target, spec)')
TRUSTED = ['Python primitives are parameters of the theorems (`Prims`); their executable instantiation is validated by '
           'the correspondence only',
           'the accumulating dict/list specs of Group mode are C16 (here Group wraps probes, T, callables, nested wrappers)']
ASSUMPTIONS = ['self-referential containers in argument position (the id()-memo of _ArgValuator) are exercised by the '
               'correspondence only (tree-shaped specs in the model)']
MANIFEST = dict(
    text=("Lean 4 theorem c08_mode_lexical: for every spec (any nesting), target, Python-primitive instantiation and fuel, "
          "every mode the code-shaped interpreter records at a probe (mode stored in scope frames, copied by _glom, set by "
          "Fill/Auto/Match/Group on their own frame, reset by chain_child) equals the static mode of that position (nearest "
          "enclosing wrapper, else AUTO); proved generically for any scope satisfying 24 lexical-scoping laws and the laws "
          "proved for the ChainMap-of-frames representation; Fill/argument mode shape and literal laws; a proved "
          "counter-example shows the pre-repair chain_child (defect F4) violates it. The interpreter model is tied to "
          "/repo by differential execution (result + call log + probe-mode log) through the compiled Lean driver, which "
          "evaluates the same checkModes predicate on the modes the real glom recorded."),
    note=("trusted: Lean kernel + {propext, Classical.choice, Quot.sound}; harness/driver; Python primitives as Prims "
          "parameters; hand-written interpreter model (validated on every run by the correspondence, not regenerated). "
          "Not covered by a theorem: cyclic containers in argument position; Group's accumulating dict/list specs (C16)."),
    technique='Lean 4 invariant proof by induction on fuel over a monadic interpreter model (Hoare-style rules) + differential correspondence',
    ref='DESIGN.md §3 C08')


def generate(rng, tier, scale, **focus):
    n = (1500 if tier == 'quick' else 30000) * scale
    for i in range(n):
        g = Gen(rng, {'extra': ['wrap', 'wrap', 'wrap', 'probe', 'probe', 'modeprobe', 'fillshape', 'switch', 'and'],
                      'scope': False})
        t = g.target()
        depth = rng.choice([1, 2, 2, 3]) if tier == 'quick' else rng.choice([2, 3, 3, 4])
        p = rng.random()
        if p < 0.12:
            t = Gen.rows_target(rng)
            spec = g.s_argshape(t, 2)
        elif p < 0.25:
            spec = g.s_fillshape(t, rng.choice([1, 2, 3]))
        elif p < 0.45:
            # a wrapper at a chosen step of a chain, followed / preceded by mode-sensitive probes
            steps = []
            for _ in range(rng.randint(1, 4)):
                q = rng.random()
                if q < 0.4:
                    steps.append(g.s_wrap(t, depth))
                elif q < 0.7:
                    steps.append(g.modeprobe(t, 0))
                else:
                    steps.append(g.probe())
            spec = {'k': rng.choice(['tuple', 'pipe']), 'xs': steps}
        else:
            spec = g.spec(t, depth)
        yield {'spec': spec, 'target': ic.enc(t), 'scope': []}


def corpus():
    p = os.path.join(os.path.dirname(os.path.dirname(os.path.dirname(os.path.abspath(__file__)))),
                     'corpus', PROP + '.jsonl')
    out = []
    if os.path.exists(p):
        for line in open(p):
            if line.strip():
                out.append(json.loads(line))
    return out


def run_impl(case):
    """two evaluations of the same spec object with every glom-created container of the first
    result mutated in between, plus the identity observation of `ic.run_glom` (no mutable
    container of the spec is part of a result or reaches a callable)"""
    base = {k: v for k, v in case.items() if not k.startswith('impl')}
    return ic.run_glom_mutating(base)


key = _c03.key
shrink = _c03.shrink


def nontrivial(case, verdict):
    s = json.dumps(case['spec'])
    return any(('"k": "%s"' % w) in s for w in ('fill', 'auto', 'match', 'group')) and \
        ('"probe"' in s or '"k": "str"' in s or '"k": "tuple"' in s)
