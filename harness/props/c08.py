"""C08 — modes apply exactly to the wrapped spec; Fill and argument mode keep shape."""
import json
import os

from harness import interp_common as ic
from harness.interp_gen import Gen, gate_inspect
from harness.props import c03 as _c03

PROP = 'C08'
LEAN_MODULES = ['Glom.Props.C08']
FACT_FILES = ['ExcFacts', 'InterpFacts', 'c03']
READY = True
RULE = ('spec trees of depth <= 3 (quick) / 4 (thorough) built from nestings of Fill / Auto / Match / Group wrappers placed '
        'at every step position of tuples and Pipes, as dict values, Coalesce branches, Switch keys and values, And/Or '
        'children and call arguments; leaves are mode probes (a custom spec object recording scope[MODE] at its '
        'position, unique id per position), mode-sensitive plain objects (a string, a tuple, a list, a dict: they mean '
        'something different in every mode), T, instrumented callables; plus lazy streams (Iter(sub) / Iter().map(sub) with such '
        'leaves or a random sub-spec) built under a wrapper that is a non-final link of a tuple / Pipe -- bare, inside a dict / list '
        'built under the wrapper, with the chain itself under a second wrapper -- and consumed by a later link (list / tuple), with '
        'controls (consumed inside the wrapper; wrapper last); 12% of the cases are a Pipe that stands inside a Fill / Match / Auto '
        'wrapper -- directly or through 0-2 constructs that leave the mode alone (Spec, Coalesce branch, Switch case, And / Or child, '
        'Pipe step, dict value / list item of a Fill shape) -- whose steps include plain mode-sensitive objects at the first, a middle '
        'and the last position: a tuple (Fill: constructor; Match: tuple pattern; Auto: chain), a list, a dict, a str, nested tuples, '
        'with T / access / probe / literal / Auto(..) leaves, type-directed patterns for Match on tuple / list / dict values (8% '
        'deliberately non-matching), optionally followed by a probe after the wrapper -- and an enumerated stream (936 cases) with a '
        'plain tuple / list / dict / str step as the only, first, middle and last step of a Pipe below Fill / Match / Auto, directly '
        'and through each of Spec, Coalesce, Switch, And, Or, Pipe-in-Pipe, Inspect, alone and followed by a probe; plus Fill over random literal container shapes '
        '(dict/list/tuple/set/frozenset nested to depth 3) with T / Spec / Val / callable leaves; plus containers with T leaves '
        'in argument position (Coalesce default, Call args/kwargs, S(k=..) value, Fill) evaluated once per record of a '
        'list of distinct records after an access step of the same chain (empty containers included, also nested, and '
        'the defaults of Match / Switch / And / Or); 6% of the cases are self-referential container graphs (1-4 list / dict / '
        'tuple nodes on a cycle through node 0, extra back / cross / shared references, T / Spec / literal / callable '
        'leaves, 6% failing leaves; a tuple may contain tuples with a larger index) in an argument position (Coalesce / Match / Switch / Or default, S(x=..) + S.x, '
        'Call args, T.get(k, arg)), optionally under Fill / Auto, evaluated with one spec object for 2-3 targets; '
        'the result graph is compared in canonical form (list / dict nodes numbered in first-visit order). Every '
        'case is evaluated twice on the same spec object with every container glom created for the first result '
        'mutated in between; no mutable container of the spec may be part of a result or reach a callable; a '
        'top-level Fill spec is also run through Fill.fill(target). Observed: result, '
        'ordered call log and the (probe id, mode) log. non-trivial = at least one wrapper and one probe or '
        'mode-sensitive object; distinct = distinct (target, spec)')
TRUSTED = ['Python primitives are parameters of the theorems (`Prims`); their executable instantiation is validated by '
           'the correspondence only',
           'the accumulating dict/list specs of Group mode are C16 (here Group wraps probes, T, callables, nested wrappers)']
ASSUMPTIONS = ['READING (C08-1): "containers" are instances of EXACTLY dict / list / tuple / set / frozenset (core.py FILL / _ArgValuator.mode test '
               'type(spec) in (...), facts ifFill / ifArgVal); an instance of a subclass (OrderedDict, namedtuple, defaultdict, a list subclass) is '
               'a literal in Fill / argument position: the very object of the spec, its T leaves unevaluated (C02: non-T arguments are passed '
               'through literally). Modelled for OrderedDict: the model yields `specobj`, the harness recognises the object by identity',
               'READING (C08-3): "argument position" = Coalesce / Check / Match / Optional / Switch / And / Or defaults, call arguments, assigned '
               'values, S() / Vars values; glom()\'s own default= is "the default object itself" (C04): glom(t, "zz", default=[T["a"]]) returns '
               'that list',
               'Fill(<self-referential container>) recurses without end (RecursionError): the property limits cycles to argument position; a cycle '
               'through a spec OBJECT (a list holding a Spec that holds the list) and the collapse of computed dict keys '
               '(Fill({T["a"]: "p", 1: "q"}) with t["a"] == 1) are not generated',
               'self-referential containers in argument position (the id()-memo of _ArgValuator) are outside the tree-shaped Spec type: '
               'they are a heap of list / dict / tuple nodes (Glom/Spec/C08.lean); the Lean reference `rebuild` is PROVED to terminate '
               'on every heap whose tuple-only reference paths are acyclic (c08_rebuild_terminates; the generated heaps satisfy the '
               'decidable sufficient condition tuplesForward, checked by the driver) and to yield a graph isomorphic to the reachable '
               'heap (c08_rebuild_iso); that glom\'s _ArgValuator computes this `rebuild` (with leaves evaluated by the interpreter '
               'model) is validated by the correspondence on every run, in canonical first-visit numbering',
               'identity / freshness of rebuilt containers (no object of the spec in a result or a call argument, evaluations share '
               'no mutable state) is observed by the harness on the implementation: the model\'s values are immutable trees',
               'a lazily evaluated stream (Iter(sub) / Iter().map(sub)) is modelled -- and covered by c08_mode_lexical -- by evaluating '
               'its items in the scope and mode of the place where it is written (the frame the generator captures keeps the mode '
               'copied into it), the consumer forcing the stream value; the generated streams are consumed exactly once by a later '
               'chain link with nothing logged or caught in between, where this coincides with the deferred evaluation step for step; '
               'the other Iter stages are C17']
MANIFEST = dict(
    text=("Lean 4 theorem c08_mode_lexical: for every spec (any nesting), target, Python-primitive instantiation and fuel, "
          "every mode the code-shaped interpreter records at a probe (mode stored in scope frames, copied by _glom, set by "
          "Fill/Auto/Match/Group on their own frame, reset by chain_child) equals the static mode of that position (nearest "
          "enclosing wrapper, else AUTO); proved generically for any scope satisfying 24 lexical-scoping laws and the laws "
          "proved for the ChainMap-of-frames representation; Fill/argument mode shape and literal laws; a proved "
          "counter-example shows the pre-repair chain_child (defect F4) violates it; lazily evaluated streams (Iter) are a construct "
          "of the induction (their probes carry the mode of the place where the stream is written, whichever later step consumes "
          "it). A plain object -- at any position of a tuple / Pipe, however deep below the wrapper -- is interpreted by the mode "
          "function of the mode in force around it (c08_plain_dispatch, c08_chain_steps_owner_mode, c08_plain_step_of_chain; "
          "c08_pipe_splice_counterexample: splicing a tuple step into the Pipe is not equivalent under Fill / Match). For "
          "self-referential containers in argument position the reference `rebuild` (id()-memo for lists and dicts, tuples "
          "structurally) is proved total on every constructible heap (c08_rebuild_terminates: recursion depth fuelBound suffices, "
          "the result is fuel-independent) and shape-preserving (c08_rebuild_iso: the memo is a bijection between the reachable "
          "lists / dicts and the first-visit numbers, every rebuilt node has the kind and item-by-item the items of its spec node, "
          "shared nodes stay shared, cycles stay cycles), with the forced hypothesis shown by c08_rebuild_tuple_cycle_counterexample. "
          "The interpreter model is tied to "
          "/repo by differential execution (result + call log + probe-mode log) through the compiled Lean driver, which "
          "evaluates the same checkModes predicate on the modes the real glom recorded."),
    note=("trusted: Lean kernel + {propext, Classical.choice, Quot.sound}; harness/driver; Python primitives as Prims "
          "parameters; hand-written interpreter model (validated on every run by the correspondence, not regenerated). "
          "Not covered by a theorem: that _ArgValuator computes `rebuild` (checked against it on every run); "
          "identity/freshness of rebuilt containers (observed on the implementation); Group's accumulating dict/list specs (C16)."),
    technique='Lean 4 invariant proof by induction on fuel over a monadic interpreter model (Hoare-style rules) + differential correspondence',
    ref='DESIGN.md §3 C08')


# ---------------------------------------------------------------- self-referential containers
CYC_POSITIONS = ['coalesce', 'sbind', 'call', 'tget', 'match_dflt', 'switch_dflt', 'or_dflt']


def gen_cyclic(rng):
    """a container graph with at least one cycle (list / dict nodes containing themselves, each other, shared
    nodes, tuples on the way) with T / Spec / literal / callable leaves, placed in an argument position and
    evaluated (same spec object) for two or three different targets"""
    n = rng.randint(1, 4)
    kinds = [rng.choice(['list', 'list', 'dict'])] + [rng.choice(['list', 'list', 'dict', 'dict', 'tuple']) for _ in range(n - 1)]
    mut = [i for i, k in enumerate(kinds) if k != 'tuple']

    def leaf():
        p = rng.random()
        if p < 0.4:
            return {'leaf': {'k': 't', 'steps': [['[', ic.enc(rng.choice(['id', 'id', 'name', 'pair']))]]}}
        if p < 0.5:
            return {'leaf': {'k': 't', 'steps': []}}
        if p < 0.6:
            return {'leaf': {'k': 'specW', 's': {'k': 'str', 's': rng.choice(['id', 'sub.x'])}, 'scope': []}}
        if p < 0.7:
            return {'leaf': {'k': 'str', 's': rng.choice(['id', 'lit'])}}
        if p < 0.8:
            return {'leaf': {'k': 'fn', 'name': 'f1', 'kind': 'len'}}
        if p < 0.86:
            return {'leaf': {'k': 't', 'steps': [['[', ic.enc('nokey')]]}}          # a failing leaf
        return {'leaf': {'k': 'lit', 'v': ic.enc(rng.choice([1, None, True]))}}

    def item(i):
        if rng.random() < 0.45:
            # a tuple may point at list / dict nodes and at tuples with a larger index (the order in which the
            # tuples can be constructed): every cycle passes through a mutable node
            return {'ref': rng.choice(mut + [j for j in range(i + 1, n) if kinds[j] == 'tuple']
                                      if kinds[i] == 'tuple' else list(range(n)))}
        return leaf()
    nodes = []
    for i, k in enumerate(kinds):
        items = [item(i) for _ in range(rng.randint(0, 3))]
        # a chain through all nodes back to node 0: every node is reachable and lies on a cycle
        nxt = (i + 1) % n
        items.insert(rng.randint(0, len(items)), {'ref': nxt})
        if k == 'dict':
            nodes.append({'t': 'dict', 'es': [[{'leaf': {'k': 'str', 's': 'k%d' % m}}, it] for m, it in enumerate(items)]})
        else:
            nodes.append({'t': k, 'xs': items})
    targets = []
    for m in range(rng.randint(2, 3)):
        t = {'id': m * 10 + rng.randint(0, 5), 'sub': {'x': [m]}, 'pair': (m, 'p')}
        if rng.random() < 0.6:
            t['name'] = 'n%d' % m
        targets.append(ic.enc(t))
    return {'kind': 'cyclic', 'pos': rng.choice(CYC_POSITIONS), 'wrap': rng.choice([None, None, 'fill', 'auto']),
            'nodes': nodes, 'root': {'ref': 0}, 'targets': targets}


def build_graph(case, fns):
    """the Python objects of a container graph: list / dict nodes first (empty), then tuples, then the contents"""
    nodes = case['nodes']
    objs = [None] * len(nodes)
    for i, nd in enumerate(nodes):
        if nd['t'] != 'tuple':
            objs[i] = ic._reg(fns, 'spec-containers', [] if nd['t'] == 'list' else {})

    def item(it):
        if 'ref' in it:
            if objs[it['ref']] is None:
                objs[it['ref']] = tuple(item(x) for x in nodes[it['ref']]['xs'])
            return objs[it['ref']]
        return ic.build(it['leaf'], fns)
    for i, nd in enumerate(nodes):
        if nd['t'] == 'tuple' and objs[i] is None:
            objs[i] = tuple(item(x) for x in nd['xs'])
    for i, nd in enumerate(nodes):
        if nd['t'] == 'list':
            objs[i].extend(item(x) for x in nd['xs'])
        elif nd['t'] == 'dict':
            for k, v in nd['es']:
                objs[i][item(k)] = item(v)
    return item(case['root'])


def enc_graph(v, given, seen):
    """canonical form of a result graph: list / dict objects numbered in first-visit order (objects that
    belong to the target are leaf values), tuples structurally"""
    if type(v) in (list, dict) and id(v) not in given:
        if id(v) in seen:
            return {'ref': seen[id(v)]}
        n = len(seen)
        seen[id(v)] = n
        if type(v) is list:
            return {'list': n, 'xs': [enc_graph(x, given, seen) for x in v]}
        return {'dict': n, 'es': [[enc_graph(k, given, seen), enc_graph(x, given, seen)] for k, x in v.items()]}
    if type(v) is tuple:
        return {'tuple': [enc_graph(x, given, seen) for x in v]}
    return {'leaf': ic.enc(v)}


def graph_nodes(v, given, seen=None):
    seen = {} if seen is None else seen
    if type(v) in (list, dict) and id(v) not in given and id(v) not in seen:
        seen[id(v)] = v
        for x in (v if type(v) is list else [y for kv in v.items() for y in kv]):
            graph_nodes(x, given, seen)
    elif type(v) is tuple:
        for x in v:
            graph_nodes(x, given, seen)
    return seen


def run_cyclic(case):
    import glom
    from glom import T, S
    fns = {}
    G = build_graph(case, fns)
    ident = lambda x: x
    pos = case['pos']
    kw = {}
    # (the failing alternative in front of a default fails in every mode: T['zz'])
    if pos == 'coalesce':
        spec = glom.Coalesce(T['zz'], default=G)
    elif pos == 'sbind':
        spec = glom.Pipe(S(x=G), S.x)              # (a chain in every mode)
    elif pos == 'call':
        spec = glom.Call(ident, args=(G,))
    elif pos == 'tget':
        spec = T.get('zz', G)
    elif pos == 'match_dflt':
        spec = glom.Match(str, default=G)
    elif pos == 'switch_dflt':
        spec = glom.Switch([(T['zz'], T)], default=G)
    else:
        spec = glom.Or(T['zz'], default=G)
    if case.get('wrap') == 'fill':
        spec = glom.Fill(spec)
    elif case.get('wrap') == 'auto':
        spec = glom.Auto(spec)
    own = set(map(id, fns.get(('spec-containers',), [])))

    def evaluate(tj):
        target = ic.dec(tj, fns)
        given = set(map(id, fns.get(('dec-objs',), [])))
        try:
            res = glom.glom(target, spec, **kw)
        except Exception as e:
            return {'err': ic.exc_name(e)}, True, None, given
        finally:
            del ic.LOG[:]
        try:
            g = {'ok': enc_graph(res, given, {})}
        except ValueError as ve:
            g = {'err': 'Unencodable:' + str(ve)[:80]}
        fresh = not any(i in own for i in graph_nodes(res, given))
        return g, fresh, res, given
    graphs, fresh_all, rerun_same = [], True, True
    for tj in case['targets']:
        g, fresh, res, given = evaluate(tj)
        graphs.append(g)
        fresh_all = fresh_all and fresh
        if res is not None:
            # mutate every node of the rebuilt graph, evaluate the same spec object again
            for o in graph_nodes(res, given).values():
                if type(o) is list:
                    o.append(ic.MARK)
                else:
                    o[ic.MARK] = ic.MARK
            g2, fresh2, _, _ = evaluate(tj)
            rerun_same = rerun_same and g2 == g
            fresh_all = fresh_all and fresh2
    out = dict(case)
    out['impl_graphs'] = graphs
    out['impl_fresh'] = fresh_all
    out['impl_rerun_same'] = rerun_same
    out['impl'] = graphs
    return out


def modechain_shapes():
    """enumerated: a Pipe below a Fill / Match / Auto wrapper -- directly and through each construct that leaves the
    mode alone -- with a plain tuple / list / dict / str step as its only, first, middle and last step.  Pipe is
    not a mode wrapper: the step is read in the mode around the Pipe (Fill: constructor, Match: pattern, Auto:
    chain / list spec / dict spec / path)."""
    T0 = {'k': 't', 'steps': []}
    X = {'k': 't', 'steps': [['[', {'s': 'x'}]]}
    C = lambda x: {'k': 'coalesce', 'subs': [x], 'dflt': None, 'dflt_factory': None, 'skip': None, 'skip_exc': ['GlomError']}
    through = [lambda b: b, lambda b: {'k': 'specW', 's': b, 'scope': []}, C,
               lambda b: {'k': 'switch', 'cases': [[T0, b]], 'dflt': None},
               lambda b: {'k': 'and', 'cs': [b], 'dflt': None}, lambda b: {'k': 'or', 'cs': [b], 'dflt': None},
               lambda b: {'k': 'pipe', 'xs': [T0, b]}, lambda b: {'k': 'pipe', 'xs': [b]},
               lambda b: {'k': 'inspect', 's': b, 'bp': None, 'pm': None, 'echo': False, 'recursive': False}]
    fill_objs = [{'k': 'tuple', 'xs': [X, {'k': 'str', 's': 'lit'}]}, {'k': 'tuple', 'xs': [T0]},
                 {'k': 'tuple', 'xs': [{'k': 'tuple', 'xs': [X]}, {'k': 'list', 'xs': [T0]}]},
                 {'k': 'list', 'xs': [X, T0]}, {'k': 'dict', 'es': [[{'k': 'str', 's': 'k'}, X]]}, {'k': 'str', 's': 'x'}]
    ftarget = {'x': 1, 'y': {'x': 2}}
    INT, STR = {'k': 'ty', 'name': 'int'}, {'k': 'ty', 'name': 'str'}
    match_objs = [{'k': 'tuple', 'xs': [INT, STR]}, {'k': 'tuple', 'xs': [INT, {'k': 'str', 's': 's'}]},
                  {'k': 'tuple', 'xs': [INT]}, {'k': 'ty', 'name': 'tuple'}]
    mtarget = (1, 's')
    auto_objs = [{'k': 'tuple', 'xs': [{'k': 'str', 's': 'y'}, {'k': 'str', 's': 'x'}]}, {'k': 'str', 's': 'y.x'},
                 {'k': 'dict', 'es': [[{'k': 'str', 's': 'k'}, {'k': 'str', 's': 'x'}]]}]
    for w, objs, target in (('fill', fill_objs, ftarget), ('match', match_objs, mtarget), ('auto', auto_objs, ftarget)):
        for obj in objs:
            for steps in ([obj], [obj, T0], [T0, obj, T0], [T0, obj]):
                for th in through:
                    body = th({'k': 'pipe', 'xs': steps})
                    spec = {'k': 'match', 's': body, 'dflt': None} if w == 'match' else {'k': w, 's': body}
                    yield {'spec': spec, 'target': ic.enc(target), 'scope': []}
                    yield {'spec': {'k': 'tuple', 'xs': [spec, {'k': 'probe', 'id': 9}]}, 'target': ic.enc(target), 'scope': []}


def generate(rng, tier, scale, **focus):
    if not focus:
        yield from modechain_shapes()
    n = (1500 if tier == 'quick' else 30000) * scale
    for i in range(n):
        if rng.random() < 0.06:
            yield gen_cyclic(rng)
            continue
        g = Gen(rng, {'extra': ['wrap', 'wrap', 'wrap', 'probe', 'probe', 'modeprobe', 'fillshape', 'switch', 'and', 'lazy', 'modechain', 'inspect'],
                      'scope': False})
        t = g.target()
        depth = rng.choice([1, 2, 2, 3]) if tier == 'quick' else rng.choice([2, 3, 3, 4])
        p = rng.random()
        if p < 0.08:
            # a lazy stream built under a wrapper at a non-final chain position, consumed by a later step
            spec = g.s_lazy(t, depth, top=True)
        elif p < 0.2:
            t = Gen.rows_target(rng)
            spec = g.s_argshape(t, 2)
        elif p < 0.32:
            spec = g.s_fillshape(t, rng.choice([1, 2, 3]))
        elif p < 0.5:
            # a wrapper at a chosen step of a chain, followed / preceded by mode-sensitive probes
            steps = []
            for _ in range(rng.randint(1, 4)):
                q = rng.random()
                if q < 0.4:
                    steps.append(g.s_wrap(t, depth))
                elif q < 0.7:
                    steps.append(g.modeprobe(t, 0))
                else:
                    steps.append(g.probe())
            spec = {'k': rng.choice(['tuple', 'pipe']), 'xs': steps}
        elif p < 0.62:
            # a Pipe inside a Fill / Match / Auto wrapper (directly or through mode-neutral constructs) with
            # plain mode-sensitive steps (tuple / list / dict / str) at the first, a middle and the last position
            spec = g.s_modechain(t, depth)
        else:
            spec = g.spec(t, depth)
        yield {'spec': gate_inspect(spec), 'target': ic.enc(t), 'scope': []}


def corpus():
    p = os.path.join(os.path.dirname(os.path.dirname(os.path.dirname(os.path.abspath(__file__)))),
                     'corpus', PROP + '.jsonl')
    out = []
    if os.path.exists(p):
        for line in open(p):
            if line.strip():
                out.append(json.loads(line))
    return out


def run_impl(case):
    """two evaluations of the same spec object with every glom-created container of the first
    result mutated in between, plus the identity observation of `ic.run_glom` (no mutable
    container of the spec is part of a result or reaches a callable)"""
    base = {k: v for k, v in case.items() if not k.startswith('impl')}
    if base.get('kind') == 'cyclic':
        return run_cyclic(base)
    out = ic.run_glom_mutating(base)
    if base['spec']['k'] == 'fill' and not base.get('scope'):
        # Fill(spec).fill(target) is glom(target, Fill(spec))
        fns = {}
        import contextlib
        import io
        try:
            with contextlib.redirect_stdout(io.StringIO()):
                res = ic.build(base['spec'], fns).fill(ic.dec(base['target'], fns))
        except Exception as e:
            r = {'err': ic.exc_name(e)}
        else:
            ic.SPEC_LITERALS[:] = fns.get(('spec-literals',), [])
            try:
                r = {'ok': ic.enc(res)}
            except ValueError as ve:
                r = {'err': 'Unencodable:' + str(ve)[:80]}
            del ic.SPEC_LITERALS[:]
        del ic.LOG[:]
        if r != out['impl']:
            out['impl_rerun_same'] = False
            out['impl_fill_method'] = r
    return out


def key(case):
    if case.get('kind') == 'cyclic':
        return {k: case[k] for k in ('kind', 'pos', 'wrap', 'nodes', 'root', 'targets')}
    return _c03.key(case)


def shrink(case):
    if case.get('kind') == 'cyclic':
        base = {k: v for k, v in case.items() if not k.startswith('impl')}
        if len(base['targets']) > 1:
            for i in range(len(base['targets'])):
                c = dict(base); c['targets'] = base['targets'][:i] + base['targets'][i + 1:]
                yield c
        if base.get('wrap'):
            c = dict(base); c['wrap'] = None
            yield c
        for i, nd in enumerate(base['nodes']):
            f = 'es' if nd['t'] == 'dict' else 'xs'
            for m in range(len(nd[f])):
                c = dict(base)
                c['nodes'] = [dict(x) for x in base['nodes']]
                c['nodes'][i][f] = nd[f][:m] + nd[f][m + 1:]
                yield c
        return
    yield from _c03.shrink(case)


def nontrivial(case, verdict):
    if case.get('kind') == 'cyclic':
        return True
    s = json.dumps(case['spec'])
    return any(('"k": "%s"' % w) in s for w in ('fill', 'auto', 'match', 'group')) and \
        ('"probe"' in s or '"k": "str"' in s or '"k": "tuple"' in s)
