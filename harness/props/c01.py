"""C01 — path access: class catalogue, generators, implementation runner, shrinker."""
import json
import operator
import os
import random
import sys
import types
import warnings
from collections import Counter, OrderedDict, namedtuple

from harness import pyobjs

PROP = 'C01'
LEAN_MODULES = ['Glom.Props.C01']
FACT_FILES = ['TFacts', 'ExcFacts', 'RegFacts', 'C01Facts', 'c01']
READY = True
MANIFEST = dict(
    text="Lean 4 theorems: `_t_eval`'s flat-tuple loop, with the registry (type map, fuzzy types, memo of resolved handlers — a remembered False included) threaded through it, refines the left-to-right walk under the handler table in force at the time of the call — for every heap, target, path of any length, every handler table and handler semantics, every history of register / glom / raise_exc=False-lookup calls on one registry (same object on success — a class attribute by its identity: the bound method of this receiver, the very object of the owner's __dict__ —, PathAccessError(k, e) at the first failing segment, nothing touched after it: the access log equals the walk's; memo coherence is an invariant of every history); `Path.from_text` (PATH_STAR on/off) = `Path(*segs)`, nested Paths flatten; `int()` segment parsing (whitespace, underscores, Unicode digits, digit limit); per-run facts obligation by `decide` on the tables regenerated from /repo (branch table of `_t_eval` and `i // 2`, exception MROs, default registrations, shape of `register`/`get_handler`, of `Path.from_text` / `Path.__init__` / `_t_child` / the AUTO string shortcut, PathAccessError carrying the caught exception); model tied to the code by differential execution through the compiled Lean driver.",
    note="trusted: Lean kernel + {propext, Classical.choice, Quot.sound}; extractor; harness/driver; CPython access primitives (getattr incl. properties / __getattr__ / __slots__ / namedtuple fields / class attributes with their identity, subscription incl. __missing__, int() incl. whitespace/underscores/Unicode digits/digit limit) as modelled in Glom/Model/C01Py.lean and validated by the correspondence; the closest-type search of the registry is taken as 'nearest fuzzily registered class of the effective MRO' (C13 proves the search); values of C-level computed attributes (__dict__, __weakref__, int.real …) are not modelled; e.exc identity is checked where the catalogue raised the exception, otherwise only that it is a raised exception of the right class (KeyError: also its key).",
    technique='Lean 4 refinement proof (flat ops loop with registry state = structural walk under the table in force; memo-coherence invariant over histories) + facts obligation by decide + differential correspondence (result identity incl. class attributes, error class / index / path / carried exception, access-log equality)',
    ref='DESIGN.md §3 C01')
RULE = ('type-directed: a nested target (dict/OrderedDict/Counter/dict subclasses with __missing__, list, tuple, '
        'namedtuples, attribute objects incl. __slots__, raising/returning properties, __getattr__ fallbacks, '
        'properties / __getattr__ written with glom (re-entrant call on a raw dict, failing or not), '
        'scalars; shared sub-objects and cycles through mutable containers; plain or access-logging classes) is '
        'generated as a heap graph; a history of 1-3 glom calls and 0-2 register calls (get = getattr / getitem / '
        '_get_sequence_item / private-table lookup / raising handler / False / no get keyword, on a class of the '
        'target, one of its bases or a builtin, exact or not; before the first access, between two accesses, '
        'after; also lookups with raise_exc=False, which remember a missing handler) on one Glommer (default '
        'registrations or none); each path (length 0-6 quick / 0-10 thorough) is '
        'derived by walking the target under the handlers in force, spelled as dotted text, Path(...) or a mixture '
        'with T steps, and a one-edit mutation stream plants an invalid segment (missing key, out-of-range / '
        'non-numeric index, int() spellings with whitespace, underscores, Unicode digits, over-long digit strings, '
        'missing attribute, wrong access kind, scalar in the middle, class attribute) at every position; plus an '
        'int() battery (random strings over digits of several Unicode blocks, underscores, signs, every kind of '
        'whitespace, near misses, digit-limit boundary) and an attribute battery (every name of dir() of every '
        'catalogue class and scalar, and names they lack); thorough also enumerates all paths of length <= 3 over a '
        '4-name alphabet on fixed targets and all histories of length <= 4 over 3 calls, 4 registrations and a raise_exc=False lookup. '
        'spellings nest Path parts inside Path parts (also first, also empty), merge T steps into multi-step T parts, '
        'and run with PATH_STAR on or off; every catalogue class is access-logging (attribute reads incl. property / '
        '__getattr__ / namedtuple field, subscriptions incl. __missing__) and the log must equal the walk\'s. '
        'non-trivial = a path of length >= 2 or a failing path; distinct = distinct (heap, events)')
TRUSTED = ['values of C-level computed class attributes (__dict__, __weakref__, int.real, …) are not modelled (every other class attribute is compared by identity token); '
           'handlers and class hooks come from the catalogue in harness/props/c01.py (the theorems hold for every handler semantics)']
ASSUMPTIONS = ['the closest-type search is the nearest fuzzily registered class of the effective MRO (real bases, then '
               "glom's two duck types, then object): proved from the tree search in C13", 'PATH_STAR = True']

NAMES = ['a', 'b', 'c', 'k0']
SCALARS = [None, True, False, 0, 1, 7, -3, 'x', 'abc', '']


# ------------------------------------------------------------------ class catalogue
# Every class below is access-logging: reading a public attribute appends the instance to
# pyobjs.ACCESS_LOG before anything else happens (property, __getattr__ and namedtuple-field
# reads included), a subscription does too (before __missing__ runs).  The plain builtins, the
# real collections.Counter, the plain namedtuple PtN and pyobjs.Obj / Obj2 stay unlogged.
RAISED = []          # every exception object raised by catalogue code (hooks, handlers), in order


def _log_attr(self, name):
    if not name.startswith('_'):
        pyobjs.ACCESS_LOG.append(self)
    return object.__getattribute__(self, name)


def _logging_getitem(base):
    def __getitem__(self, k):
        pyobjs.ACCESS_LOG.append(self)
        return base.__getitem__(self, k)
    return __getitem__


def _throw(exc):
    RAISED.append(exc)
    raise exc


class Rec:
    """plain attribute object; the Rec family is what handlers get registered for"""
    __getattribute__ = _log_attr

    def __init__(self, **kw):
        self.__dict__.update(kw)


class Row(Rec):
    pass


class Row2(Row):
    pass


class Mix:
    def helper(self):
        return 1


class RowM(Mix, Row):
    pass


PtN = namedtuple('PtN', ['a', 'b'])
PtBase = namedtuple('PtBase', ['a', 'b'])
Pt1Base = namedtuple('Pt1Base', ['k0'])


class Pt(PtBase):
    __slots__ = ()
    __getattribute__ = _log_attr
    __getitem__ = _logging_getitem(tuple)


class Pt1(Pt1Base):
    __slots__ = ()
    __getattribute__ = _log_attr
    __getitem__ = _logging_getitem(tuple)


class Slots:
    __slots__ = ('a', 'b', 'c')
    __getattribute__ = _log_attr


class SlotsFb(Slots):
    __slots__ = ()

    def __getattr__(self, name):
        return name


def _raise(cls):
    def f(self):
        _throw(cls('catalogue property'))
    return f


class Prop:
    __getattribute__ = _log_attr
    pa = property(_raise(AttributeError))
    pv = property(_raise(ValueError))
    pc = property(lambda self: 7)
    ps = property(lambda self: object.__getattribute__(self, 'a'))


class PropFb(Prop):
    def __getattr__(self, name):
        return 'fb'


class Fb:
    __getattribute__ = _log_attr

    def __getattr__(self, name):
        return object.__getattribute__(self, '_tab')[name]


class FbVal:
    __getattribute__ = _log_attr

    def __getattr__(self, name):
        _throw(ValueError(name))


def _nested_glom(raw, name):
    """an accessor written with glom: a re-entrant glom call (default registry) on a raw dict"""
    import glom
    try:
        return glom.glom(raw, glom.Path(name))
    except glom.GlomError as e:
        RAISED.append(e)
        raise


class PropG:
    """attributes are views on a raw dict, read with glom (a nested call that may fail)"""
    __getattribute__ = _log_attr
    pg = property(lambda self: _nested_glom(object.__getattribute__(self, '_tab'), 'pg'))
    pb = property(lambda self: _throw(_glom_exc('BadSpec')('catalogue property')))


class FbG:
    __getattribute__ = _log_attr

    def __getattr__(self, name):
        return _nested_glom(object.__getattribute__(self, '_tab'), name)


def _glom_exc(name):
    import glom
    return getattr(glom, name)


class DMissEcho(dict):
    __getattribute__ = _log_attr
    __getitem__ = _logging_getitem(dict)

    def __missing__(self, key):
        return key


class DMissVal(dict):
    __getattribute__ = _log_attr
    __getitem__ = _logging_getitem(dict)

    def __missing__(self, key):
        _throw(ValueError(key))


class DMissKey(dict):
    __getattribute__ = _log_attr
    __getitem__ = _logging_getitem(dict)

    def __missing__(self, key):
        _throw(KeyError(key))


class CounterL(Counter):
    __getattribute__ = _log_attr
    __getitem__ = _logging_getitem(Counter)


class Boom(Exception):
    pass


class BoomKey(KeyError):
    pass


# class-level behaviour declared next to the classes above (the model's ClsInfo)
DECL = {
    'SlotsFb': {'fallback': 'echo'},
    'Prop': {'props': [['pa', {'raises': 'AttributeError'}], ['pv', {'raises': 'ValueError'}],
                       ['pc', {'const': {'i': 7}}], ['ps', {'slot': 'a'}]]},
    'PropFb': {'fallback': {'const': {'s': 'fb'}}},
    'Fb': {'fallback': {'table': '_tab'}},
    'PropG': {'props': [['pg', {'glomtab': '_tab'}], ['pb', {'raises': 'BadSpec'}]]},
    'FbG': {'fallback': {'glomtab': '_tab'}},
    'FbVal': {'fallback': {'raises': 'ValueError'}},
    'DMissEcho': {'missing': 'echo'},
    'DMissVal': {'missing': {'raises': 'ValueError'}},
    'DMissKey': {'missing': {'raises': 'KeyError'}},
    'Counter': {'missing': {'const': {'i': 0}}},
}
LOGA_FUNCS = (_log_attr, pyobjs._log_attr, pyobjs.LObj.__getattribute__)

NEW_CLASSES = [Rec, Row, Row2, Mix, RowM, Pt, Pt1, PtN, Slots, SlotsFb, Prop, PropFb, Fb, FbVal, PropG, FbG,
               DMissEcho, DMissVal, DMissKey, Counter, CounterL]
CLASSES = dict(pyobjs.CLASSES)
CLASSES.update({c.__name__: c for c in NEW_CLASSES})
INFO_ONLY = {c.__name__: c for c in [PtBase, Pt1Base]}      # bases that are never instantiated
BUILTIN_REG = {'object': object, 'dict': dict, 'list': list, 'tuple': tuple, 'OrderedDict': OrderedDict,
               'int': int, 'str': str}
EXCS = {c.__name__: c for c in [KeyError, IndexError, AttributeError, TypeError, ValueError, RuntimeError,
                                ZeroDivisionError, StopIteration, OSError, LookupError, Boom, BoomKey]}


def layout_of(cls):
    if issubclass(cls, dict):
        return 'dict'
    if issubclass(cls, list):
        return 'list'
    if issubclass(cls, tuple):
        return 'tuple'
    if issubclass(cls, (set, frozenset)):
        return 'set'
    return 'inst'


LAYOUT = {n: layout_of(c) for n, c in CLASSES.items()}
TAB_CLASSES = ['Rec', 'Row', 'Row2', 'RowM', 'Fb', 'PropFb', 'PropG', 'FbG']     # instances may carry a private table `_tab`


def sample_of(cls):
    if hasattr(cls, '_fields'):
        return cls(*[None] * len(cls._fields))
    return cls.__new__(cls)


def eff_mro(cls):
    """the MRO as glom's closest-type search ranks it: real base classes, then the two duck
    types (_AbstractIterable: the class has a callable __iter__; _ObjStyleKeys: instances have a
    __dict__), then object — computed here without consulting glom"""
    x = sample_of(cls)
    names = [k.__name__ for k in cls.__mro__ if k is not object]
    duck = []
    if callable(getattr(cls, '__iter__', None)) and cls not in (str, bytes):
        duck.append('_AbstractIterable')
    if hasattr(x, '__dict__') and hasattr(x.__dict__, 'keys'):
        duck.append('_ObjStyleKeys')
    return names + duck + ['object']


def attr_kind(cls, x, n):
    """how instance x reaches the attribute n of cls's own __dict__ — the same rule as
    extract/facts/c01.py applies to the builtin classes"""
    raw = vars(cls)[n]
    v = getattr(x, n)
    if isinstance(v, (types.MethodType, types.BuiltinMethodType, types.MethodWrapperType)):
        slf = v.__self__
        if slf is x:
            return ('method', '')
        if isinstance(slf, type):
            if isinstance(raw, classmethod) or type(raw).__name__ == 'classmethod_descriptor':
                return ('clsmethod', '')
            return ('static', slf.__name__)
    if n == '__class__' and v is type(x):
        return ('class', '')
    if v is raw or (isinstance(raw, staticmethod) and v is raw.__func__):
        return ('const', '')
    return ('computed', '')


def cls_info(cls):
    decl = DECL.get(cls.__name__, {})
    own = vars(cls)
    fields = list(cls._fields) if (issubclass(cls, tuple) and '_fields' in own) else []
    props = decl.get('props', [])
    slots = own.get('__slots__', ())
    slots = (slots,) if isinstance(slots, str) else tuple(slots)
    skip = set(fields) | {p[0] for p in props} | set(slots)
    x = sample_of(cls)
    attrs = []
    for n in sorted(own):
        if n in skip:
            continue
        try:
            getattr(x, n)
        except Exception:
            continue
        k, extra = attr_kind(cls, x, n)
        attrs.append([n, k, extra])
    log_a = type(x).__getattribute__ in LOGA_FUNCS
    log_i = any('__getitem__' in vars(k) for k in cls.__mro__
                if k.__name__ in CLASSES and k.__module__ != 'builtins' and k not in (OrderedDict, Counter))
    return {'fields': fields, 'props': props, 'attrs': attrs,
            'fallback': decl.get('fallback'), 'missing': decl.get('missing'),
            'logA': bool(log_a), 'logI': bool(log_i)}


_TABLES = {}


def tables():
    if not _TABLES:
        _TABLES['classes'] = [[n, eff_mro(c)] for n, c in CLASSES.items()]
        _TABLES['info'] = [[n, cls_info(c)] for n, c in list(CLASSES.items()) + list(INFO_ONLY.items())
                           if c not in (dict, list, tuple, set, frozenset, OrderedDict)]
        del pyobjs.ACCESS_LOG[:]
        _TABLES['excs'] = [[n, [k.__name__ for k in c.__mro__]] for n, c in EXCS.items()
                           if c in (Boom, BoomKey)]
        _TABLES['mro'] = {n: m for n, m in _TABLES['classes']}
        for b in (int, str, bool, type(None), object):
            _TABLES['mro'][b.__name__] = [k.__name__ for k in b.__mro__]
    return _TABLES


def jval(v):
    if v is None:
        return None
    if isinstance(v, bool):
        return {'b': v}
    if isinstance(v, int):
        return {'i': v}
    return {'s': v}


# ------------------------------------------------------------------ heap generation
class HeapGen:
    def __init__(self, rng, logging, maxdepth, fancy, star=False):
        self.rng, self.logging, self.maxdepth, self.fancy, self.star = rng, logging, maxdepth, fancy, star
        self.heap = []
        self.open_mut = []   # addresses of mutable ancestors (cycle targets)
        self.closed = []     # completed cells (sharing targets)

    def cls(self, lay):
        r = self.rng
        if self.logging:
            return {'dict': 'LDict', 'list': 'LList', 'tuple': 'LTuple', 'inst': 'LObj'}[lay]
        f = self.fancy
        if lay == 'dict':
            return r.choice(['dict', 'dict', 'OrderedDict'] +
                            (['Counter', 'CounterL', 'DMissEcho', 'DMissVal', 'DMissKey'] if f else []))
        if lay == 'inst':
            return r.choice(['Obj', 'Obj', 'Obj2'] +
                            (['Rec', 'Row', 'Row', 'Row2', 'RowM', 'Slots', 'SlotsFb', 'Prop', 'PropFb',
                              'Fb', 'FbVal', 'PropG', 'FbG'] if f else []))
        if lay == 'tuple' and f:
            return r.choice(['tuple', 'tuple', 'Pt', 'Pt1', 'PtN'])
        return lay

    def node(self, depth):
        r = self.rng
        p = r.random()
        if depth >= self.maxdepth or p < 0.22:
            return jval(r.choice(SCALARS))
        if p < 0.30 and self.closed:
            return {'r': r.choice(self.closed)}
        if p < 0.33 and self.open_mut:
            return {'r': r.choice(self.open_mut)}
        lay = r.choice(['dict', 'dict', 'list', 'tuple', 'inst', 'inst'] if self.fancy
                       else ['dict', 'dict', 'list', 'tuple', 'inst'])
        n = r.choice([0, 1, 2, 2, 3])
        cname = self.cls(lay)
        if cname in ('Pt', 'PtN'):
            n = 2
        elif cname == 'Pt1':
            n = 1
        if lay == 'tuple' and n == 0 and not self.logging:
            # CPython has exactly one empty tuple object: one cell for it, however often it occurs
            for a0, c0 in enumerate(self.heap):
                if c0['k'] == 'tuple' and c0['c'] == 'tuple' and not c0['v'] and a0 in self.closed:
                    return {'r': a0}
        a = len(self.heap)
        cell = {'k': lay, 'c': cname, 'v': []}
        self.heap.append(cell)
        mutable = lay != 'tuple'
        if mutable:
            self.open_mut.append(a)
        if lay == 'dict':
            keys = r.sample(NAMES + [0, 1, '0', '1', '-1', 'x y'] + (['*', '**'] if self.star else []), n)
            cell['v'] = [[jval(k), self.node(depth + 1)] for k in keys]
        elif lay == 'inst':
            pool = ['a', 'b', 'c'] if cname in ('Slots', 'SlotsFb') else NAMES
            keys = r.sample(pool, min(n, len(pool)))
            if cname in ('Prop', 'PropFb') and r.random() < 0.3:
                keys.append('pc')                      # shadowed by the property
            if cname == 'RowM' and r.random() < 0.3:
                keys.append('helper')                  # shadows the method
            cell['v'] = [[k, self.node(depth + 1)] for k in keys]
            if cname in TAB_CLASSES and r.random() < 0.7:
                ta = len(self.heap)
                tcell = {'k': 'dict', 'c': 'dict', 'v': []}
                self.heap.append(tcell)
                tkeys = r.sample(NAMES, r.choice([1, 2, 3]))
                if cname == 'PropG' and r.random() < 0.6:
                    tkeys.append('pg')
                tcell['v'] = [[jval(k), self.node(depth + 1)] for k in tkeys]
                self.closed.append(ta)
                cell['v'].append(['_tab', {'r': ta}])
        else:
            cell['v'] = [self.node(depth + 1) for _ in range(n)]
        if mutable:
            self.open_mut.pop()
        self.closed.append(a)
        return {'r': a}


def gen_target(rng, logging, maxdepth, fancy=False, star=False):
    g = HeapGen(rng, logging, maxdepth, fancy, star)
    root = g.node(0)
    return g.heap, root


# ------------------------------------------------------------------ generator-side mirror of the table
DEFAULT_TABLE = {'object': 'getattr', 'dict': 'getitem', 'list': 'seq', 'tuple': 'seq',
                 'OrderedDict': 'getitem', '_AbstractIterable': 'getattr', '_ObjStyleKeys': 'getattr'}


class TableMirror:
    """which handler the generator expects to be in force (only used to derive mostly-valid
    paths; the oracle is the Lean model)"""
    def __init__(self):
        self.map = dict(DEFAULT_TABLE)
        self.tree = set(DEFAULT_TABLE)

    def register(self, reg):
        h = reg['get']
        if h is None:
            h = self.map.get(reg['cls'], 'getattr')
        self.map[reg['cls']] = h
        if not reg['exact']:
            self.tree.add(reg['cls'])

    def handler(self, cname):
        for c in tables()['mro'].get(cname, [cname, 'object']):
            if (c == cname and c in self.map) or c in self.tree:
                return self.map[c]
        return False


def val_cls(heap, val):
    if val is None:
        return 'NoneType'
    if 'r' in val:
        return heap[val['r']]['c']
    return {'b': 'bool', 'i': 'int', 's': 'str'}[next(iter(val))]


def children(heap, val, hn):
    """[(kind, key_json, child_val)] for a value; kinds: key / idx / attr / tab"""
    if not isinstance(val, dict) or 'r' not in val:
        return []
    cell = heap[val['r']]
    out = []
    if cell['k'] == 'dict':
        out = [('key', k, v) for k, v in cell['v']]
    elif cell['k'] in ('list', 'tuple'):
        out = [('idx', {'i': i}, v) for i, v in enumerate(cell['v'])]
        fields = getattr(CLASSES[cell['c']], '_fields', None)
        if fields and len(fields) == len(cell['v']):
            out += [('attr', {'s': f}, v) for f, v in zip(fields, cell['v'])]
    elif cell['k'] == 'inst':
        attrs = dict((k, v) for k, v in cell['v'])
        props = {p[0] for p in DECL.get(cell['c'], {}).get('props', [])}
        for b in CLASSES[cell['c']].__mro__:
            props |= {p[0] for p in DECL.get(b.__name__, {}).get('props', [])}
        out = [('attr', {'s': k}, v) for k, v in cell['v'] if not k.startswith('_') and k not in props]
        if 'ps' in props and 'a' in attrs:
            out.append(('attr', {'s': 'ps'}, attrs['a']))
        tab = attrs.get('_tab')
        if tab is not None and 'r' in tab:
            entries = [(k, v) for k, v in heap[tab['r']]['v']]
            if cell['c'] in ('Fb', 'FbG'):
                out += [('attr', k, v) for k, v in entries if k['s'] not in attrs]
            if cell['c'] == 'PropG':
                out += [('attr', k, v) for k, v in entries if k.get('s') == 'pg']
            if hn in ({'table': '_tab'}, {'glomtab': '_tab'}):
                out += [('tab', k, v) for k, v in entries]
    return out


def p_valid(kind, key, hn):
    """can the step be written as a plain Path segment under handler hn?"""
    if hn == 'getattr':
        return kind == 'attr'
    if hn == 'getitem':
        return kind in ('key', 'idx')
    if hn == 'seq':
        return kind == 'idx'
    if hn in ({'table': '_tab'}, {'glomtab': '_tab'}):
        return kind == 'tab'
    return False


def valid_walk(rng, heap, root, length, mirror, via=None):
    """list of (kind, key_json, value_before) along a random valid path; `via`: class names the
    walk should try to pass through"""
    cur = root
    out = []
    for _ in range(length):
        hn = mirror.handler(val_cls(heap, cur))
        ch = children(heap, cur, hn)
        if not ch:
            break
        if via:
            pref = [c for c in ch if isinstance(c[2], dict) and 'r' in c[2] and heap[c[2]['r']]['c'] in via]
            if pref and rng.random() < 0.7:
                ch = pref
        kind, key, nxt = rng.choice(ch)
        n = len(heap[cur['r']]['v'])
        if kind == 'idx' and rng.random() < 0.3:
            key = {'i': key['i'] - n}          # negative index, same element
        out.append((kind, key, cur))
        cur = nxt
    return out, cur


def text_ok(kind, key):
    if not isinstance(key, dict):
        return False
    if 'i' in key:
        return True
    s = key.get('s')
    return isinstance(s, str) and '.' not in s


def seg_text(kind, key):
    if 'i' in key:
        return str(key['i'])
    return key['s']


BAD_SEGS = [{'s': '*'}, {'s': '**'}, {'s': 'zz'}, {'s': '99'}, {'s': '-99'}, {'s': 'x'}, {'i': 99}, {'i': -99}, {'s': ''},
            None, {'b': True}, {'s': '1.5'}, {'s': '+1'}, {'s': '0'}, {'i': 0}, {'s': '_tab'}, {'s': 'pa'},
            {'s': 'pv'}, {'s': 'pc'}, {'s': 'ps'}, {'b': False}, {'s': 'pg'}, {'s': 'pb'}, {'s': 'pg'}]
CLS_ATTRS = ['__class__', '__doc__', 'keys', 'items', 'get', 'append', 'count', 'index', 'upper', 'real',
             '__len__', '__dict__', 'helper', '_fields', '_asdict', '__missing__', 'most_common', '__hash__',
             '__slots__', '__module__', '__getattr__', 'copy', 'bit_length', 'denominator', 'imag', '__init__',
             '__eq__', '__iter__', 'pa', 'pv', 'pc', 'ps', '__getattribute__', 'move_to_end', '__weakref__']
ARABIC = {ord(str(d)): 0x0660 + d for d in range(10)}
FULLW = {ord(str(d)): 0xFF10 + d for d in range(10)}
MATHD = {ord(str(d)): 0x1D7CE + d for d in range(10)}
BAD_INTS = ['1_', '_1', '1__0', '+ 1', '\x1c1', '1\x1f', '−1', '', ' ', '1.0', '1e0', '0x1', '0b1',
            '﻿1', 'Ⅷ', '²', '1 1', '+-1', '++1', '-', '+', '_', '1\x00', '١_', 'O']


def int_spelling(rng, i):
    """a string Python's int() reads as i (or, with small probability, a near miss)"""
    s = str(i)
    m = rng.randrange(14)
    if m == 0:
        return ' ' + s
    if m == 1:
        return s + '\t\n'
    if m == 2:
        return ' ' + s + ' '
    if m == 3 and i >= 0:
        return '+' + s
    if m == 4:
        return s.translate(ARABIC)
    if m == 5:
        return s.translate(FULLW)
    if m == 6:
        return s.translate(MATHD)
    if m == 7:
        sign, digits = (s[0], s[1:]) if s[0] == '-' else ('', s)
        return sign + '0_0' + digits
    if m == 8:
        sign, digits = (s[0], s[1:]) if s[0] == '-' else ('', s)
        return sign + '00' + digits
    if m == 9:
        sign, digits = (s[0], s[1:]) if s[0] == '-' else ('', s)
        return '　' + sign + digits.translate(ARABIC)[:1] + digits[1:] + '\x0c'
    if m == 10:
        sign, digits = (s[0], s[1:]) if s[0] == '-' else ('', s)
        pad = rng.choice([4299, 4300, 4301]) - len(digits)
        return sign + '0' * pad + digits          # at, just under and just over the digit limit
    if m == 11:
        return rng.choice(BAD_INTS)
    if m == 12:
        return s + rng.choice(['_', ' _', '\x1d', '.'])
    return s


def nest_parts(rng, parts, depth=0):
    """regroup a flat part list: consecutive T parts merged into one multi-step T expression,
    runs of parts wrapped into nested Path(...) parts (also as the first part, also empty ones)"""
    out = []
    k = 0
    while k < len(parts):
        p = parts[k]
        if 't' in p and out and 't' in out[-1] and rng.random() < 0.4:
            out[-1] = {'t': out[-1]['t'] + p['t']}
            k += 1
            continue
        if depth < 2 and rng.random() < 0.22:
            n = rng.randint(0, min(3, len(parts) - k))
            out.append({'path': nest_parts(rng, parts[k:k + n], depth + 1)})
            k += n
            continue
        out.append(p)
        k += 1
    if depth < 2 and rng.random() < 0.08:
        out.insert(rng.randint(0, len(out)), {'path': []})
    return out


def make_parts(rng, steps, style, heap_classes):
    """steps: [(kind, key, hn)] -> spelling dict; hn = handler the generator expects in force"""
    if style == 'text':
        return {'text': '.'.join(seg_text(k, key) for k, key, _ in steps)}
    parts = []
    for kind, key, hn in steps:
        as_seg = kind != 'tbad' and (style == 'path' or (style == 'mixed' and rng.random() < 0.5))
        if kind == 'tab' or kind == 'seg':
            as_seg = True
        elif as_seg and hn is not None and not p_valid(kind, key, hn) and rng.random() < 0.85:
            as_seg = False                      # keep the path valid: spell it as a T step
        if as_seg:
            # plain Path segment; list indices may be given as int or as digit string
            if kind == 'idx' and isinstance(key, dict) and 'i' in key and rng.random() < 0.5:
                parts.append({'seg': {'s': str(key['i'])}})
            else:
                parts.append({'seg': key})
        else:
            if kind == 'attr':
                parts.append({'t': [['.', key]]})
            elif kind == 'tbad':
                parts.append({'t': [key]})
            else:
                parts.append({'t': [['[', key]]})
    if rng.random() < 0.5:
        parts = nest_parts(rng, parts)
    return {'parts': parts}


def gen_steps(rng, heap, root, maxlen, mirror, via=None):
    """one path: (steps [(kind, key, hn)], spelling)"""
    length = rng.randint(0, maxlen)
    walk, leaf = valid_walk(rng, heap, root, length, mirror, via)
    steps = [(k, key, mirror.handler(val_cls(heap, cur))) for k, key, cur in walk]
    mode = rng.random()
    if mode < 0.40 or not steps:
        pass                                    # valid path (may be shorter than asked)
    elif mode < 0.50:
        # boundary indices of a sequence: -n-1, -2n, -n, n, n-1 (just outside / just inside)
        cands = [i for i, (_, _, cur) in enumerate(walk) if isinstance(cur, dict) and 'r' in cur
                 and heap[cur['r']]['k'] in ('list', 'tuple')]
        if cands:
            k = rng.choice(cands)
            n_ = len(heap[walk[k][2]['r']]['v'])
            steps[k] = ('idx', {'i': rng.choice([-n_ - 1, -2 * n_, -n_, n_, n_ - 1, -n_ - 2, -2 * n_ - 1, 2 * n_])},
                        steps[k][2])
            steps = steps[:k + 1] + steps[k + 1:][:rng.randint(0, 2)]
    elif mode < 0.60:
        # int() spellings of an index segment on a sequence (plain segment: _get_sequence_item)
        cands = [i for i, (kd, key, _) in enumerate(steps) if kd == 'idx' and 'i' in key]
        if cands:
            k = rng.choice(cands)
            steps[k] = ('seg', {'s': int_spelling(rng, steps[k][1]['i'])}, steps[k][2])
        else:
            steps.append(('seg', {'s': int_spelling(rng, 0)}, None))
    elif mode < 0.73:
        k = rng.randrange(len(steps))           # plant an invalid segment at position k
        kind = steps[k][0]
        steps[k] = (kind if rng.random() < 0.6 and kind != 'tab' else rng.choice(['key', 'idx', 'attr']),
                    rng.choice(BAD_SEGS), None)
        if steps[k][0] == 'attr' and not (isinstance(steps[k][1], dict) and 's' in steps[k][1]):
            steps[k] = ('key', steps[k][1], None)
    elif mode < 0.85:
        # continue past the leaf (scalar in the middle / beyond the end)
        for _ in range(rng.randint(1, 2)):
            steps.append((rng.choice(['key', 'idx', 'attr']), rng.choice(
                [{'s': 'a'}, {'s': '0'}, {'i': 0}, {'s': 'zz'}]), None))
            if steps[-1][0] == 'attr' and 's' not in steps[-1][1]:
                steps[-1] = ('key', steps[-1][1], None)
    elif mode < 0.93:
        # a class attribute (method, dunder name) reached by name: at the end, or in the middle
        name = {'s': rng.choice(CLS_ATTRS)}
        if rng.random() < 0.8:
            steps.append(('attr', name, None))
        else:
            k = rng.randrange(len(steps))
            steps[k] = ('attr', name, None)
            steps = steps[:k + 1 + rng.randint(0, 1)]
    else:
        # wrong access kind at position k (T.attr on a dict, T[...] on an object)
        k = rng.randrange(len(steps))
        kind, key, _ = steps[k]
        if isinstance(key, dict) and 's' in key and not key['s'].startswith('__'):
            steps[k] = ('tbad', ['.', key], None) if kind != 'attr' else ('tbad', ['[', key], None)
        else:
            steps[k] = ('tbad', ['[', {'s': 'zz'}], None)
    can_text = all(k != 'tbad' and text_ok(k, key) for k, key, _ in steps)
    styles = ['path', 'mixed', 'mixed'] + (['text', 'text'] if can_text else [])
    if any(k == 'tbad' for k, _, _ in steps):
        styles = ['mixed']
    style = rng.choice(styles)
    if style == 'text':
        # text is all plain segments: only where that keeps most of the path valid
        bad = sum(1 for k, key, hn in steps if hn is not None and not p_valid(k, key, hn))
        if bad and rng.random() < 0.8:
            style = 'mixed'
    return make_parts(rng, steps, style, None)


HANDLERS_INST = ['getattr', {'table': '_tab'}, {'table': '_tab'}, {'table': '_tab'}, 'getitem',
                 {'glomtab': '_tab'}, {'glomtab': '_tab'}, {'raises': 'BadSpec'}, {'raises': 'GlomError'},
                 {'raises': 'KeyError'}, {'raises': 'RuntimeError'}, {'raises': 'Boom'}, {'raises': 'BoomKey'},
                 {'raises': 'StopIteration'}, False, None]
HANDLERS_DICT = ['getattr', 'getattr', 'seq', 'getitem', {'raises': 'ZeroDivisionError'}, {'raises': 'BadSpec'},
                 {'raises': 'IndexError'}, False, None]
HANDLERS_SEQ = ['getattr', 'getattr', 'getitem', 'seq', {'raises': 'OSError'}, {'raises': 'LookupError'}, False, None]


def gen_registration(rng, heap):
    present = sorted({c['c'] for c in heap})
    pool = []
    for cn in present:
        cls = CLASSES[cn]
        for b in cls.__mro__:
            if b is object:
                continue
            if b.__name__ in CLASSES or b.__name__ in BUILTIN_REG:
                pool.append(b.__name__)
    if not pool or rng.random() < 0.08:
        pool = pool + ['object', 'int', 'str', 'Row', 'Rec']
    cn = rng.choice(pool)
    cls = CLASSES.get(cn) or BUILTIN_REG[cn]
    lay = layout_of(cls) if cn not in ('object', 'int', 'str') else 'inst'
    hs = {'inst': HANDLERS_INST, 'dict': HANDLERS_DICT}.get(lay, HANDLERS_SEQ)
    return {'cls': cn, 'get': rng.choice(hs), 'exact': rng.random() < 0.2}


SHAPES = ['RG', 'RG', 'GRG', 'GRG', 'GRG', 'GRGG', 'GRGRG', 'RRG', 'GRRG', 'RGRG', 'GGRG',
          'QG', 'RQG', 'RQG', 'QRG', 'GRQG', 'RQGRG', 'QGQG']     # Q: a raise_exc=False lookup


def gen_events(rng, heap, root, maxlen, with_regs):
    shape = rng.choice(SHAPES) if with_regs else 'G'
    mirror = TableMirror()
    regs = [gen_registration(rng, heap) for _ in range(shape.count('R'))]
    via = set()
    for r in regs:
        base = CLASSES.get(r['cls']) or BUILTIN_REG.get(r['cls'])
        via |= {n for n, c in CLASSES.items() if base is not None and issubclass(c, base)}
    # sub-objects that make good targets of their own: instances of the classes registered for
    addrs = [a for a, c in enumerate(heap) if c['c'] in via]
    events = []
    last = None
    ri = 0
    for ch in shape:
        if ch == 'R':
            events.append({'reg': regs[ri]})
            mirror.register(regs[ri])
            ri += 1
        elif ch == 'Q':
            # registry.get_handler('get', obj, raise_exc=False): a missing handler is remembered
            pool = [{'r': a} for a in addrs] or [root]
            events.append({'probe': {'target': rng.choice(pool + [root, {'i': 1}, None])}})
        else:
            if last is not None and rng.random() < 0.55:
                g = json.loads(json.dumps(last))           # the same call again, after the registration
            else:
                tgt = root
                if addrs and rng.random() < 0.25:
                    tgt = {'r': rng.choice(addrs)}
                g = {'spelling': gen_steps(rng, heap, tgt, maxlen, mirror, via), 'target': tgt}
            last = g
            events.append({'glom': g})
    if with_regs and rng.random() < 0.5:
        # derive the repeated path under the table *after* the registrations, so that the earlier
        # calls see it under the old table (and the later ones valid)
        gl = [e for e in events if 'glom' in e]
        tgt = gl[-1]['glom']['target']
        sp = gen_steps(rng, heap, tgt, maxlen, mirror, via)
        for e in gl:
            if rng.random() < 0.8:
                e['glom'] = {'spelling': sp, 'target': tgt}
    return events


INT_ALPHABET = ['0', '1', '2', '9', '0', '1', '_', '+', '-', ' ', '\t', '\n', '\x0b', '\x0c', '\r', '\x1c', '\x1f',
                '\x85', '\xa0', '\u1680', '\u2003', '\u2028', '\u202f', '\u3000', '\u200b', '\ufeff', '\u0661',
                '\u06f1', '\u0967', '\uff11', '\U0001d7cf', '\U0001e951', '\u00b2', '\u2460', '\u2167', '\u4e00',
                'a', 'e', 'x', 'O', 'l', '.', ',', '\x00', '\u2212', '\x7f']


def int_battery(rng, n, base):
    """single plain segments on a 12-element list: strings over an alphabet of digits of several
    Unicode blocks, underscores, signs, whitespace of every kind and near misses — int() must
    accept and reject exactly what the model does"""
    heap = [{'k': 'list', 'c': 'list', 'v': [{'i': 100 + i} for i in range(12)]}]
    for _ in range(n):
        m = rng.random()
        if m < 0.75:
            s = ''.join(rng.choice(INT_ALPHABET) for _ in range(rng.choice([1, 2, 2, 3, 3, 4, 5, 6])))
        elif m < 0.9:
            s = int_spelling(rng, rng.randrange(-13, 13))
        else:
            s = rng.choice(['', ' ', '+', '-']) + '0' * rng.choice([4298, 4299, 4300, 4301]) \
                + rng.choice(['1', '_1', '1 ', '\u0661'])
        as_text = '.' not in s and s not in ('*', '**') and rng.random() < 0.5
        sp = {'text': s} if as_text else {'parts': [{'seg': {'s': s}}]}
        c = dict(base)
        c.update({'heap': heap, 'events': [{'glom': {'spelling': sp, 'target': {'r': 0}}}],
                  'logging': False, 'glommer': False})
        yield c


def attr_battery(base):
    """every name an instance of every catalogue class (and every scalar) has, and a few it has
    not, as a single attribute step: the model must know exactly which names exist"""
    out = []
    for cn, cls in sorted(CLASSES.items()):
        lay = LAYOUT[cn]
        if lay == 'set':
            continue
        if lay == 'inst':
            pool = ['a', 'b'] if cn in ('Slots', 'SlotsFb') else ['a', 'k0']
            v = [[k, {'i': 5}] for k in pool]
            heap = [{'k': 'inst', 'c': cn, 'v': v}]
            if cn in TAB_CLASSES:
                heap[0]['v'].append(['_tab', {'r': 1}])
                heap.append({'k': 'dict', 'c': 'dict', 'v': [[{'s': 'c'}, {'i': 6}], [{'s': 'keys'}, {'i': 7}]]})
        elif lay == 'dict':
            heap = [{'k': 'dict', 'c': cn, 'v': [[{'s': 'a'}, {'i': 5}]]}]
        else:
            nfields = len(getattr(cls, '_fields', ())) or 2
            heap = [{'k': lay, 'c': cn, 'v': [{'i': 5 + i} for i in range(nfields)]}]
        names = set(dir(sample_of(cls))) | set(NAMES) | {'zz', '_tab', 'pa', 'pv', 'pc', 'ps', 'keys', '__nope__'}
        out += [(heap, {'r': 0}, n) for n in sorted(names)]
    for sc in [None, True, 7, 'abc']:
        names = set(dir(sc)) | {'a', 'zz', '__nope__'}
        out += [([], jval(sc), n) for n in sorted(names)]
    for heap, tgt, n in out:
        for sp in ({'parts': [{'t': [['.', {'s': n}]]}]}, {'parts': [{'seg': {'s': n}}]}):
            c = dict(base)
            c.update({'heap': heap, 'events': [{'glom': {'spelling': sp, 'target': tgt}}],
                      'logging': False, 'glommer': False})
            yield c


def generate(rng, tier, scale, **focus):
    n = (1500 if tier == 'quick' else 40000) * scale
    maxlen = 6 if tier == 'quick' else 10
    t = tables()
    base = {'classes': t['classes'], 'info': t['info'], 'excs': t['excs']}
    for i in range(n):
        logging = rng.random() < 0.2
        fancy = (not logging) and rng.random() < 0.7
        with_regs = rng.random() < 0.45
        star_off = rng.random() < 0.12          # glom.core.PATH_STAR = False: '*' is a plain segment
        heap, root = gen_target(rng, logging, rng.choice([2, 3, 4, 5]), fancy, star_off)
        events = gen_events(rng, heap, root, maxlen, with_regs)
        c = dict(base)
        if star_off:
            c['star'] = False
        c.update({'heap': heap, 'events': events, 'logging': logging,
                  'glommer': with_regs or rng.random() < 0.3})
        if with_regs and rng.random() < 0.12:
            c['defaults'] = False           # Glommer(register_default_types=False): an empty table
        yield c
    yield from int_battery(rng, (300 if tier == 'quick' else 6000) * scale, base)
    battery = list(attr_battery(base))
    yield from (battery if tier == 'thorough' else rng.sample(battery, 200 * scale))
    if tier == 'thorough' and not focus:
        yield from exhaustive(base)
        yield from exhaustive_histories(base)


def exhaustive(base):
    """all text paths of length <= 3 over a 4-name alphabet on fixed targets"""
    import itertools
    fixed = []
    rng = random.Random(12345)
    while len(fixed) < 40:
        heap, root = gen_target(rng, False, 3, len(fixed) % 2 == 1)
        if heap:
            fixed.append((heap, root))
    alpha = ['a', 'b', '0', '1']
    for heap, root in fixed:
        for L in range(0, 4):
            for segs in itertools.product(alpha, repeat=L):
                if L == 0:
                    sp = {'parts': []}
                else:
                    sp = {'text': '.'.join(segs)}
                c = dict(base)
                c.update({'heap': heap, 'events': [{'glom': {'spelling': sp, 'target': root}}],
                          'logging': False, 'glommer': False})
                yield c


def exhaustive_histories(base):
    """every sequence of length <= 4 over two calls and four registrations, on a fixed target
    with a Row(Rec) instance that carries a private table"""
    import itertools
    heap = [{'k': 'dict', 'c': 'dict', 'v': [[{'s': 'rows'}, {'r': 1}]]},
            {'k': 'list', 'c': 'list', 'v': [{'r': 2}, {'r': 5}]},
            {'k': 'inst', 'c': 'Row', 'v': [['b', {'i': 1}], ['_tab', {'r': 3}]]},
            {'k': 'dict', 'c': 'dict', 'v': [[{'s': 'a'}, {'r': 4}], [{'s': 'b'}, {'i': 2}]]},
            {'k': 'inst', 'c': 'Obj', 'v': []},
            {'k': 'inst', 'c': 'Row2', 'v': [['a', {'r': 4}]]}]
    root = {'r': 0}
    alphabet = [{'glom': {'spelling': {'text': 'rows.0.a'}, 'target': root}},
                {'glom': {'spelling': {'parts': [{'seg': {'s': 'rows'}}, {'seg': {'i': 1}}, {'seg': {'s': 'a'}}]},
                          'target': root}},
                {'glom': {'spelling': {'text': 'b'}, 'target': {'r': 2}}},
                {'reg': {'cls': 'Rec', 'get': {'table': '_tab'}, 'exact': False}},
                {'reg': {'cls': 'Row', 'get': 'getattr', 'exact': True}},
                {'reg': {'cls': 'Rec', 'get': False, 'exact': False}},
                {'reg': {'cls': 'Row', 'get': None, 'exact': False}},
                {'probe': {'target': {'r': 2}}}]
    for L in range(1, 5):
        for evs in itertools.product(alphabet, repeat=L):
            if not any('glom' in e for e in evs):
                continue
            c = dict(base)
            c.update({'heap': heap, 'events': list(evs), 'logging': False, 'glommer': True})
            yield c


def corpus():
    """minimised past failures (corpus/C01.jsonl holds heap + events; the class tables are the
    catalogue's and are filled in here)"""
    p = os.path.join(os.path.dirname(os.path.dirname(os.path.dirname(os.path.abspath(__file__)))),
                     'corpus', 'C01.jsonl')
    out = []
    t = tables()
    if os.path.exists(p):
        for line in open(p):
            if line.strip():
                c = json.loads(line)
                c.setdefault('classes', t['classes'])
                c.setdefault('info', t['info'])
                c.setdefault('excs', t['excs'])
                c.setdefault('logging', False)
                c.setdefault('glommer', True)
                out.append(c)
    return out


# ------------------------------------------------------------------ implementation runner
def decode(heap):
    """build real objects from heap JSON (sharing and cycles included); like pyobjs.decode, for
    the catalogue above (namedtuples, __slots__, dict subclasses)"""
    objs = [None] * len(heap)
    pending = []
    for a, cell in enumerate(heap):
        cls = CLASSES[cell['c']]
        lay = cell['k']
        if lay in ('dict', 'list', 'inst') or (lay == 'set' and cls is set):
            objs[a] = OrderedDict() if cls is OrderedDict else cls.__new__(cls)
            if cls is Counter:
                objs[a] = Counter()
        else:
            pending.append(a)

    def dv(j):
        if j is None:
            return None
        if 'b' in j:
            return j['b']
        if 'i' in j:
            return j['i']
        if 's' in j:
            return j['s']
        if 'r' in j:
            a = j['r']
            if objs[a] is None:
                build_immutable(a)
            return objs[a]
        raise ValueError('cannot decode %r' % (j,))

    building = set()

    def build_immutable(a):
        if a in building:
            raise ValueError('cycle through immutable container at %d' % a)
        building.add(a)
        cell = heap[a]
        cls = CLASSES[cell['c']]
        items = [dv(x) for x in cell['v']]
        objs[a] = cls(*items) if hasattr(cls, '_fields') else cls(items)
        building.discard(a)

    for a in pending:
        if objs[a] is None:
            build_immutable(a)
    for a, cell in enumerate(heap):
        lay = cell['k']
        o = objs[a]
        if lay == 'dict':
            setitem = OrderedDict.__setitem__ if isinstance(o, OrderedDict) else dict.__setitem__
            for k, v in cell['v']:
                setitem(o, dv(k), dv(v))
        elif lay == 'list':
            list.extend(o, [dv(x) for x in cell['v']])
        elif lay == 'set' and isinstance(o, set):
            for x in cell['v']:
                o.add(dv(x))
        elif lay == 'inst':
            try:
                d = object.__getattribute__(o, '__dict__')
            except AttributeError:
                d = None
            for k, v in cell['v']:
                if d is not None:
                    d[k] = dv(v)
                else:
                    object.__setattr__(o, k, dv(v))
    return objs, dv


def exc_name(e):
    for c in type(e).__mro__:
        if not c.__name__.startswith('GlomError.wrap'):
            return c.__name__
    return type(e).__name__


def handler_fn(h):
    import glom.core
    if h == 'getattr':
        return getattr
    if h == 'getitem':
        return operator.getitem
    if h == 'seq':
        return glom.core._get_sequence_item
    if h is False:
        return False
    if 'table' in h:
        attr = h['table']
        return lambda obj, name: getattr(obj, attr)[name]
    if 'glomtab' in h:
        attr = h['glomtab']
        return lambda obj, name: _nested_glom(getattr(obj, attr), name)
    if 'raises' in h:
        cls = EXCS.get(h['raises']) or _glom_exc(h['raises'])

        def raiser(obj, name):
            _throw(cls(name))
        return raiser
    raise ValueError(h)


def build_part(p, dv):
    from glom import Path, T
    if 'seg' in p:
        return dv(p['seg'])
    if 'path' in p:
        return Path(*[build_part(q, dv) for q in p['path']])
    t = T
    for op, arg in p['t']:
        a = dv(arg)
        if op == '.':
            t = t.__(a[2:]) if a.startswith('__') else getattr(t, a)
        else:
            t = t[a]
    return t


def build_spec(sp, dv):
    from glom import Path
    if 'text' in sp:
        return sp['text']
    return Path(*[build_part(p, dv) for p in sp['parts']])


def flat_steps(sp, dv, star=True):
    """[(op, arg)] of a spelling, computed here without glom: a dotted string is split on '.',
    a nested Path contributes the steps of its parts"""
    if 'text' in sp:
        return [('P', seg) for seg in sp['text'].split('.')]
    out = []

    def go(p):
        if 'seg' in p:
            out.append(('P', dv(p['seg'])))
        elif 'path' in p:
            for q in p['path']:
                go(q)
        else:
            for op, arg in p['t']:
                out.append((op, dv(arg)))
    for p in sp['parts']:
        go(p)
    return out


def recv_key(v, ids):
    if id(v) in ids and not isinstance(v, (bool, int, str, type(None))):
        return 'r%d' % ids[id(v)]
    if v is None:
        return 'n'
    if isinstance(v, bool):
        return 'b1' if v else 'b0'
    if isinstance(v, int):
        return 'i%d' % v
    if isinstance(v, str):
        return 's' + v
    return '?'


_KNOWN = []


def known_classes():
    if not _KNOWN:
        _KNOWN.extend(list(CLASSES.values()) + list(INFO_ONLY.values()) +
                      [object, str, int, bool, type(None)])
    return _KNOWN


def identity_tokens(v, ids, name):
    """which class attributes the returned object *is*: the bound method of which receiver, the
    classmethod of which class, the very object stored under `name` in which class's __dict__"""
    toks = []
    if isinstance(v, type):
        toks.append('ty|' + v.__name__)
    elif isinstance(v, (types.MethodType, types.BuiltinMethodType, types.MethodWrapperType)):
        slf = v.__self__
        for nm in {getattr(v, '__name__', None), name}:
            if not isinstance(nm, str):
                continue
            # v is the method stored under nm, bound to slf (looked up without logging)
            try:
                same = (type.__getattribute__(slf, nm) if isinstance(slf, type)
                        else object.__getattribute__(slf, nm)) == v
            except Exception:
                same = False
            if same:
                toks.append(('cm|%s|%s' % (slf.__name__, nm)) if isinstance(slf, type)
                            else ('bm|%s|%s' % (recv_key(slf, ids), nm)))
    if isinstance(name, str):
        for cls in known_classes():
            raw = vars(cls).get(name, RAISED)          # RAISED: a value no class stores
            if raw is v or (isinstance(raw, staticmethod) and raw.__func__ is v):
                toks.append('ca|%s|%s' % (cls.__name__, name))
    return toks


def enc_result(res, ids, name):
    if id(res) in ids and not isinstance(res, (bool, int, str, type(None))):
        val = {'r': ids[id(res)]}
    elif res is None or isinstance(res, (bool, int, str)):
        val = jval(res)
    else:
        val = {'sent': 'opaque'}
    return {'ok': val, 'toks': identity_tokens(res, ids, name)}


def run_impl(case):
    import glom
    import glom.core
    from glom import GlomError, Path, PathAccessError
    objs, dv = decode(case['heap'])
    ids = {}
    for a, o in enumerate(objs):
        ids.setdefault(id(o), a)
    glommer = None
    if case.get('glommer') or case.get('defaults') is False or \
            any('reg' in e or 'probe' in e for e in case['events']):
        glommer = glom.Glommer() if case.get('defaults', True) else glom.Glommer(register_default_types=False)
    call = glommer.glom if glommer is not None else glom.glom
    star = case.get('star', True)
    out = dict(case)
    impl = []
    saved_star = glom.core.PATH_STAR
    glom.core.PATH_STAR = star
    try:
        for ev in case['events']:
            if 'reg' in ev:
                r = ev['reg']
                cls = CLASSES.get(r['cls']) or BUILTIN_REG[r['cls']]
                kw = {}
                if r['get'] is not None:
                    kw['get'] = handler_fn(r['get'])
                if r['exact']:
                    kw['exact'] = True
                glommer.register(cls, **kw)
                continue
            if 'probe' in ev:
                glommer.scope[glom.core.TargetRegistry].get_handler('get', dv(ev['probe']['target']),
                                                                    raise_exc=False)
                continue
            g = ev['glom']
            target = dv(g['target'])
            with warnings.catch_warnings():
                warnings.simplefilter('ignore')
                spec = build_spec(g['spelling'], dv)
                steps = flat_steps(g['spelling'], dv, star)
                del pyobjs.ACCESS_LOG[:]
                del RAISED[:]
                try:
                    res = call(target, spec)
                except PathAccessError as e:
                    x = e.exc
                    # the carried exception was raised (a fresh copy has no traceback); where the
                    # catalogue raised one of this class and args, it is that very object
                    exc_ok = isinstance(x, BaseException) and x.__traceback__ is not None
                    cands = [r for r in RAISED if type(r) is type(x) and r.args == x.args]
                    if cands:
                        exc_ok = exc_ok and any(r is x for r in cands)
                    # e.path is the path of the spec: its steps are the spelling's
                    try:
                        path_ok = isinstance(e.path, Path) and list(e.path.items()) == steps
                    except Exception:
                        path_ok = False
                    pae = {'idx': e.part_idx, 'exc': exc_name(x),
                           'glom': isinstance(e, GlomError), 'key': isinstance(e, KeyError),
                           'index': isinstance(e, IndexError), 'attr': isinstance(e, AttributeError),
                           'exc_ok': bool(exc_ok), 'path_ok': bool(path_ok)}
                    args = getattr(x, 'args', None)
                    if isinstance(args, tuple) and len(args) == 1 and \
                            (args[0] is None or isinstance(args[0], (bool, int, str))):
                        pae['arg'] = jval(args[0])
                    obs = {'pae': pae}
                except Exception as e:
                    obs = {'other': exc_name(e)}
                else:
                    obs = enc_result(res, ids, steps[-1][1] if steps else None)
            log = [ids.get(id(o)) for o in pyobjs.ACCESS_LOG]
            del pyobjs.ACCESS_LOG[:]
            if None in log:
                raise RuntimeError('an object outside the heap was logged')
            impl.append({'obs': obs, 'log': log})
    finally:
        glom.core.PATH_STAR = saved_star
    out['impl'] = impl
    return out


def key(case):
    return {'heap': case['heap'], 'events': case['events'], 'defaults': case.get('defaults', True),
            'star': case.get('star', True)}


def path_len(sp):
    if 'text' in sp:
        return len(sp['text'].split('.'))
    return sum(1 if 'seg' in p else len(p['t']) if 't' in p else path_len({'parts': p['path']})
               for p in sp['parts'])


def nontrivial(case, verdict):
    gl = [e['glom'] for e in case['events'] if 'glom' in e]
    return any(path_len(g['spelling']) >= 2 for g in gl) or \
        any('pae' in (o.get('obs') or {}) for o in (case.get('impl') or []))


def shrink(case):
    base = {k: v for k, v in case.items() if not k.startswith('impl')}
    evs = case['events']
    # drop an event
    for i in range(len(evs)):
        if len(evs) > 1:
            c = dict(base); c['events'] = evs[:i] + evs[i + 1:]
            yield c
    # shorten a path
    for i, ev in enumerate(evs):
        if 'glom' not in ev:
            continue
        sp = ev['glom']['spelling']
        cands = []
        if 'parts' in sp:
            ps = sp['parts']
            cands = [{'parts': ps[:j] + ps[j + 1:]} for j in range(len(ps))]
        else:
            segs = sp['text'].split('.')
            if len(segs) > 1:
                cands = [{'text': '.'.join(segs[:j] + segs[j + 1:])} for j in range(len(segs))]
        for sp2 in cands:
            c = dict(base)
            c['events'] = evs[:i] + [{'glom': {'spelling': sp2, 'target': ev['glom']['target']}}] + evs[i + 1:]
            yield c
    # drop children of containers not needed
    heap = case['heap']
    for a, cell in enumerate(heap):
        for i in range(len(cell['v'])):
            if cell['k'] == 'tuple':
                continue
            h2 = json.loads(json.dumps(heap))
            del h2[a]['v'][i]
            c = dict(base); c['heap'] = h2
            yield c
