"""C01 — path access: generators, implementation runner, shrinker."""
import json
import os
import random

from harness import pyobjs

PROP = 'C01'
LEAN_MODULES = ['Glom.Props.C01']
FACT_FILES = ['TFacts', 'ExcFacts', 'RegFacts']
READY = True
MANIFEST = dict(
    text="Lean 4 theorems: `_t_eval`'s flat-tuple loop refines the left-to-right walk for every heap, target and path of any length (same object on success, PathAccessError(k, e) at the first failing segment, nothing touched after it), `Path.from_text` = `Path(*segs)`, PathAccessError's bases; per-run facts obligation by `decide` on the tables regenerated from /repo; model tied to the code by differential execution through the compiled Lean driver.",
    note="trusted: Lean kernel + {propext, Classical.choice, Quot.sound}; extractor; harness/driver; CPython access primitives (getattr/subscription/int()) as modelled in Glom/Py/Access.lean and validated by the correspondence; default registry only (C13 covers registration); segments within int() subset [+-]?[0-9]+.",
    technique='Lean 4 refinement proof (flat ops loop = structural walk) + facts obligation by decide + differential correspondence',
    ref='DESIGN.md §3 C01')
RULE = ('type-directed: a nested target (dict/OrderedDict/list/tuple/attribute objects/scalars, with '
        'shared sub-objects and cycles through mutable containers, plain or access-logging classes) is '
        'generated as a heap graph, a valid path of length 0-6 (quick) / 0-10 (thorough) is derived by '
        'walking it, then spelled as dotted text, Path(...) or a mixture with T steps, and a one-edit '
        'mutation stream plants an invalid segment (missing key, out-of-range / non-numeric index, '
        'missing attribute, wrong access kind, scalar in the middle) at every position; thorough also '
        'enumerates all paths of length <= 3 over a 4-name alphabet on fixed targets. non-trivial = '
        'path length >= 2 or a failing path; distinct = distinct (heap, target, spelling)')
TRUSTED = ['attribute names in generated targets are disjoint from real attributes of builtin types; '
           'path segments stay in the int() subset [+-]?[0-9]+ (stated bound)']
ASSUMPTIONS = ['default registry (no user registrations): C13 covers registration', 'PATH_STAR = True']

NAMES = ['a', 'b', 'c', 'k0']
SCALARS = [None, True, False, 0, 1, 7, -3, 'x', 'abc', '']


def jval(v):
    if v is None:
        return None
    if isinstance(v, bool):
        return {'b': v}
    if isinstance(v, int):
        return {'i': v}
    return {'s': v}


class HeapGen:
    def __init__(self, rng, logging, maxdepth):
        self.rng, self.logging, self.maxdepth = rng, logging, maxdepth
        self.heap = []
        self.open_mut = []   # addresses of mutable ancestors (cycle targets)
        self.closed = []     # completed cells (sharing targets)

    def cls(self, lay):
        r = self.rng
        if self.logging:
            return {'dict': 'LDict', 'list': 'LList', 'tuple': 'LTuple', 'inst': 'LObj'}[lay]
        if lay == 'dict':
            return r.choice(['dict', 'dict', 'OrderedDict'])
        if lay == 'inst':
            return r.choice(['Obj', 'Obj', 'Obj2'])
        return lay

    def node(self, depth):
        r = self.rng
        p = r.random()
        if depth >= self.maxdepth or p < 0.22:
            return jval(r.choice(SCALARS))
        if p < 0.30 and self.closed:
            return {'r': r.choice(self.closed)}
        if p < 0.33 and self.open_mut:
            return {'r': r.choice(self.open_mut)}
        lay = r.choice(['dict', 'dict', 'list', 'tuple', 'inst'])
        n = r.choice([0, 1, 2, 2, 3])
        if lay == 'tuple' and n == 0 and not self.logging:
            # CPython has exactly one empty tuple object: one cell for it, however often it occurs
            for a0, c0 in enumerate(self.heap):
                if c0['k'] == 'tuple' and c0['c'] == 'tuple' and not c0['v'] and a0 in self.closed:
                    return {'r': a0}
        a = len(self.heap)
        cell = {'k': lay, 'c': self.cls(lay), 'v': []}
        self.heap.append(cell)
        mutable = lay != 'tuple'
        if mutable:
            self.open_mut.append(a)
        if lay == 'dict':
            keys = r.sample(NAMES + [0, 1, '0', '1', '-1', 'x y'], n)
            cell['v'] = [[jval(k), self.node(depth + 1)] for k in keys]
        elif lay == 'inst':
            keys = r.sample(NAMES, min(n, len(NAMES)))
            cell['v'] = [[k, self.node(depth + 1)] for k in keys]
        else:
            cell['v'] = [self.node(depth + 1) for _ in range(n)]
        if mutable:
            self.open_mut.pop()
        self.closed.append(a)
        return {'r': a}


def gen_target(rng, logging, maxdepth):
    g = HeapGen(rng, logging, maxdepth)
    root = g.node(0)
    if 'r' not in (root or {}):
        # scalar root: still a valid target
        return g.heap, root
    return g.heap, root


def children(heap, val):
    """[(kind, key_json, child_val)] for a value"""
    if not isinstance(val, dict) or 'r' not in val:
        return []
    cell = heap[val['r']]
    if cell['k'] == 'dict':
        return [('key', k, v) for k, v in cell['v']]
    if cell['k'] in ('list', 'tuple'):
        return [('idx', {'i': i}, v) for i, v in enumerate(cell['v'])]
    if cell['k'] == 'inst':
        return [('attr', {'s': k}, v) for k, v in cell['v']]
    return []


def valid_walk(rng, heap, root, length):
    """list of (kind, key_json, value_before) along a random valid path"""
    cur = root
    out = []
    for _ in range(length):
        ch = children(heap, cur)
        if not ch:
            break
        kind, key, nxt = rng.choice(ch)
        n = len(heap[cur['r']]['v'])
        if kind == 'idx' and rng.random() < 0.3:
            key = {'i': key['i'] - n}          # negative index, same element
        out.append((kind, key, cur))
        cur = nxt
    return out, cur


def text_ok(kind, key):
    if not isinstance(key, dict):
        return False
    if 'i' in key:
        return True
    s = key.get('s')
    return isinstance(s, str) and '.' not in s and s not in ('*', '**')


def seg_text(kind, key):
    if 'i' in key:
        return str(key['i'])
    return key['s']


BAD_SEGS = [{'s': 'zz'}, {'s': '99'}, {'s': '-99'}, {'s': 'x'}, {'i': 99}, {'i': -99}, {'s': ''},
            None, {'b': True}, {'s': '1.5'}, {'s': '+1'}, {'s': '0'}, {'i': 0}]


def make_parts(rng, steps, style):
    """steps: [(kind,key)] -> spelling dict"""
    if style == 'text':
        return {'text': '.'.join(seg_text(k, key) for k, key in steps)}
    parts = []
    for kind, key in steps:
        if kind != 'tbad' and (style == 'path' or (style == 'mixed' and rng.random() < 0.5)):
            # plain Path segment; list indices may be given as int or as digit string
            if kind == 'idx' and isinstance(key, dict) and 'i' in key and rng.random() < 0.5:
                parts.append({'seg': {'s': str(key['i'])}})
            else:
                parts.append({'seg': key})
        else:
            if kind == 'attr':
                parts.append({'t': [['.', key]]})
            elif kind == 'tbad':
                parts.append({'t': [key]})
            else:
                parts.append({'t': [['[', key]]})
    return {'parts': parts}


def generate(rng, tier, scale, **focus):
    n = (1500 if tier == 'quick' else 40000) * scale
    maxlen = 6 if tier == 'quick' else 10
    classes = pyobjs.class_table()
    for i in range(n):
        logging = rng.random() < 0.25
        heap, root = gen_target(rng, logging, rng.choice([2, 3, 4, 5]))
        length = rng.randint(0, maxlen)
        walk, leaf = valid_walk(rng, heap, root, length)
        steps = [(k, key) for k, key, _ in walk]
        mode = rng.random()
        if mode < 0.45 or not steps:
            pass                                    # valid path (may be shorter than asked)
        elif mode < 0.57:
            # boundary indices of a sequence: -n-1, -2n, -n, n, n-1 (just outside / just inside)
            cands = [i for i, (_, _, cur) in enumerate(walk) if isinstance(cur, dict) and 'r' in cur
                     and heap[cur['r']]['k'] in ('list', 'tuple')]
            if cands:
                k = rng.choice(cands)
                n_ = len(heap[walk[k][2]['r']]['v'])
                steps[k] = ('idx', {'i': rng.choice([-n_ - 1, -2 * n_, -n_, n_, n_ - 1, -n_ - 2, -2 * n_ - 1, 2 * n_])})
                steps = steps[:k + 1] + [s_ for s_ in steps[k + 1:]][:rng.randint(0, 2)]
        elif mode < 0.75:
            k = rng.randrange(len(steps))           # plant an invalid segment at position k
            kind = steps[k][0]
            steps[k] = (kind if rng.random() < 0.6 else rng.choice(['key', 'idx', 'attr']),
                        rng.choice(BAD_SEGS))
            if steps[k][0] == 'attr' and not (isinstance(steps[k][1], dict) and 's' in steps[k][1]):
                steps[k] = ('key', steps[k][1])
        elif mode < 0.9:
            # continue past the leaf (scalar in the middle / beyond the end)
            for _ in range(rng.randint(1, 2)):
                steps.append((rng.choice(['key', 'idx', 'attr']), rng.choice(
                    [{'s': 'a'}, {'s': '0'}, {'i': 0}, {'s': 'zz'}])))
                if steps[-1][0] == 'attr' and 's' not in steps[-1][1]:
                    steps[-1] = ('key', steps[-1][1])
        else:
            # wrong access kind at position k (T.attr on a dict, T[...] on an object)
            k = rng.randrange(len(steps))
            kind, key = steps[k]
            if isinstance(key, dict) and 's' in key:
                steps[k] = ('tbad', ['.', key]) if kind != 'attr' else ('tbad', ['[', key])
            else:
                steps[k] = ('tbad', ['[', {'s': 'zz'}])
        can_text = all(k != 'tbad' and text_ok(k, key) for k, key in steps)
        styles = ['path', 'mixed', 'mixed'] + (['text', 'text'] if can_text else [])
        if any(k == 'tbad' for k, _ in steps):
            styles = ['mixed']
        style = rng.choice(styles)
        sp = make_parts(rng, steps, style)
        if style == 'mixed':
            # force the tbad steps to stay T steps
            pass
        yield {'classes': classes, 'heap': heap, 'target': root, 'spelling': sp, 'logging': logging}
    if tier == 'thorough' and not focus:
        yield from exhaustive(classes)


def exhaustive(classes):
    """all text paths of length <= 3 over a 4-name alphabet on fixed targets"""
    import itertools
    fixed = []
    rng = random.Random(12345)
    while len(fixed) < 40:
        heap, root = gen_target(rng, False, 3)
        if heap:
            fixed.append((heap, root))
    alpha = ['a', 'b', '0', '1']
    for heap, root in fixed:
        for L in range(0, 4):
            for segs in itertools.product(alpha, repeat=L):
                if L == 0:
                    sp = {'parts': []}
                else:
                    sp = {'text': '.'.join(segs)}
                yield {'classes': classes, 'heap': heap, 'target': root, 'spelling': sp, 'logging': False}


def corpus():
    p = os.path.join(os.path.dirname(os.path.dirname(os.path.dirname(os.path.abspath(__file__)))),
                     'corpus', 'C01.jsonl')
    out = []
    if os.path.exists(p):
        for line in open(p):
            if line.strip():
                out.append(json.loads(line))
    return out


def exc_name(e):
    for c in type(e).__mro__:
        if not c.__name__.startswith('GlomError.wrap'):
            return c.__name__
    return type(e).__name__


def run_impl(case):
    import glom
    from glom import Path, T, GlomError, PathAccessError
    objs, dv = pyobjs.decode(case['heap'])
    ids = {}
    for a, o in enumerate(objs):
        ids.setdefault(id(o), a)
    target = dv(case['target'])
    sp = case['spelling']
    if 'text' in sp:
        spec = sp['text']
    else:
        parts = []
        for p in sp['parts']:
            if 'seg' in p:
                parts.append(dv(p['seg']))
            else:
                t = T
                for op, arg in p['t']:
                    a = dv(arg)
                    t = getattr(t, a) if op == '.' else t[a]
                parts.append(t)
        spec = Path(*parts)
    del pyobjs.ACCESS_LOG[:]
    out = dict(case)
    try:
        res = glom.glom(target, spec)
    except PathAccessError as e:
        out['impl'] = {'pae': {'idx': e.part_idx, 'exc': exc_name(e.exc),
                               'glom': isinstance(e, GlomError), 'key': isinstance(e, KeyError),
                               'index': isinstance(e, IndexError), 'attr': isinstance(e, AttributeError)}}
    except Exception as e:
        out['impl'] = {'other': exc_name(e)}
    else:
        if id(res) in ids:
            out['impl'] = {'ok': {'r': ids[id(res)]}}
        else:
            out['impl'] = {'ok': pyobjs.enc_val(res, lambda v: None)}
    log = [ids.get(id(o)) for o in pyobjs.ACCESS_LOG]
    del pyobjs.ACCESS_LOG[:]
    out['impl_touched'] = log if case.get('logging') and None not in log else None
    return out


def key(case):
    return {'heap': case['heap'], 'target': case['target'], 'spelling': case['spelling']}


def path_len(case):
    sp = case['spelling']
    if 'text' in sp:
        return len(sp['text'].split('.'))
    return sum(1 if 'seg' in p else len(p['t']) for p in sp['parts'])


def nontrivial(case, verdict):
    return path_len(case) >= 2 or 'pae' in (case.get('impl') or {})


def shrink(case):
    sp = case['spelling']
    base = {k: v for k, v in case.items() if not k.startswith('impl')}
    if 'parts' in sp:
        ps = sp['parts']
        for i in range(len(ps)):
            c = dict(base); c['spelling'] = {'parts': ps[:i] + ps[i + 1:]}
            yield c
    else:
        segs = sp['text'].split('.')
        for i in range(len(segs)):
            if len(segs) > 1:
                c = dict(base); c['spelling'] = {'text': '.'.join(segs[:i] + segs[i + 1:])}
                yield c
    # drop children of containers not needed
    heap = case['heap']
    for a, cell in enumerate(heap):
        for i in range(len(cell['v'])):
            if cell['k'] == 'tuple':
                continue
            h2 = json.loads(json.dumps(heap))
            del h2[a]['v'][i]
            c = dict(base); c['heap'] = h2
            yield c
